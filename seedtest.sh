#!/bin/bash
# usage: seedtest.sh <property-id> <patch> [tier]  — applies a seeded change to /repo, runs the check, reverts.
ID=$1; PATCH=$2; TIER=${3:-quick}
cd /repo || exit 2
if ! git diff --quiet; then echo "repo dirty, abort"; exit 2; fi
git apply "$PATCH" || { echo "patch does not apply"; exit 2; }
cp /verif/evidence/$ID.json /tmp/seedtest.$ID.ev 2>/dev/null
cp /verif/evidence-by-tier/$ID.$TIER.json /tmp/seedtest.$ID.evt 2>/dev/null
cd /verif && ./check $ID --tier $TIER > /tmp/seedtest.$ID.out 2>&1; rc=$?
cp /tmp/seedtest.$ID.ev /verif/evidence/$ID.json 2>/dev/null; cp /tmp/seedtest.$ID.evt /verif/evidence-by-tier/$ID.$TIER.json 2>/dev/null; rm -rf /verif/replays/$ID/viol-*
git -C /repo checkout -- . 
echo "exit=$rc"; grep -c "^VIOLATION" /tmp/seedtest.$ID.out; grep -m3 -A1 "^VIOLATION" /tmp/seedtest.$ID.out; tail -1 /tmp/seedtest.$ID.out
