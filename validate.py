#!/opt/veriftools/pyvenv/bin/python
import json,jsonschema,sys,glob
m=json.load(open('/verif/MANIFEST.json'))
jsonschema.validate(m,json.load(open('/root/.vp/MANIFEST.schema.json')))
es=json.load(open('/root/.vp/EVIDENCE.schema.json'))
for f in sorted(glob.glob('/verif/evidence/*.json')):
    try:
        jsonschema.validate(json.load(open(f)),es); print('ok',f)
    except Exception as e:
        print('INVALID',f,str(e)[:300])
ids={c['property_id'] for c in m['checks']}|{c['property_id'] for c in m.get('not_applicable',[])}
allp=[json.loads(l)['id'] for l in open('/verif/properties.jsonl')]
print('unlisted:',[p for p in allp if p not in ids])
