#!/bin/bash
# usage: seedkeep2.sh <property-id> <src-name (patch1|patch2|extra_patchA)> <dst-n> "<needs>" "<result>"  (round-2 seeds from /tmp/seedout2)
ID=$1; SRC=$2; N=$3; NEEDS=$4; RESULT=$5
D=/verif/seeded/$ID-$N; mkdir -p $D
S=${SEEDROOT:-/tmp/seedout2}/$ID
if [ -f $S/$SRC.rebased.diff ]; then cp $S/$SRC.rebased.diff $D/patch.diff; cp $S/$SRC.diff $D/patch.original.diff; else cp $S/$SRC.diff $D/patch.diff; fi
k=${SRC#patch}; k=${k#extra_patch}
for f in $S/demo$k.* $S/demo${k}b.* $S/extra_demo$k.*; do [ -e "$f" ] && [ $(stat -c %s "$f") -lt 200000 ] && cp "$f" $D/; done
cp $S/NOTES.md $D/NOTES.md 2>/dev/null
python3 - "$ID" "$N" "$NEEDS" "$RESULT" <<'PY'
import json,sys
id,n,needs,result=sys.argv[1:5]
json.dump({"property":id,"seed":f"{id}-{n}","round":int(__import__("os").environ.get("ROUND","2")),"needs_to_manifest":needs,"what_was_run":result,"origin":"independent sub-agent (later round, on the repaired tree) given only the property text and a scratch worktree"},open(f"/verif/seeded/{id}-{n}/meta.json","w"),indent=1)
PY
