#!/bin/bash
# usage: seedkeep.sh <property-id> <n> "<needs>" "<caught-by / result>"
ID=$1; N=$2; NEEDS=$3; RESULT=$4
D=/verif/seeded/$ID-$N; mkdir -p $D
cp /tmp/seedout/$ID/patch$N.diff $D/patch.diff
for f in /tmp/seedout/$ID/demo$N.*; do [ -e "$f" ] && cp "$f" $D/; done
cp /tmp/seedout/$ID/NOTES.md $D/NOTES.md 2>/dev/null
python3 - "$ID" "$N" "$NEEDS" "$RESULT" <<'PY'
import json,sys
id,n,needs,result=sys.argv[1:5]
json.dump({"property":id,"seed":f"{id}-{n}","needs_to_manifest":needs,"what_was_run":result,"origin":"independent sub-agent given only the property text and a scratch worktree"},open(f"/verif/seeded/{id}-{n}/meta.json","w"),indent=1)
PY
