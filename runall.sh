#!/bin/bash
# runs every registered check (quick by default) and prints one status line per property
cd /verif
TIER=${1:-quick}
for id in $(python3 -c "import json;print(' '.join(c['property_id'] for c in json.load(open('MANIFEST.json'))['checks']))"); do
  s=$(date +%s)
  out=$(./check $id --tier $TIER 2>&1); code=$?
  e=$(date +%s)
  echo "$id exit=$code $((e-s))s $(echo "$out" | tail -1)"
  echo "$out" | grep "^VIOLATION" | head -3
done
