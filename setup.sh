#!/bin/bash
# Builds the harness (both memory strategies) from files on disk only.
set -e
cd /verif/harness
export CARGO_NET_OFFLINE=true
mkdir -p /verif/target
RUSTFLAGS="--cfg koto_verif" CARGO_TARGET_DIR=/verif/target/rc cargo build --release --offline --no-default-features --features rc
RUSTFLAGS="--cfg koto_verif" CARGO_TARGET_DIR=/verif/target/arc cargo build --release --offline --no-default-features --features arc
