//! C03 families: match arms x subjects, or-alternatives, guards, multi-subject; unpacking in
//! multi-assignment and for arguments.

use crate::common::Tier;
use crate::kast::*;
use crate::progmc::*;
use std::rc::Rc;

fn subjects() -> Vec<X> {
    vec![
        null(),
        boolean(true),
        boolean(false),
        int(0),
        int(1),
        float(1.0),
        int(-1),
        s("a"),
        s("ab"),
        tuple(vec![]),
        tuple(vec![int(1)]),
        tuple(vec![int(1), int(2)]),
        tuple(vec![int(1), int(2), int(3)]),
        tuple(vec![int(1), tuple(vec![int(2), int(3)])]),
        list(vec![]),
        list(vec![int(1)]),
        list(vec![int(1), int(2)]),
        list(vec![int(1), int(2), int(3)]),
        x(E::Map(vec![])),
        map(vec![("x", int(1))]),
        map(vec![("x", int(1)), ("y", int(2))]),
        map(vec![("y", int(2))]),
        x(E::Range(Some(int(0)), Some(int(2)), false)),
    ]
}

fn pid(n: &str) -> Pat {
    Pat::Id(n.into(), None)
}
fn ptyped(n: &str, t: &str, opt: bool) -> Pat {
    Pat::Id(n.into(), Some(Hint { name: t.into(), optional: opt }))
}
fn ell(n: Option<&str>) -> Pat {
    Pat::Ellipsis(n.map(|s| s.into()))
}
fn ptuple(v: Vec<Pat>) -> Pat {
    Pat::Tuple(v, None)
}

/// (pattern, bound names)
fn patterns_core() -> Vec<(Pat, Vec<&'static str>)> {
    vec![
        (Pat::Lit(null()), vec![]),
        (Pat::Lit(boolean(true)), vec![]),
        (Pat::Lit(int(0)), vec![]),
        (Pat::Lit(int(1)), vec![]),
        (Pat::Lit(s("a")), vec![]),
        (pid("p"), vec!["p"]),
        (Pat::Wild(None, None), vec![]),
        (ptuple(vec![pid("a"), pid("b")]), vec!["a", "b"]),
        (ptuple(vec![pid("a"), ell(None)]), vec!["a"]),
        (ptuple(vec![ell(None), pid("z")]), vec!["z"]),
        (ptuple(vec![pid("a"), ell(Some("rest"))]), vec!["a", "rest"]),
        (ptuple(vec![Pat::Lit(int(1)), pid("q")]), vec!["q"]),
        (Pat::Map(vec![(MK::Id("x".into()), None, None)]), vec!["x"]),
        (Pat::Map(vec![(MK::Id("x".into()), None, None), (MK::Id("y".into()), None, None)]), vec!["x", "y"]),
        (ptyped("n", "Number", false), vec!["n"]),
        (ptyped("t", "Tuple", false), vec!["t"]),
    ]
}

fn patterns_full() -> Vec<(Pat, Vec<&'static str>)> {
    let mut v = patterns_core();
    v.extend(vec![
        (Pat::Lit(boolean(false)), vec![]),
        (Pat::Lit(int(-1)), vec![]),
        (Pat::Lit(s("ab")), vec![]),
        (Pat::Lit(float(1.0)), vec![]),
        (Pat::Wild(Some("ignored".into()), None), vec![]),
        (ptuple(vec![pid("a")]), vec!["a"]),
        (ptuple(vec![pid("a"), pid("b"), pid("c")]), vec!["a", "b", "c"]),
        (ptuple(vec![ell(Some("first")), pid("z")]), vec!["first", "z"]),
        (ptuple(vec![pid("a"), pid("b"), ell(None)]), vec!["a", "b"]),
        (ptuple(vec![ell(None), pid("y"), pid("z")]), vec!["y", "z"]),
        (ptuple(vec![ptuple(vec![pid("a"), pid("b")]), pid("c")]), vec!["a", "b", "c"]),
        (ptuple(vec![pid("a"), ptuple(vec![pid("b"), pid("c")])]), vec!["a", "b", "c"]),
        (ptuple(vec![pid("a"), ptuple(vec![pid("b"), ell(None)])]), vec!["a", "b"]),
        (ptuple(vec![pid("a"), Pat::Wild(None, None)]), vec!["a"]),
        (Pat::Map(vec![(MK::Id("x".into()), Some("q".into()), None)]), vec!["q"]),
        (Pat::Map(vec![(MK::Str("x".into()), Some("q".into()), None)]), vec!["q"]),
        (Pat::Map(vec![(MK::Id("y".into()), None, None)]), vec!["y"]),
        (ptyped("st", "String", false), vec!["st"]),
        (ptyped("li", "List", false), vec!["li"]),
        (ptyped("ma", "Map", false), vec!["ma"]),
        (ptyped("nn", "Null", false), vec!["nn"]),
        (ptyped("on", "Number", true), vec!["on"]),
        (ptyped("an", "Any", false), vec!["an"]),
        (ptyped("ix", "Indexable", false), vec!["ix"]),
        (ptyped("it", "Iterable", false), vec!["it"]),
        (ptyped("bo", "Bool", false), vec!["bo"]),
        (ptyped("ra", "Range", false), vec!["ra"]),
        (ptuple(vec![ptyped("a", "Number", false), pid("b")]), vec!["a", "b"]),
        (Pat::Map(vec![(MK::Id("x".into()), None, Some(Hint { name: "Number".into(), optional: false }))]), vec!["x"]),
        // subject-name reuse: the pattern binds the variable holding the subject
        (ptuple(vec![pid("v"), pid("w")]), vec!["v", "w"]),
        (pid("v"), vec!["v"]),
    ]);
    v
}

fn arm(idx: i64, pat: &(Pat, Vec<&'static str>), guard: Option<X>) -> Arm {
    let mut items = vec![s("arm"), int(idx)];
    items.extend(pat.1.iter().map(|n| id(n)));
    Arm {
        alts: vec![vec![pat.0.clone()]],
        guard,
        body: blk(vec![print(tuple(items)), int(idx * 10)]),
        is_else: false,
    }
}

fn else_arm() -> Arm {
    Arm { alts: vec![], guard: None, body: blk(vec![print(s("else")), s("E")]), is_else: true }
}

fn program(subject: &X, arms: Vec<Arm>, use_kind: usize) -> Vec<X> {
    let m = x(E::Match(vec![id("v")], arms));
    let mut p = vec![assign("v", subject.clone())];
    match use_kind {
        0 => {
            p.push(m);
            p.push(print(s("end")));
        }
        1 => {
            p.push(assign("r", m));
            p.push(print(id("r")));
        }
        2 => {
            // assigned to an existing variable holding a non-null value
            p.push(assign("r", s("old")));
            p.push(assign("r", m));
            p.push(print(id("r")));
        }
        _ => {
            p = vec![assign("f", func(&["v"], vec![m])), print(callf("f", vec![subject.clone()]))];
        }
    }
    p.push(print(id("v")));
    if use_kind == 3 {
        p.pop();
    }
    p
}

/// alternatives made of nested container patterns; the body uses the names bound by both
fn gen_or_nested(emit: Emit) {
    let t = |v: Vec<Pat>| Pat::Tuple(v, None);
    let l = |i: i64| Pat::Lit(int(i));
    let v = |n: &str| Pat::Id(n.into(), None);
    let pats: Vec<(Pat, Vec<&'static str>)> = vec![
        (t(vec![t(vec![l(1), l(2)]), v("x")]), vec!["x"]),
        (t(vec![t(vec![l(3), l(4)]), v("x")]), vec!["x"]),
        (t(vec![t(vec![l(1), l(2)]), l(3)]), vec![]),
        (t(vec![t(vec![l(1), l(5)]), l(3)]), vec![]),
        (t(vec![t(vec![v("a"), l(2)]), v("x")]), vec!["a", "x"]),
        (t(vec![t(vec![l(1), Pat::Ellipsis(Some("rest".into()))]), v("x")]), vec!["rest", "x"]),
        (t(vec![t(vec![l(1), Pat::Wild(None, None)]), v("x")]), vec!["x"]),
        (t(vec![l(1), t(vec![l(2), l(9)]), v("x")]), vec!["x"]),
        (t(vec![l(1), t(vec![l(2), v("x")]), l(4)]), vec!["x"]),
        (t(vec![t(vec![l(1), t(vec![l(2), l(3)])]), v("x")]), vec!["x"]),
        (v("x"), vec!["x"]),
        (l(9), vec![]),
    ];
    let tup = |vs: Vec<X>| tuple(vs);
    let subjects: Vec<X> = vec![
        tup(vec![tup(vec![int(1), int(2)]), int(3)]),
        tup(vec![tup(vec![int(3), int(4)]), int(5)]),
        tup(vec![tup(vec![int(1), int(2)]), int(7)]),
        tup(vec![tup(vec![int(1), int(5)]), int(3)]),
        tup(vec![int(1), tup(vec![int(2), int(3)]), int(4)]),
        tup(vec![int(1), tup(vec![int(2), int(9)]), int(8)]),
        tup(vec![tup(vec![int(1), tup(vec![int(2), int(3)])]), int(6)]),
        int(9),
        list(vec![list(vec![int(1), int(2)]), int(3)]),
    ];
    for sv in &subjects {
        for p1 in &pats {
            for p2 in &pats {
                for p3 in [None, Some(&pats[10])] {
                    let mut alts = vec![vec![p1.0.clone()], vec![p2.0.clone()]];
                    let mut common: Vec<&'static str> = p1.1.iter().filter(|n| p2.1.contains(n)).cloned().collect();
                    if let Some(p3) = p3 {
                        alts.push(vec![p3.0.clone()]);
                        common.retain(|n| p3.1.contains(n));
                    }
                    let mut shown: Vec<X> = vec![s("alt")];
                    shown.extend(common.iter().map(|n| id(n)));
                    for guard in [None, Some(boolean(false))] {
                        let a = Arm { alts: alts.clone(), guard: guard.clone(), body: blk(vec![print(tuple(shown.clone())), int(1)]), is_else: false };
                        let e = Arm { alts: vec![], guard: None, body: blk(vec![print(s("else")), int(2)]), is_else: true };
                        let prog = vec![assign("v", sv.clone()), assign("r", x(E::Match(vec![id("v")], vec![a, e]))), print(id("r"))];
                        emit(Case { family: "match-or-nested", prog, shape: vec![] });
                    }
                }
            }
        }
    }
}

pub fn generate(tier: Tier, emit: Emit) {
    gen_or_nested(emit);
    let subs = subjects();
    let core = patterns_core();
    let full = patterns_full();
    // single arms over the full pattern set, every result use, with and without else
    for sv in &subs {
        for (i, p) in full.iter().enumerate() {
            for has_else in [false, true] {
                for u in 0..4 {
                    let mut arms = vec![arm(1, p, None)];
                    if has_else {
                        arms.push(else_arm());
                    }
                    emit(Case { family: "match1", prog: program(sv, arms, u), shape: shape_for(&[p]) });
                }
            }
            // guards on the bound variable (when there is one)
            if let Some(b) = p.1.first() {
                for g in [
                    cmp(callf("size", vec![list(vec![id(b)])]), CmpOp::Gt, int(0)),
                    boolean(false),
                    cmp(callf("type", vec![id(b)]), CmpOp::Eq, s("Number")),
                ] {
                    let arms = vec![arm(1, p, Some(g)), arm(2, &(pid("other"), vec!["other"]), None)];
                    emit(Case { family: "match-guard", prog: program(sv, arms, 2), shape: shape_for(&[p]) });
                }
            }
            // guarded last arm with a failing guard: the match must yield null (every pattern,
            // every result use)
            for u in 0..4 {
                let arms = vec![arm(1, &(Pat::Lit(s("nomatch")), vec![]), None), arm(2, p, Some(boolean(false)))];
                emit(Case { family: "match-guard", prog: program(sv, arms, u), shape: shape_for(&[p]) });
                let arms = vec![arm(1, p, Some(cmp(id("v"), CmpOp::Eq, s("never"))))];
                emit(Case { family: "match-guard", prog: program(sv, arms, u), shape: shape_for(&[p]) });
            }
            let _ = i;
        }
        // two arms over the core set (thorough: full x core)
        let firsts: &Vec<(Pat, Vec<&'static str>)> = if tier == Tier::Thorough { &full } else { &core };
        for p1 in firsts {
            for p2 in &core {
                for has_else in [false, true] {
                    let mut arms = vec![arm(1, p1, None), arm(2, p2, None)];
                    if has_else {
                        arms.push(else_arm());
                    }
                    emit(Case { family: "match2", prog: program(sv, arms, 2), shape: shape_for(&[p1, p2]) });
                }
            }
        }
        // or-alternatives (bindings are not used in the body: alternatives may bind different names)
        for p1 in &core {
            for p2 in &core {
                for guard in [None, Some(boolean(false)), Some(callf("tg", vec![boolean(true)]))] {
                    let a = Arm {
                        alts: vec![vec![p1.0.clone()], vec![p2.0.clone()]],
                        guard: guard.clone(),
                        body: blk(vec![print(s("alt")), int(1)]),
                        is_else: false,
                    };
                    let arms = vec![a, arm(2, &(Pat::Wild(None, None), vec![]), None)];
                    let mut p = vec![assign("tg", func(&["q"], vec![print(s("guard")), id("q")]))];
                    p.extend(program(sv, arms, 2));
                    emit(Case { family: "match-or", prog: p, shape: shape_for(&[p1, p2]) });
                }
            }
        }
        if tier == Tier::Thorough {
            // three arms over the core set
            for p1 in &core {
                for p2 in &core {
                    for p3 in core.iter().step_by(2) {
                        let arms = vec![arm(1, p1, None), arm(2, p2, None), arm(3, p3, None)];
                        emit(Case { family: "match3", prog: program(sv, arms, 2), shape: shape_for(&[p1, p2, p3]) });
                    }
                }
            }
        }
    }
    // multi-subject matches
    let small: Vec<X> = vec![int(0), int(1), s("a"), tuple(vec![int(1), int(2)]), null()];
    let row: Vec<(Pat, Vec<&'static str>)> = vec![
        (Pat::Lit(int(0)), vec![]),
        (Pat::Lit(int(1)), vec![]),
        (Pat::Wild(None, None), vec![]),
        (pid("m"), vec!["m"]),
        (ptuple(vec![pid("a"), pid("b")]), vec!["a", "b"]),
        (ptyped("n", "Number", false), vec!["n"]),
    ];
    for s1 in &small {
        for s2 in &small {
            for p1 in &row {
                for p2 in &row {
                    for q1 in row.iter().step_by(2) {
                        let mk = |idx: i64, a: &(Pat, Vec<&'static str>), b: &(Pat, Vec<&'static str>)| {
                            let mut items = vec![s("arm"), int(idx)];
                            items.extend(a.1.iter().map(|n| id(n)));
                            // the second pattern's names get a suffix-free print only if distinct
                            for n in &b.1 {
                                if !a.1.contains(n) {
                                    items.push(id(n));
                                }
                            }
                            Arm {
                                alts: vec![vec![a.0.clone(), b.0.clone()]],
                                guard: None,
                                body: blk(vec![print(tuple(items)), int(idx)]),
                                is_else: false,
                            }
                        };
                        if p1.1.iter().any(|n| p2.1.contains(n)) {
                            continue;
                        }
                        let arms = vec![mk(1, p1, p2), mk(2, q1, &row[2]), else_arm()];
                        let p = vec![
                            assign("s1", s1.clone()),
                            assign("s2", s2.clone()),
                            assign("r", x(E::Match(vec![id("s1"), id("s2")], arms))),
                            print(id("r")),
                        ];
                        emit(Case { family: "match-multi", prog: p, shape: vec![] });
                    }
                }
            }
        }
    }
    gen_unpack(tier, emit);
}

fn shape_for(ps: &[&(Pat, Vec<&'static str>)]) -> Vec<&'static str> {
    let mut v = vec![];
    if ps.iter().any(|p| p.1.contains(&"v")) {
        v.push("pattern-rebinds-subject");
    }
    fn has_ellipsis(p: &Pat) -> bool {
        match p {
            Pat::Tuple(ps, _) => ps.iter().any(|q| matches!(q, Pat::Ellipsis(_)) || has_ellipsis(q)),
            _ => false,
        }
    }
    if ps.iter().any(|p| has_ellipsis(&p.0)) {
        v.push("ellipsis-pattern");
    }
    v
}

fn gen_unpack(tier: Tier, emit: Emit) {
    let targets: Vec<Tgt> = vec![
        Tgt::Id("a".into()),
        Tgt::Id("b".into()),
        Tgt::Wild(None),
        Tgt::Index(id("l"), int(0)),
        Tgt::Access(id("m"), "k".into()),
    ];
    let gen_def = x(E::Func(Rc::new(FuncDef {
        args: vec![],
        variadic: false,
        body: blk(vec![print(s("g1")), x(E::Yield(int(1))), print(s("g2")), x(E::Yield(int(2))), print(s("g3")), x(E::Yield(int(3)))]),
        is_gen: true,
        out_hint: None,
        inline: false,
    })));
    let rhs_single: Vec<X> = vec![
        tuple(vec![]),
        tuple(vec![int(1)]),
        tuple(vec![int(1), int(2)]),
        tuple(vec![int(1), int(2), int(3), int(4)]),
        list(vec![]),
        list(vec![int(1), int(2)]),
        list(vec![int(1), int(2), int(3)]),
        s(""),
        s("xy"),
        s("xyzw"),
        x(E::Range(Some(int(5)), Some(int(7)), false)),
        x(E::Range(Some(int(5)), Some(int(9)), true)),
        map(vec![("p", int(1)), ("q", int(2))]),
        int(42),
        null(),
        callf("gen", vec![]),
        tuple(vec![tuple(vec![int(1), int(2)]), int(3)]),
    ];
    let init = || {
        vec![
            assign("gen", gen_def.clone()),
            assign("a", s("a0")),
            assign("b", s("b0")),
            assign("l", list(vec![int(0)])),
            assign("m", map(vec![("k", int(0))])),
        ]
    };
    let fin = || print(tuple(vec![id("a"), id("b"), id("l"), id("m")]));
    let nt = targets.len();
    for n in 1..=3usize {
        let total = nt.pow(n as u32);
        for ti in 0..total {
            let mut ts = vec![];
            let mut k = ti;
            for _ in 0..n {
                ts.push(targets[k % nt].clone());
                k /= nt;
            }
            if n == 1 {
                continue; // single target is plain assignment (C01)
            }
            // unpack a single value
            for r in &rhs_single {
                let mut p = init();
                p.push(x(E::MultiAssign(ts.clone(), vec![r.clone()])));
                p.push(fin());
                emit(Case { family: "unpack-single", prog: p, shape: vec![] });
            }
            // explicit value lists of length 1..4 (length 1 handled above)
            for k in 2..=4usize {
                if tier == Tier::Quick && n == 3 && k == 4 && ti % 3 != 0 {
                    continue;
                }
                let vals: Vec<X> = (0..k).map(|i| if i == 1 { id("a") } else { int(10 + i as i64) }).collect();
                let mut p = init();
                p.push(x(E::MultiAssign(ts.clone(), vals)));
                p.push(fin());
                emit(Case { family: "unpack-list", prog: p, shape: vec![] });
            }
        }
    }
    // for-loop argument lists
    let seqs: Vec<X> = vec![
        list(vec![]),
        list(vec![tuple(vec![int(1), int(2)])]),
        list(vec![tuple(vec![int(1), int(2)]), tuple(vec![int(3)]), tuple(vec![int(4), int(5), int(6)])]),
        list(vec![list(vec![int(1), int(2)]), int(7), s("uv"), null()]),
        map(vec![("p", int(1)), ("q", int(2))]),
        tuple(vec![map(vec![("x", int(1)), ("y", int(2))]), map(vec![("x", int(3)), ("y", int(4))])]),
        tuple(vec![map(vec![("x", int(1))])]),
        s("ab"),
        x(E::Range(Some(int(0)), Some(int(2)), false)),
        method(list(vec![int(5), int(6)]), "to_tuple", vec![]),
    ];
    let arg_lists: Vec<(Vec<Pat>, Vec<&'static str>)> = vec![
        (vec![pid("a")], vec!["a"]),
        (vec![pid("a"), pid("b")], vec!["a", "b"]),
        (vec![pid("a"), pid("b"), pid("c")], vec!["a", "b", "c"]),
        (vec![Pat::Wild(None, None), pid("b")], vec!["b"]),
        (vec![pid("a"), Pat::Wild(Some("x".into()), None)], vec!["a"]),
        (vec![Pat::Map(vec![(MK::Id("x".into()), None, None), (MK::Id("y".into()), None, None)])], vec!["x", "y"]),
        // (parenthesised nested patterns are not accepted as for arguments: not generated)
    ];
    for sq in &seqs {
        for (al, names) in &arg_lists {
            let mut items = vec![s("it")];
            items.extend(names.iter().map(|n| id(n)));
            let p = vec![
                assign("sq", sq.clone()),
                x(E::For(al.clone(), id("sq"), blk(vec![print(tuple(items))]))),
                print(s("end")),
            ];
            emit(Case { family: "for-args", prog: p, shape: vec![] });
        }
    }
}

pub fn classify(_case: &Case, _v: &Verdict, _real: &crate::run::Obs, _rf: Option<&crate::kref::RefObs>) -> Option<String> {
    None
}
