//! C13 — iterator pipelines are lazy, ordered and faithful to sequence semantics.
//!
//! Bounded-exhaustive enumeration of pipelines: source kind x source length x every composition of
//! adaptors up to a depth bound (all numeric parameters in a small range) x every consumer. Each
//! pipeline is executed on the real runtime as a script whose sources and callbacks print an event
//! for every element pulled / every call, and on a reference model of lazy sequences written from
//! the definitions (not from koto's code). The complete event/result trace must be identical, which
//! decides values, order, laziness (what was pulled when) and what is left in shared sources.

use crate::common::*;
use crate::run::*;
use serde_json::json;
use std::cell::RefCell;
use std::collections::{BTreeMap, BTreeSet};
use std::rc::Rc;

// ------------------------------------------------------------------------------------------
// values

#[derive(Clone, PartialEq, Debug)]
pub enum V {
    Int(i64),
    Str(String),
    Tup(Vec<V>),
    List(Vec<V>),
    Map(Vec<(V, V)>),
    Null,
    Bool(bool),
    /// IteratorOutput(..)
    Out(Box<V>),
}

fn show(v: &V, top: bool) -> String {
    match v {
        V::Int(i) => i.to_string(),
        V::Str(s) => {
            if top {
                s.clone()
            } else {
                format!("'{s}'")
            }
        }
        V::Tup(t) => format!("({})", t.iter().map(|x| show(x, false)).collect::<Vec<_>>().join(", ")),
        V::List(t) => format!("[{}]", t.iter().map(|x| show(x, false)).collect::<Vec<_>>().join(", ")),
        V::Map(m) => {
            if m.is_empty() {
                "{}".into()
            } else {
                format!(
                    "{{{}}}",
                    m.iter()
                        .map(|(k, v)| format!(
                            "{}: {}",
                            match k {
                                V::Str(s) => s.clone(),
                                other => show(other, false),
                            },
                            show(v, false)
                        ))
                        .collect::<Vec<_>>()
                        .join(", ")
                )
            }
        }
        V::Null => "null".into(),
        V::Bool(b) => b.to_string(),
        V::Out(x) => format!("IteratorOutput({})", show(x, true)),
    }
}

// ------------------------------------------------------------------------------------------
// pipeline description

#[derive(Clone, Copy, PartialEq, Eq, Debug, Hash)]
pub enum Src {
    List,
    Tuple,
    Range,
    Str,
    Map,
    /// generator function instance, prints `pull v` before yielding v
    Gen,
    /// map with @next (prints `pull v`), forward only
    MetaNext,
    /// map with @next and @next_back
    MetaBidir,
    /// map with @iterator returning a list
    MetaIterator,
    /// `(1..=n).iter()` held in a variable
    IterValue,
    /// iterator.repeat(5, n)
    RepeatN,
    /// iterator.generate(f, n)
    GenerateN,
    /// a host-provided byte iterator (KIterator::with_bytes), bidirectional
    Bytes,
    /// `1..=n`
    RangeInclusive,
    /// an inclusive range whose bounds do not fit in 32 bits
    RangeLarge,
    /// a string of n multi-code-point grapheme clusters (spacing marks, combining marks)
    StrClusters,
}

const CLUSTERS: [&str; 8] = ["கி", "กำ", "e\u{301}", "நி", "a", "한", "🇯🇵", "z"];
const LARGE_BASE: i64 = 4294967296;

const SOURCES: [Src; 16] = [Src::List, Src::Tuple, Src::Range, Src::Str, Src::Map, Src::Gen, Src::MetaNext, Src::MetaBidir, Src::MetaIterator, Src::IterValue, Src::RepeatN, Src::GenerateN, Src::Bytes, Src::RangeInclusive, Src::RangeLarge, Src::StrClusters];

#[derive(Clone, Copy, PartialEq, Eq, Debug, Hash)]
pub enum Other {
    List,
    Gen,
    Empty,
}

#[derive(Clone, Copy, PartialEq, Eq, Debug, Hash)]
pub enum Ad {
    Iter,
    Each,
    KeepA,
    KeepB,
    Skip(usize),
    Take(usize),
    TakeWhile,
    Step(usize),
    Chain(Other),
    Zip(Other),
    Enumerate,
    Chunks(usize),
    Windows(usize),
    Flatten,
    Intersperse,
    IntersperseWith,
    Cycle,
    Reversed,
    Peekable,
}

#[derive(Clone, Copy, PartialEq, Eq, Debug, Hash)]
pub enum Con {
    ToList,
    ToTuple,
    ToMap,
    ToString,
    Count,
    Last,
    Sum,
    Product,
    Min,
    Max,
    MinMax,
    Fold,
    Find,
    Position,
    Any,
    All,
    Consume,
    ConsumeF,
    Next1,
    Next3,
    NextBack1,
    Mixed,
    Advance,
    ForBreak,
    Copy,
    Peeks,
    /// a history of peekable operations (base-4 digits: peek, peek_back, next, next_back; the
    /// length is in the top byte), then to_list
    PeekSeq(u32),
}

const CONSUMERS: [Con; 26] = [
    Con::ToList,
    Con::ToTuple,
    Con::ToMap,
    Con::ToString,
    Con::Count,
    Con::Last,
    Con::Sum,
    Con::Product,
    Con::Min,
    Con::Max,
    Con::MinMax,
    Con::Fold,
    Con::Find,
    Con::Position,
    Con::Any,
    Con::All,
    Con::Consume,
    Con::ConsumeF,
    Con::Next1,
    Con::Next3,
    Con::NextBack1,
    Con::Mixed,
    Con::Advance,
    Con::ForBreak,
    Con::Copy,
    Con::Peeks,
];

#[derive(Clone, Debug, PartialEq, Eq, Hash)]
pub struct Case {
    src: Src,
    n: usize,
    ads: Vec<Ad>,
    con: Con,
}

// ------------------------------------------------------------------------------------------
// script rendering

const PRELUDE: &str = "\
c = [0, 0, 0]
fe = |x|
  print 'e {x}'
  [x]
kA = |x|
  print 'kA {x}'
  c[0] += 1
  c[0] % 2 == 1
kB = |x|
  print 'kB {x}'
  c[1] += 1
  c[1] % 2 == 0
tw = |x|
  print 'tw {x}'
  c[2] += 1
  c[2] <= 2
sep = ||
  print 'sep'
  0
ff = |a, x|
  print 'f {x}'
  '{a}|{x}'
gc = [0]
gf = ||
  gc[0] += 1
  print 'pull {gc[0]}'
  gc[0]
gen = |first, n, tag|
  for i in 0..n
    print '{tag} {first + i}'
    yield first + i
";

fn source_src(s: Src, n: usize) -> String {
    let items: Vec<String> = (1..=n).map(|i| i.to_string()).collect();
    match s {
        Src::List => format!("src = [{}]\n", items.join(", ")),
        Src::Tuple => match n {
            0 => "src = ()\n".into(),
            1 => "src = (1,)\n".into(),
            _ => format!("src = ({})\n", items.join(", ")),
        },
        Src::Range => format!("src = 1..{}\n", n + 1),
        Src::RangeInclusive => format!("src = 1..={n}\n"),
        Src::RangeLarge => format!("src = {}..={}\n", LARGE_BASE + 1, LARGE_BASE + n as i64),
        Src::StrClusters => format!("src = '{}'\n", CLUSTERS[..n.min(8)].concat()),
        Src::Str => format!("src = '{}'\n", &"abcdefgh"[..n]),
        Src::Map => {
            if n == 0 {
                "src = {}\n".into()
            } else {
                format!("src = {{{}}}\n", (1..=n).map(|i| format!("{}: {i}", &"abcdefgh"[i - 1..i])).collect::<Vec<_>>().join(", "))
            }
        }
        Src::Gen => format!("src = gen 1, {n}, 'pull'\n"),
        Src::MetaNext => format!("src =\n  i: 0\n  @next: ||\n    if self.i < {n}\n      self.i += 1\n      print 'pull {{self.i}}'\n      self.i\n    else\n      null\n"),
        Src::MetaBidir => format!(
            "src =\n  i: 0\n  j: {n}\n  @next: ||\n    if self.i < self.j\n      self.i += 1\n      print 'pull {{self.i}}'\n      self.i\n    else\n      null\n  @next_back: ||\n    if self.i < self.j\n      self.j -= 1\n      print 'pullb {{self.j + 1}}'\n      self.j + 1\n    else\n      null\n"
        ),
        Src::MetaIterator => format!("src =\n  @iterator: || [{}]\n", items.join(", ")),
        Src::IterValue => format!("src = (1..{}).iter()\n", n + 1),
        Src::RepeatN => format!("src = iterator.repeat 5, {n}\n"),
        Src::GenerateN => format!("src = iterator.generate gf, {n}\n"),
        Src::Bytes => format!("src = verif_bytes {n}\n"),
    }
}

fn ad_src(a: Ad) -> String {
    match a {
        Ad::Iter => ".iter()".into(),
        Ad::Each => ".each(fe)".into(),
        Ad::KeepA => ".keep(kA)".into(),
        Ad::KeepB => ".keep(kB)".into(),
        Ad::Skip(n) => format!(".skip({n})"),
        Ad::Take(n) => format!(".take({n})"),
        Ad::TakeWhile => ".take(tw)".into(),
        Ad::Step(n) => format!(".step({n})"),
        Ad::Chain(_) => ".chain(o2)".into(),
        Ad::Zip(_) => ".zip(o2)".into(),
        Ad::Enumerate => ".enumerate()".into(),
        Ad::Chunks(n) => format!(".chunks({n})"),
        Ad::Windows(n) => format!(".windows({n})"),
        Ad::Flatten => ".flatten()".into(),
        Ad::Intersperse => ".intersperse(0)".into(),
        Ad::IntersperseWith => ".intersperse(sep)".into(),
        Ad::Cycle => ".cycle()".into(),
        Ad::Reversed => ".reversed()".into(),
        Ad::Peekable => ".peekable()".into(),
    }
}

fn peek_ops(code: u32) -> Vec<&'static str> {
    let len = (code >> 24) as usize;
    (0..len).map(|i| ["peek", "peek_back", "next", "next_back"][((code >> (2 * i)) & 3) as usize]).collect()
}

fn other_of(c: &Case) -> Option<Other> {
    c.ads.iter().find_map(|a| match a {
        Ad::Chain(o) | Ad::Zip(o) => Some(*o),
        _ => None,
    })
}

fn stateful(s: Src) -> bool {
    matches!(s, Src::Gen | Src::MetaNext | Src::MetaBidir | Src::IterValue | Src::RepeatN | Src::GenerateN | Src::Bytes)
}

pub fn render(c: &Case) -> String {
    let mut s = String::from(PRELUDE);
    s.push_str(&source_src(c.src, c.n));
    match other_of(c) {
        Some(Other::List) => s.push_str("o2 = [7, 8]\n"),
        Some(Other::Gen) => s.push_str("o2 = gen 7, 3, 'pull2'\n"),
        Some(Other::Empty) => s.push_str("o2 = []\n"),
        None => {}
    }
    s.push_str("try\n");
    s.push_str(&format!("  it = src{}\n", c.ads.iter().map(|a| ad_src(*a)).collect::<String>()));
    s.push_str("  print 'built'\n");
    let r = |e: &str| format!("  print 'r: {{{e}}}'\n");
    match c.con {
        Con::ToList => s.push_str(&r("it.to_list()")),
        Con::ToTuple => s.push_str(&r("it.to_tuple()")),
        Con::ToMap => s.push_str(&r("it.to_map()")),
        Con::ToString => s.push_str(&r("it.to_string()")),
        Con::Count => s.push_str(&r("it.count()")),
        Con::Last => s.push_str(&r("it.last()")),
        Con::Sum => s.push_str(&r("it.sum()")),
        Con::Product => s.push_str(&r("it.product()")),
        Con::Min => s.push_str(&r("it.min()")),
        Con::Max => s.push_str(&r("it.max()")),
        Con::MinMax => s.push_str(&r("it.min_max()")),
        Con::Fold => s.push_str(&r("it.fold('', ff)")),
        Con::Find => s.push_str(&r("it.find(kB)")),
        Con::Position => s.push_str(&r("it.position(kB)")),
        Con::Any => s.push_str(&r("it.any(kB)")),
        Con::All => s.push_str(&r("it.all(kA)")),
        Con::Consume => s.push_str(&r("it.consume()")),
        Con::ConsumeF => s.push_str(&r("it.consume(fe)")),
        Con::Next1 => s.push_str(&r("it.next()")),
        Con::Next3 => {
            for _ in 0..3 {
                s.push_str(&r("it.next()"));
            }
        }
        Con::NextBack1 => s.push_str(&r("it.next_back()")),
        Con::Mixed => {
            for e in ["it.next()", "it.next_back()", "it.next_back()", "it.next()", "it.next_back()"] {
                s.push_str(&r(e));
            }
        }
        Con::Advance => {
            s.push_str(&r("it.advance(2)"));
            s.push_str(&r("it.next()"));
        }
        Con::ForBreak => s.push_str("  m = 0\n  for x in it\n    print 'x {x}'\n    m += 1\n    if m == 2\n      break\n"),
        Con::Copy => {
            s.push_str(&r("it.next()"));
            s.push_str("  cp = koto.copy it\n");
            s.push_str(&r("cp.next()"));
            s.push_str(&r("it.to_list()"));
            s.push_str(&r("cp.to_list()"));
        }
        Con::Peeks => {
            for e in ["it.peek()", "it.peek()", "it.next()", "it.peek_back()", "it.peek()", "it.next_back()", "it.next_back()", "it.peek()"] {
                s.push_str(&r(e));
            }
        }
        Con::PeekSeq(code) => {
            for op in peek_ops(code) {
                s.push_str(&r(&format!("it.{op}()")));
            }
            s.push_str(&r("it.to_list()"));
        }
    }
    // exhausted / partially consumed iterator reuse
    s.push_str("  print 'again: {it.next()}'\n");
    s.push_str("  print 'again: {it.next()}'\n");
    s.push_str("catch e\n  print 'error'\n");
    if stateful(c.src) {
        s.push_str("try\n  print 'src: {src.next()}'\ncatch e\n  print 'src-error'\n");
    }
    if other_of(c) == Some(Other::Gen) {
        s.push_str("try\n  print 'o2: {o2.next()}'\ncatch e\n  print 'o2-error'\n");
    }
    s
}

// ------------------------------------------------------------------------------------------
// the reference model: lazy sequences written from the definitions

#[derive(Debug)]
enum Stop {
    /// a runtime error is raised
    Error,
    /// the model leaves this case undefined (reason)
    Unmodelled(&'static str),
}

struct Ctx {
    log: Vec<String>,
    c: [usize; 3],
    gc: usize,
    fuel: usize,
}

impl Ctx {
    fn tick(&mut self) -> Result<(), Stop> {
        if self.fuel == 0 {
            return Err(Stop::Unmodelled("unbounded"));
        }
        self.fuel -= 1;
        Ok(())
    }
    fn fe(&mut self, x: V) -> V {
        self.log.push(format!("e {}", show(&x, true)));
        V::List(vec![x])
    }
    fn ka(&mut self, x: &V) -> bool {
        self.log.push(format!("kA {}", show(x, true)));
        self.c[0] += 1;
        self.c[0] % 2 == 1
    }
    fn kb(&mut self, x: &V) -> bool {
        self.log.push(format!("kB {}", show(x, true)));
        self.c[1] += 1;
        self.c[1] % 2 == 0
    }
    fn tw(&mut self, x: &V) -> bool {
        self.log.push(format!("tw {}", show(x, true)));
        self.c[2] += 1;
        self.c[2] <= 2
    }
}

type It = Rc<RefCell<Node>>;

#[derive(Clone)]
enum SeqKind {
    /// plain data
    Data,
    /// prints `tag v` when an element is produced
    Traced(&'static str),
    /// iterator.generate: calls the traced counter function
    Generate,
}

enum Node {
    Seq { items: Vec<V>, front: usize, back: usize, kind: SeqKind, bidir: bool, copy_shares: bool },
    Each(It),
    Keep(It, bool),
    TakeWhile(It, bool),
    Skip(It, usize),
    Take(It, usize),
    Step(It, usize, bool),
    Chain(Option<It>, It),
    Zip(It, It),
    Enumerate(It, usize),
    Chunks(It, usize),
    Windows(It, usize, Vec<V>, bool),
    Flatten(It, Option<It>),
    Intersperse(It, bool, Option<V>, bool),
    Cycle(It, Vec<V>, usize, bool),
    Reversed(It),
    Peekable(It, Option<V>, Option<V>),
}

fn mk(n: Node) -> It {
    Rc::new(RefCell::new(n))
}

fn data_iter(items: Vec<V>) -> It {
    let back = items.len();
    mk(Node::Seq { items, front: 0, back, kind: SeqKind::Data, bidir: true, copy_shares: false })
}

fn is_bidir(it: &It) -> bool {
    match &*it.borrow() {
        Node::Seq { bidir, .. } => *bidir,
        Node::Each(i) | Node::Skip(i, _) => is_bidir(i),
        Node::Reversed(_) => true,
        Node::Peekable(i, ..) => is_bidir(i),
        _ => false,
    }
}

/// an independent copy: same remaining sequence, own position
fn copy_it(it: &It) -> Result<It, Stop> {
    let n = match &*it.borrow() {
        Node::Seq { items, front, back, kind, bidir, copy_shares } => {
            if *copy_shares {
                return Err(Stop::Unmodelled("copy of an iterator over a user-defined @next map"));
            }
            Node::Seq { items: items.clone(), front: *front, back: *back, kind: kind.clone(), bidir: *bidir, copy_shares: false }
        }
        Node::Each(i) => Node::Each(copy_it(i)?),
        Node::Keep(i, b) => Node::Keep(copy_it(i)?, *b),
        Node::TakeWhile(i, f) => Node::TakeWhile(copy_it(i)?, *f),
        Node::Skip(i, n) => Node::Skip(copy_it(i)?, *n),
        Node::Take(i, n) => Node::Take(copy_it(i)?, *n),
        Node::Step(i, n, f) => Node::Step(copy_it(i)?, *n, *f),
        Node::Chain(a, b) => Node::Chain(
            match a {
                Some(a) => Some(copy_it(a)?),
                None => None,
            },
            copy_it(b)?,
        ),
        Node::Zip(a, b) => Node::Zip(copy_it(a)?, copy_it(b)?),
        Node::Enumerate(i, n) => Node::Enumerate(copy_it(i)?, *n),
        Node::Chunks(i, n) => Node::Chunks(copy_it(i)?, *n),
        Node::Windows(i, n, c, s) => Node::Windows(copy_it(i)?, *n, c.clone(), *s),
        Node::Flatten(i, nested) => Node::Flatten(
            copy_it(i)?,
            match nested {
                Some(a) => Some(copy_it(a)?),
                None => None,
            },
        ),
        Node::Intersperse(i, w, p, s) => Node::Intersperse(copy_it(i)?, *w, p.clone(), *s),
        Node::Cycle(i, c, k, d) => Node::Cycle(copy_it(i)?, c.clone(), *k, *d),
        Node::Reversed(i) => Node::Reversed(copy_it(i)?),
        Node::Peekable(i, a, b) => Node::Peekable(copy_it(i)?, a.clone(), b.clone()),
    };
    Ok(mk(n))
}

fn elements_of(v: &V) -> Option<Vec<V>> {
    match v {
        V::List(l) | V::Tup(l) => Some(l.clone()),
        V::Str(s) => Some(unicode_segmentation::UnicodeSegmentation::graphemes(s.as_str(), true).map(|c| V::Str(c.to_string())).collect()),
        V::Map(m) => Some(m.iter().map(|(k, v)| V::Tup(vec![k.clone(), v.clone()])).collect()),
        _ => None,
    }
}

fn next(it: &It, cx: &mut Ctx) -> Result<Option<V>, Stop> {
    cx.tick()?;
    let mut node = it.borrow_mut();
    match &mut *node {
        Node::Seq { items, front, back, kind, .. } => {
            if *front < *back {
                let v = items[*front].clone();
                *front += 1;
                match kind {
                    SeqKind::Data => Ok(Some(v)),
                    SeqKind::Traced(tag) => {
                        cx.log.push(format!("{tag} {}", show(&v, true)));
                        Ok(Some(v))
                    }
                    SeqKind::Generate => {
                        cx.gc += 1;
                        cx.log.push(format!("pull {}", cx.gc));
                        Ok(Some(V::Int(cx.gc as i64)))
                    }
                }
            } else {
                Ok(None)
            }
        }
        Node::Each(i) => Ok(next(i, cx)?.map(|v| cx.fe(v))),
        Node::Keep(i, use_a) => loop {
            match next(i, cx)? {
                None => return Ok(None),
                Some(v) => {
                    let keep = if *use_a { cx.ka(&v) } else { cx.kb(&v) };
                    if keep {
                        return Ok(Some(v));
                    }
                }
            }
        },
        Node::TakeWhile(i, finished) => {
            if *finished {
                return Ok(None);
            }
            match next(i, cx)? {
                None => Ok(None),
                Some(v) => {
                    if cx.tw(&v) {
                        Ok(Some(v))
                    } else {
                        *finished = true;
                        Ok(None)
                    }
                }
            }
        }
        Node::Skip(i, n) => {
            while *n > 0 {
                *n -= 1;
                if next(i, cx)?.is_none() {
                    *n = 0;
                    return Ok(None);
                }
            }
            next(i, cx)
        }
        Node::Take(i, n) => {
            if *n == 0 {
                Ok(None)
            } else {
                *n -= 1;
                next(i, cx)
            }
        }
        Node::Step(i, n, started) => {
            // definition: elements 0, n, 2n, ...; nothing beyond the yielded element is needed yet
            if *started {
                for _ in 0..*n - 1 {
                    if next(i, cx)?.is_none() {
                        return Ok(None);
                    }
                }
            }
            *started = true;
            next(i, cx)
        }
        Node::Chain(a, b) => {
            if let Some(ai) = a {
                match next(ai, cx)? {
                    Some(v) => return Ok(Some(v)),
                    None => *a = None,
                }
            }
            next(b, cx)
        }
        Node::Zip(a, b) => match next(a, cx)? {
            None => Ok(None),
            Some(x) => match next(b, cx)? {
                None => Ok(None),
                Some(y) => Ok(Some(V::Tup(vec![x, y]))),
            },
        },
        Node::Enumerate(i, k) => match next(i, cx)? {
            None => Ok(None),
            Some(v) => {
                let r = V::Tup(vec![V::Int(*k as i64), v]);
                *k += 1;
                Ok(Some(r))
            }
        },
        Node::Chunks(i, n) => {
            let mut chunk = vec![];
            while chunk.len() < *n {
                match next(i, cx)? {
                    Some(v) => chunk.push(v),
                    None => break,
                }
            }
            if chunk.is_empty() { Ok(None) } else { Ok(Some(V::Tup(chunk))) }
        }
        Node::Windows(i, n, cache, started) => {
            if *started && !cache.is_empty() {
                cache.remove(0);
            }
            *started = true;
            while cache.len() < *n {
                match next(i, cx)? {
                    Some(v) => cache.push(v),
                    None => break,
                }
            }
            if cache.len() == *n { Ok(Some(V::Tup(cache.clone()))) } else { Ok(None) }
        }
        Node::Flatten(i, nested) => loop {
            if let Some(ni) = nested {
                if let Some(v) = next(ni, cx)? {
                    return Ok(Some(v));
                }
                *nested = None;
            }
            match next(i, cx)? {
                None => return Ok(None),
                Some(v) => match elements_of(&v) {
                    Some(items) => *nested = Some(data_iter(items)),
                    None => return Ok(Some(v)),
                },
            }
        },
        Node::Intersperse(i, with_fn, pending, started) => {
            if let Some(p) = pending.take() {
                return Ok(Some(p));
            }
            if !*started {
                *started = true;
                return next(i, cx);
            }
            match next(i, cx)? {
                None => Ok(None),
                Some(v) => {
                    *pending = Some(v);
                    if *with_fn {
                        cx.log.push("sep".into());
                    }
                    Ok(Some(V::Int(0)))
                }
            }
        }
        Node::Cycle(i, cache, k, done) => {
            if !*done {
                match next(i, cx)? {
                    Some(v) => {
                        cache.push(v.clone());
                        return Ok(Some(v));
                    }
                    None => *done = true,
                }
            }
            if cache.is_empty() {
                return Ok(None);
            }
            let v = cache[*k % cache.len()].clone();
            *k += 1;
            Ok(Some(v))
        }
        Node::Reversed(i) => next_back(i, cx),
        Node::Peekable(i, pf, pb) => {
            if let Some(v) = pf.take() {
                return Ok(Some(v));
            }
            match next(i, cx)? {
                Some(v) => Ok(Some(v)),
                None => Ok(pb.take()),
            }
        }
    }
}

fn next_back(it: &It, cx: &mut Ctx) -> Result<Option<V>, Stop> {
    cx.tick()?;
    if !is_bidir(it) {
        return Err(Stop::Error);
    }
    let mut node = it.borrow_mut();
    match &mut *node {
        Node::Seq { items, front, back, kind, .. } => {
            if *front < *back {
                *back -= 1;
                let v = items[*back].clone();
                if let SeqKind::Traced(_) = kind {
                    cx.log.push(format!("pullb {}", show(&v, true)));
                }
                Ok(Some(v))
            } else {
                Ok(None)
            }
        }
        Node::Each(i) => Ok(next_back(i, cx)?.map(|v| cx.fe(v))),
        Node::Skip(i, n) => {
            // the skipped prefix is not part of the sequence: it is consumed before the back is used
            while *n > 0 {
                *n -= 1;
                if next(i, cx)?.is_none() {
                    *n = 0;
                    return Ok(None);
                }
            }
            next_back(i, cx)
        }
        Node::Reversed(i) => next(i, cx),
        Node::Peekable(i, pf, pb) => {
            if let Some(v) = pb.take() {
                return Ok(Some(v));
            }
            match next_back(i, cx)? {
                Some(v) => Ok(Some(v)),
                None => Ok(pf.take()),
            }
        }
        _ => Err(Stop::Error),
    }
}

fn build_source(s: Src, n: usize) -> It {
    let ints: Vec<V> = (1..=n as i64).map(V::Int).collect();
    let seq = |items: Vec<V>, kind: SeqKind, bidir: bool, copy_shares: bool| {
        let back = items.len();
        mk(Node::Seq { items, front: 0, back, kind, bidir, copy_shares })
    };
    match s {
        Src::List | Src::Tuple | Src::Range | Src::RangeInclusive | Src::MetaIterator | Src::IterValue | Src::Bytes => seq(ints, SeqKind::Data, true, false),
        Src::RangeLarge => seq((1..=n as i64).map(|i| V::Int(LARGE_BASE + i)).collect(), SeqKind::Data, true, false),
        Src::StrClusters => seq(CLUSTERS[..n.min(8)].iter().map(|c| V::Str(c.to_string())).collect(), SeqKind::Data, true, false),
        Src::Str => seq("abcdefgh"[..n].chars().map(|c| V::Str(c.to_string())).collect(), SeqKind::Data, true, false),
        Src::Map => seq((1..=n).map(|i| V::Tup(vec![V::Str("abcdefgh"[i - 1..i].to_string()), V::Int(i as i64)])).collect(), SeqKind::Data, true, false),
        Src::Gen => seq(ints, SeqKind::Traced("pull"), false, false),
        Src::MetaNext => seq(ints, SeqKind::Traced("pull"), false, false),
        Src::MetaBidir => seq(ints, SeqKind::Traced("pull"), true, false),
        Src::RepeatN => seq(vec![V::Int(5); n], SeqKind::Data, false, false),
        Src::GenerateN => seq(vec![V::Null; n], SeqKind::Generate, false, false),
    }
}

/// Is `src` itself a shared iterator (adaptors advance it), or an iterable that gets a fresh
/// iterator for every use?
fn source_is_iterator_value(s: Src) -> bool {
    matches!(s, Src::Gen | Src::MetaNext | Src::MetaBidir | Src::IterValue | Src::RepeatN | Src::GenerateN | Src::Bytes)
}

fn out(v: Option<V>) -> V {
    match v {
        Some(v) => V::Out(Box::new(v)),
        None => V::Null,
    }
}

fn all_ints(vs: &[V]) -> bool {
    vs.iter().all(|v| matches!(v, V::Int(_)))
}

fn drain(it: &It, cx: &mut Ctx) -> Result<Vec<V>, Stop> {
    let mut v = vec![];
    while let Some(x) = next(it, cx)? {
        v.push(x);
    }
    Ok(v)
}

fn hashable(v: &V) -> bool {
    match v {
        V::List(_) | V::Map(_) | V::Out(_) => false,
        V::Tup(t) => t.iter().all(hashable),
        _ => true,
    }
}

pub fn model(c: &Case) -> Result<Vec<String>, &'static str> {
    let mut cx = Ctx { log: vec![], c: [0; 3], gc: 0, fuel: 400 };
    let src = build_source(c.src, c.n);
    let o2: Option<It> = other_of(c).map(|o| match o {
        Other::List => data_iter(vec![V::Int(7), V::Int(8)]),
        Other::Empty => data_iter(vec![]),
        Other::Gen => {
            let items: Vec<V> = vec![V::Int(7), V::Int(8), V::Int(9)];
            mk(Node::Seq { items, front: 0, back: 3, kind: SeqKind::Traced("pull2"), bidir: false, copy_shares: false })
        }
    });
    let mut unmodelled: Option<&'static str> = None;
    let body = (|| -> Result<(), Stop> {
        // building the pipeline
        let mut it: It = if source_is_iterator_value(c.src) { src.clone() } else { copy_it(&src)? };
        let mut is_peekable_object = false;
        for a in &c.ads {
            // using a value as an iterable: iterator values are shared, a Peekable object is shared too
            is_peekable_object = false;
            it = match *a {
                Ad::Iter => it,
                Ad::Each => mk(Node::Each(it)),
                Ad::KeepA => mk(Node::Keep(it, true)),
                Ad::KeepB => mk(Node::Keep(it, false)),
                Ad::Skip(n) => mk(Node::Skip(it, n)),
                Ad::Take(n) => mk(Node::Take(it, n)),
                Ad::TakeWhile => mk(Node::TakeWhile(it, false)),
                Ad::Step(n) => {
                    if n == 0 {
                        return Err(Stop::Error);
                    }
                    mk(Node::Step(it, n, false))
                }
                Ad::Chain(o) => {
                    let b = o2.clone().unwrap();
                    let b = if o == Other::Gen { b } else { copy_it(&b)? };
                    mk(Node::Chain(Some(it), b))
                }
                Ad::Zip(o) => {
                    let b = o2.clone().unwrap();
                    let b = if o == Other::Gen { b } else { copy_it(&b)? };
                    mk(Node::Zip(it, b))
                }
                Ad::Enumerate => mk(Node::Enumerate(it, 0)),
                Ad::Chunks(n) => {
                    if n == 0 {
                        return Err(Stop::Error);
                    }
                    mk(Node::Chunks(it, n))
                }
                Ad::Windows(n) => {
                    if n == 0 {
                        return Err(Stop::Error);
                    }
                    mk(Node::Windows(it, n, vec![], false))
                }
                Ad::Flatten => mk(Node::Flatten(it, None)),
                Ad::Intersperse => mk(Node::Intersperse(it, false, None, false)),
                Ad::IntersperseWith => mk(Node::Intersperse(it, true, None, false)),
                Ad::Cycle => mk(Node::Cycle(it, vec![], 0, false)),
                Ad::Reversed => {
                    if !is_bidir(&it) {
                        return Err(Stop::Error);
                    }
                    // reversing does not consume the reversed iterator: it works on a copy
                    mk(Node::Reversed(copy_it(&it)?))
                }
                Ad::Peekable => {
                    is_peekable_object = true;
                    mk(Node::Peekable(it, None, None))
                }
            };
        }
        cx.log.push("built".into());
        let r = |cx: &mut Ctx, v: V| cx.log.push(format!("r: {}", show(&v, true)));
        match c.con {
            Con::ToList => {
                let v = drain(&it, &mut cx)?;
                r(&mut cx, V::List(v));
            }
            Con::ToTuple => {
                let v = drain(&it, &mut cx)?;
                r(&mut cx, V::Tup(v));
            }
            Con::ToMap => {
                let mut m: Vec<(V, V)> = vec![];
                while let Some(x) = next(&it, &mut cx)? {
                    let (k, v) = match x {
                        V::Tup(t) if t.len() == 2 => (t[0].clone(), t[1].clone()),
                        other => (other, V::Null),
                    };
                    if !hashable(&k) {
                        return Err(Stop::Error);
                    }
                    match m.iter_mut().find(|(k2, _)| *k2 == k) {
                        Some(e) => e.1 = v,
                        None => m.push((k, v)),
                    }
                }
                r(&mut cx, V::Map(m));
            }
            Con::ToString => {
                let v = drain(&it, &mut cx)?;
                r(&mut cx, V::Str(v.iter().map(|x| show(x, true)).collect::<String>()));
            }
            Con::Count => {
                let v = drain(&it, &mut cx)?;
                r(&mut cx, V::Int(v.len() as i64));
            }
            Con::Last => {
                let v = drain(&it, &mut cx)?;
                r(&mut cx, v.last().cloned().unwrap_or(V::Null));
            }
            Con::Sum | Con::Product => {
                let mut acc: i64 = if c.con == Con::Sum { 0 } else { 1 };
                while let Some(x) = next(&it, &mut cx)? {
                    match x {
                        V::Int(i) => {
                            acc = match if c.con == Con::Sum { acc.checked_add(i) } else { acc.checked_mul(i) } {
                                Some(a) => a,
                                None => return Err(Stop::Unmodelled("integer overflow")),
                            }
                        }
                        _ => return Err(Stop::Error),
                    }
                }
                r(&mut cx, V::Int(acc));
            }
            Con::Min | Con::Max | Con::MinMax => {
                let v = drain(&it, &mut cx)?;
                if !all_ints(&v) {
                    // comparisons between other kinds are C14's subject
                    return Err(Stop::Unmodelled("min/max over non-numbers"));
                }
                let ints: Vec<i64> = v.iter().map(|x| if let V::Int(i) = x { *i } else { 0 }).collect();
                let res = match (ints.iter().min(), ints.iter().max()) {
                    (Some(lo), Some(hi)) => match c.con {
                        Con::Min => V::Int(*lo),
                        Con::Max => V::Int(*hi),
                        _ => V::Tup(vec![V::Int(*lo), V::Int(*hi)]),
                    },
                    _ => V::Null,
                };
                r(&mut cx, res);
            }
            Con::Fold => {
                let mut acc = String::new();
                while let Some(x) = next(&it, &mut cx)? {
                    cx.log.push(format!("f {}", show(&x, true)));
                    acc = format!("{acc}|{}", show(&x, true));
                }
                r(&mut cx, V::Str(acc));
            }
            Con::Find | Con::Position | Con::Any => {
                let mut pos = 0i64;
                let mut res = match c.con {
                    Con::Any => V::Bool(false),
                    _ => V::Null,
                };
                while let Some(x) = next(&it, &mut cx)? {
                    if cx.kb(&x) {
                        res = match c.con {
                            Con::Find => x,
                            Con::Position => V::Int(pos),
                            _ => V::Bool(true),
                        };
                        break;
                    }
                    pos += 1;
                }
                r(&mut cx, res);
            }
            Con::All => {
                let mut res = true;
                while let Some(x) = next(&it, &mut cx)? {
                    if !cx.ka(&x) {
                        res = false;
                        break;
                    }
                }
                r(&mut cx, V::Bool(res));
            }
            Con::Consume => {
                drain(&it, &mut cx)?;
                r(&mut cx, V::Null);
            }
            Con::ConsumeF => {
                while let Some(x) = next(&it, &mut cx)? {
                    cx.fe(x);
                }
                r(&mut cx, V::Null);
            }
            Con::Next1 => {
                let v = next(&it, &mut cx)?;
                r(&mut cx, out(v));
            }
            Con::Next3 => {
                for _ in 0..3 {
                    let v = next(&it, &mut cx)?;
                    r(&mut cx, out(v));
                }
            }
            Con::NextBack1 => {
                let v = next_back(&it, &mut cx)?;
                r(&mut cx, out(v));
            }
            Con::Mixed => {
                for back in [false, true, true, false, true] {
                    let v = if back { next_back(&it, &mut cx)? } else { next(&it, &mut cx)? };
                    r(&mut cx, out(v));
                }
            }
            Con::Advance => {
                if is_peekable_object {
                    return Err(Stop::Error);
                }
                let mut remaining = 2;
                while remaining > 0 {
                    if next(&it, &mut cx)?.is_none() {
                        break;
                    }
                    remaining -= 1;
                }
                r(&mut cx, V::Int(remaining));
                let v = next(&it, &mut cx)?;
                r(&mut cx, out(v));
            }
            Con::ForBreak => {
                let mut m = 0;
                while let Some(x) = next(&it, &mut cx)? {
                    cx.log.push(format!("x {}", show(&x, true)));
                    m += 1;
                    if m == 2 {
                        break;
                    }
                }
            }
            Con::Copy => {
                let v = next(&it, &mut cx)?;
                r(&mut cx, out(v));
                let cp = copy_it(&it)?;
                let v = next(&cp, &mut cx)?;
                r(&mut cx, out(v));
                let v = drain(&it, &mut cx)?;
                r(&mut cx, V::List(v));
                let v = drain(&cp, &mut cx)?;
                r(&mut cx, V::List(v));
            }
            Con::Peeks | Con::PeekSeq(_) => {
                if !is_peekable_object {
                    return Err(Stop::Error);
                }
                let ops: Vec<&'static str> = match c.con {
                    Con::PeekSeq(code) => peek_ops(code),
                    _ => vec!["peek", "peek", "next", "peek_back", "peek", "next_back", "next_back", "peek"],
                };
                // peek = look at the next element without consuming it
                for op in ops {
                    let v = match op {
                        "peek" => {
                            let v = next(&it, &mut cx)?;
                            if let (Some(v), Node::Peekable(_, pf, _)) = (&v, &mut *it.borrow_mut()) {
                                *pf = Some(v.clone());
                            }
                            v
                        }
                        "peek_back" => {
                            let v = next_back(&it, &mut cx)?;
                            if let (Some(v), Node::Peekable(_, _, pb)) = (&v, &mut *it.borrow_mut()) {
                                *pb = Some(v.clone());
                            }
                            v
                        }
                        "next" => next(&it, &mut cx)?,
                        _ => next_back(&it, &mut cx)?,
                    };
                    r(&mut cx, out(v));
                }
                if matches!(c.con, Con::PeekSeq(_)) {
                    let v = drain(&it, &mut cx)?;
                    r(&mut cx, V::List(v));
                }
            }
        }
        for _ in 0..2 {
            let v = next(&it, &mut cx)?;
            cx.log.push(format!("again: {}", show(&out(v), true)));
        }
        Ok(())
    })();
    match body {
        Ok(()) => {}
        Err(Stop::Error) => cx.log.push("error".into()),
        Err(Stop::Unmodelled(why)) => unmodelled = Some(why),
    }
    if let Some(why) = unmodelled {
        return Err(why);
    }
    cx.fuel = 50;
    if stateful(c.src) {
        match next(&src, &mut cx) {
            Ok(v) => cx.log.push(format!("src: {}", show(&out(v), true))),
            Err(_) => cx.log.push("src-error".into()),
        }
    }
    if other_of(c) == Some(Other::Gen) {
        match next(o2.as_ref().unwrap(), &mut cx) {
            Ok(v) => cx.log.push(format!("o2: {}", show(&out(v), true))),
            Err(_) => cx.log.push("o2-error".into()),
        }
    }
    Ok(cx.log)
}

// ------------------------------------------------------------------------------------------
// enumeration

fn adaptor_alphabet(tier: Tier) -> Vec<Ad> {
    let mut v = vec![Ad::Iter, Ad::Each, Ad::KeepA, Ad::KeepB, Ad::TakeWhile, Ad::Enumerate, Ad::Flatten, Ad::Intersperse, Ad::IntersperseWith, Ad::Cycle, Ad::Reversed, Ad::Peekable];
    let params: &[usize] = match tier {
        Tier::Quick => &[0, 1, 2],
        Tier::Thorough => &[0, 1, 2, 3],
    };
    for &n in params {
        v.push(Ad::Skip(n));
        v.push(Ad::Take(n));
        v.push(Ad::Step(n));
        v.push(Ad::Chunks(n));
        v.push(Ad::Windows(n));
    }
    for o in [Other::List, Other::Gen, Other::Empty] {
        v.push(Ad::Chain(o));
        v.push(Ad::Zip(o));
    }
    v
}

fn chains(alpha: &[Ad], depth: usize) -> Vec<Vec<Ad>> {
    let mut out = vec![];
    let mut cur: Vec<Vec<Ad>> = vec![vec![]];
    for _ in 0..depth {
        let mut nxt = vec![];
        for c in &cur {
            for a in alpha {
                // at most one chain/zip per pipeline (one `o2` operand)
                if matches!(a, Ad::Chain(_) | Ad::Zip(_)) && c.iter().any(|x| matches!(x, Ad::Chain(_) | Ad::Zip(_))) {
                    continue;
                }
                let mut n = c.clone();
                n.push(*a);
                nxt.push(n);
            }
        }
        out.extend(nxt.iter().cloned());
        cur = nxt;
    }
    out
}

fn shape_key(c: &Case) -> String {
    format!("{:?}", c)
}

fn classify(_c: &Case, _model: &[String], _real: &[String]) -> Option<String> {
    None
}

fn new_instance() -> Instance {
    use koto::prelude::*;
    let inst = Instance::new(RunCfg { budget_ticks: 200_000, ..RunCfg::default() });
    inst.koto.prelude().add_fn("verif_bytes", |ctx| match ctx.args() {
        [KValue::Number(n)] => {
            let bytes: Vec<u8> = (1..=i64::from(n) as u8).collect();
            Ok(KIterator::with_bytes(bytes.into())?.into())
        }
        unexpected => unexpected_args("|Number|", unexpected),
    });
    inst
}

pub fn run(args: &Args) -> i32 {
    install_quiet_panic_hook();
    let tier = args.tier;
    if let Some(path) = &args.replay {
        let text = std::fs::read_to_string(path).unwrap_or_default();
        let src = match text.split_once("--- program ---\n") {
            Some((_, p)) => p.to_string(),
            None => text,
        };
        let a = new_instance().run(&src);
        println!("stdout:\n{}outcome: {:?}", a.stdout, a.outcome);
        return 0;
    }
    if let Ok(spec) = std::env::var("KV_CASE") {
        // debugging aid: KV_CASE="Gen 3 Skip(1),Reversed ToList"
        let _ = spec;
    }
    let mut report = Report::new(args, "exploration");
    let alpha = adaptor_alphabet(tier);
    let depth = tier.pick(2usize, 3usize);
    let pipelines = chains(&alpha, depth);
    let lens: Vec<usize> = tier.pick(vec![0, 1, 2, 3], vec![0, 1, 2, 3, 4, 5]);
    // depth-3 pipelines (thorough) run on a reduced source/length grid to stay within budget
    let nshards = threads() * 8;
    let peek_len = tier.pick(4usize, 6usize);
    let trace = std::env::var("KV_TRACE").is_ok();
    let wall_cap = tier.pick(50.0, 1500.0);
    let started = std::time::Instant::now();
    let results = par_shards_big_stack(nshards, 32 << 20, |shard| {
        let mut inst = new_instance();
        let mut cases = 0u64;
        let mut judged = 0u64;
        let mut unmodelled: BTreeMap<&'static str, u64> = BTreeMap::new();
        let mut errors_expected = 0u64;
        let mut traces: BTreeSet<u64> = BTreeSet::new();
        let mut samples: Vec<String> = vec![];
        let mut fails: Vec<(Option<String>, String, String)> = vec![];
        let mut per_key: BTreeMap<String, u64> = BTreeMap::new();
        let mut capped = false;
        let mut idx = 0usize;
        'outer: for p in &pipelines {
            let reduced = p.len() >= 3;
            for &s in &SOURCES {
                if reduced && !matches!(s, Src::List | Src::Gen | Src::MetaBidir | Src::Map) {
                    continue;
                }
                for &n in &lens {
                    if reduced && !(n == 0 || n == 3 || n == 5) {
                        continue;
                    }
                    idx += 1;
                    if idx % nshards != shard {
                        continue;
                    }
                    if started.elapsed().as_secs_f64() > wall_cap {
                        capped = true;
                        break 'outer;
                    }
                    let mut cons: Vec<Con> = CONSUMERS.to_vec();
                    let peek_family = match p.as_slice() {
                        [Ad::Peekable] => true,
                        [first, Ad::Peekable] => matches!(first, Ad::Each | Ad::Skip(1) | Ad::Reversed | Ad::Take(2) | Ad::Chain(Other::List) | Ad::KeepA),
                        _ => false,
                    };
                    if peek_family {
                        // every history of peekable operations up to the length bound
                        for len in 1..=peek_len {
                            for code in 0..(1u32 << (2 * len)) {
                                cons.push(Con::PeekSeq(code | ((len as u32) << 24)));
                            }
                        }
                    }
                    for &con in &cons {
                        let c = Case { src: s, n, ads: p.clone(), con };
                        cases += 1;
                        let m = match model(&c) {
                            Ok(m) => m,
                            Err(why) => {
                                *unmodelled.entry(why).or_insert(0) += 1;
                                continue;
                            }
                        };
                        if c.ads.contains(&Ad::Cycle)
                            && matches!(c.con, Con::ToList | Con::ToTuple | Con::ToMap | Con::ToString)
                            && m.iter().any(|l| l == "built")
                            && m.iter().any(|l| l == "error")
                        {
                            // an endless pipeline whose collection would stop at an error: koto
                            // pre-allocates by the (endless) size hint first = resource exhaustion
                            *unmodelled.entry("collecting an endless cycle (capacity overflow)").or_insert(0) += 1;
                            continue;
                        }
                        judged += 1;
                        if m.iter().any(|l| l == "error") {
                            errors_expected += 1;
                        }
                        traces.insert(hash_of(&m));
                        if samples.len() < 2 && judged % 4999 == 17 {
                            samples.push(format!("{:?} n={} src{} {:?} => {}", c.src, c.n, c.ads.iter().map(|a| ad_src(*a)).collect::<String>(), c.con, m.join(" | ")));
                        }
                        let src = render(&c);
                        if trace {
                            let _ = std::fs::write(format!("/dev/shm/itermc-last-{shard}"), format!("{c:?}\n{src}"));
                        }
                        let obs = inst.run(&src);
                        let real: Vec<String> = obs.stdout.lines().map(|l| l.to_string()).collect();
                        let ok = matches!(obs.outcome, Outcome::Ok(_)) && real == m;
                        if let Outcome::Panic(p) = &obs.outcome
                            && p.to_lowercase().contains("capacity overflow")
                            && c.ads.contains(&Ad::Cycle)
                        {
                            // collecting an endless pipeline pre-allocates by its size hint:
                            // resource exhaustion, out of the property's scope
                            *unmodelled.entry("collecting an endless cycle (capacity overflow)").or_insert(0) += 1;
                            judged -= 1;
                            inst = new_instance();
                            continue;
                        }
                        if !ok {
                            let k = (0..m.len().max(real.len())).find(|i| m.get(*i) != real.get(*i)).unwrap_or(0);
                            let what = format!(
                                "{:?} n={} {}  {:?}: koto {:?} where the definition gives {:?}{}",
                                c.src,
                                c.n,
                                c.ads.iter().map(|a| ad_src(*a)).collect::<String>(),
                                c.con,
                                real.get(k).map(|s| s.as_str()).unwrap_or("<end>"),
                                m.get(k).map(|s| s.as_str()).unwrap_or("<end>"),
                                if matches!(obs.outcome, Outcome::Ok(_)) { String::new() } else { format!(" (outcome {:?})", obs.outcome) }
                            );
                            let key = classify(&c, &m, &real);
                            let sig = format!("{:?}|{}|{:?}", key, c.ads.iter().map(|a| format!("{a:?}")).collect::<Vec<_>>().join(","), c.con);
                            let cnt = per_key.entry(sig).or_insert(0);
                            *cnt += 1;
                            if fails.len() < 300 || key.is_some() {
                                let replay = if *cnt <= 2 {
                                    format!("case: {}\n--- definition ---\n{}\n--- koto ---\n{}\noutcome: {:?}\n--- program ---\n{}", shape_key(&c), m.join("\n"), real.join("\n"), obs.outcome, src)
                                } else {
                                    String::new()
                                };
                                fails.push((key, what, replay));
                            }
                            if !matches!(obs.outcome, Outcome::Ok(_)) {
                                // a panicked / exhausted instance is replaced
                                inst = new_instance();
                            }
                        }
                    }
                }
            }
        }
        (cases, judged, unmodelled, errors_expected, traces, fails, capped, samples)
    });
    let mut cases = 0;
    let mut judged = 0;
    let mut unmodelled: BTreeMap<&'static str, u64> = BTreeMap::new();
    let mut errs = 0;
    let mut traces = BTreeSet::new();
    let mut capped = false;
    let mut samples: Vec<String> = vec![];
    for (c, j, u, e, t, f, cap, sm) in results {
        if samples.len() < 8 {
            samples.extend(sm);
        }
        cases += c;
        judged += j;
        errs += e;
        capped |= cap;
        for (k, n) in u {
            *unmodelled.entry(k).or_insert(0) += n;
        }
        traces.extend(t);
        for (key, what, replay) in f {
            report.fail(key.as_deref(), what, replay);
        }
    }
    report.cov("evaluations", judged);
    report.cov("samples", json!(samples));
    report.cov("cases_enumerated", cases);
    report.cov("cases_left_undefined_by_the_model", json!(unmodelled));
    report.cov("cases_where_an_error_is_the_defined_result", errs);
    report.cov("distinct_nontrivial", traces.len() as u64);
    report.cov("pipelines", pipelines.len() as u64);
    report.cov("adaptor_alphabet", json!(alpha.iter().map(|a| ad_src(*a)).collect::<Vec<_>>()));
    report.cov("source_kinds", json!(SOURCES.iter().map(|s| format!("{s:?}")).collect::<Vec<_>>()));
    report.cov("source_lengths", json!(lens));
    report.cov("consumers", json!(CONSUMERS.iter().map(|s| format!("{s:?}")).collect::<Vec<_>>()));
    report.cov("depth", depth as u64);
    report.cov("peekable_history_length", peek_len as u64);
    report.cov("exhaustive", !capped);
    if capped {
        report.cov("cap_hit", format!("wall cap {wall_cap} s"));
    }
    report.cov("rule", "every pipeline = source kind x length x adaptor chain (every composition up to the depth bound over the alphabet, numeric parameters 0..2 quick / 0..3 thorough, second operands list / traced generator / empty) x consumer; sources and callbacks print an event per element pulled / per call; the complete trace (events, results, two further next() calls on the used iterator, what is left in the shared source and second operand) must equal the trace of a reference model of lazy sequences; an error is the defined result for zero sizes, non-reversible inputs, unhashable keys and non-numeric sums");
    report.finish()
}
