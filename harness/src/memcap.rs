//! A counting global allocator with an optional cap on the bytes allocated since the last
//! [rebase]. Off by default (one relaxed load per call); worker modes that run programs which may
//! grow memory without bound arm it, so that "memory exhausted" is a deterministic function of
//! the program's allocation sequence (the process aborts at the cap) instead of a race between the
//! kernel's address-space limit and the supervisor's wall clock.

use std::alloc::{GlobalAlloc, Layout, System};
use std::sync::atomic::{AtomicBool, AtomicIsize, Ordering::Relaxed};

pub struct CapAlloc;

static ARMED: AtomicBool = AtomicBool::new(false);
static LIVE: AtomicIsize = AtomicIsize::new(0);
static LIMIT: AtomicIsize = AtomicIsize::new(isize::MAX);

#[inline]
fn charge(bytes: isize) {
    if LIVE.fetch_add(bytes, Relaxed) + bytes > LIMIT.load(Relaxed) {
        // not an unwind (allocators must not unwind) and not a null return (callers using
        // try_reserve would carry on): the supervisor sees the worker die
        std::process::abort();
    }
}

unsafe impl GlobalAlloc for CapAlloc {
    unsafe fn alloc(&self, l: Layout) -> *mut u8 {
        if ARMED.load(Relaxed) {
            charge(l.size() as isize);
        }
        unsafe { System.alloc(l) }
    }
    unsafe fn alloc_zeroed(&self, l: Layout) -> *mut u8 {
        if ARMED.load(Relaxed) {
            charge(l.size() as isize);
        }
        unsafe { System.alloc_zeroed(l) }
    }
    unsafe fn dealloc(&self, p: *mut u8, l: Layout) {
        if ARMED.load(Relaxed) {
            LIVE.fetch_sub(l.size() as isize, Relaxed);
        }
        unsafe { System.dealloc(p, l) }
    }
    unsafe fn realloc(&self, p: *mut u8, l: Layout, new_size: usize) -> *mut u8 {
        if ARMED.load(Relaxed) {
            charge(new_size as isize - l.size() as isize);
        }
        unsafe { System.realloc(p, l, new_size) }
    }
}

/// Arms the cap for this process: more than `cap_bytes` allocated (net) since the last [rebase]
/// aborts the process.
pub fn arm(cap_bytes: usize) {
    LIMIT.store(cap_bytes.min(isize::MAX as usize) as isize, Relaxed);
    LIVE.store(0, Relaxed);
    ARMED.store(true, Relaxed);
}

/// Starts a new accounting period (called at the start of every request).
pub fn rebase() {
    LIVE.store(0, Relaxed);
}
