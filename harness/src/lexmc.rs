//! C09 — lexing is lossless and positions are exact.
//!
//! Exhaustive exploration of the prefix tree of all strings up to length N over alphabets chosen
//! to reach every lexer mode; every node (string) is lexed by the real `koto_lexer::Lexer` and
//! checked against an oracle derived directly from the property statement.

use crate::common::*;
use koto_lexer::{Lexer, Token};
use serde_json::json;
use std::collections::HashSet;

pub const ALPHA_MAIN: &[&str] = &[
    "'", "\"", "{", "}", "\\", "#", "-", "r", "0", "9", ".", "e", "_", "a", ":", " ", "\t", "\r",
    "\n", "é", "字", "\u{0301}",
];
pub const ALPHA_STR: &[&str] = &["'", "{", "}", ":", "<", "\\", "u", "\n", "#", "-", "r", "\""];
/// comment / line-ending mode: multi-line comments (nested), CR LF pairs inside and outside them
/// keyword mode: keywords with multi-token lookahead (`else if`), raw-string starts, dots before
/// keywords, next to multi-byte characters
pub const ALPHA_KW: &[&str] = &["else", "if", "i", "f", " ", "é", "字", "😀", "\n", "\r", ".", "r", "'", "#"];
pub const ALPHA_CMT: &[&str] = &["#", "-", "\r", "\n", "a", " ", "'"];

#[derive(Default)]
pub struct LexStats {
    pub strings: u64,
    pub tokens: u64,
    pub with_error: u64,
    pub multi_line: u64,
}

/// Checks one input. Returns Err(description) on a violation.
pub fn check_string(src: &str, stats: &mut LexStats, kinds: Option<&mut Vec<u8>>) -> Result<(), String> {
    let bytes = src.as_bytes();
    // newline prefix counts are computed on the fly
    let nl_before = |pos: usize| -> u32 { bytes[..pos].iter().filter(|b| **b == b'\n').count() as u32 };
    let line_start_of = |pos: usize| -> usize {
        match bytes[..pos].iter().rposition(|b| *b == b'\n') {
            Some(i) => i + 1,
            None => 0,
        }
    };

    let mut lexer = Lexer::new(src);
    let mut expected_start = 0usize;
    let mut prev_end_pos: Option<koto_lexer::Position> = None;
    let mut prev_indent: usize = 0;
    let mut prev_was_newline_token = true; // start of input counts as a fresh line
    let mut steps = 0usize;
    let max_steps = src.len() * 2 + 8;
    let mut saw_error = false;
    let mut kinds = kinds;
    let mut covered = 0usize;

    loop {
        steps += 1;
        if steps > max_steps {
            return Err(format!(
                "lexer produced more than {max_steps} tokens for a {}-byte input (non-termination)",
                src.len()
            ));
        }
        let Some(t) = lexer.next() else { break };
        stats.tokens += 1;
        if let Some(k) = kinds.as_deref_mut() {
            k.push(token_kind_code(&t.token));
        }
        if t.token == Token::Error {
            saw_error = true;
            break;
        }
        let r = t.source_bytes.clone();
        if r.start != expected_start {
            return Err(format!(
                "token {:?} covers bytes {:?} but the previous token ended at byte {expected_start} (not contiguous)",
                t.token, r
            ));
        }
        if r.end < r.start || r.end > src.len() {
            return Err(format!("token {:?} has byte range {:?} outside the {}-byte input", t.token, r, src.len()));
        }
        if !src.is_char_boundary(r.start) || !src.is_char_boundary(r.end) {
            return Err(format!("token {:?} byte range {:?} is not on character boundaries", t.token, r));
        }
        // lines
        let sl = nl_before(r.start);
        let el = nl_before(r.end);
        if t.span.start.line != sl {
            return Err(format!(
                "token {:?} at bytes {:?} reports start line {} but {} line breaks precede it",
                t.token, r, t.span.start.line, sl
            ));
        }
        if t.span.end.line != el {
            return Err(format!(
                "token {:?} at bytes {:?} reports end line {} but {} line breaks precede its end",
                t.token, r, t.span.end.line, el
            ));
        }
        if el > sl {
            stats.multi_line += 1;
        }
        // span chaining
        if let Some(pe) = prev_end_pos {
            if t.span.start != pe {
                return Err(format!(
                    "token {:?} at bytes {:?} starts at {:?} but its predecessor ended at {:?}",
                    t.token, r, t.span.start, pe
                ));
            }
        } else if t.span.start.line != 0 || t.span.start.column != 0 {
            return Err(format!("first token starts at {:?}", t.span.start));
        }
        // columns
        let ls_start = line_start_of(r.start);
        let ls_end = line_start_of(r.end);
        if r.start == ls_start && t.span.start.column != 0 {
            return Err(format!(
                "token {:?} at bytes {:?} starts a line but reports start column {}",
                t.token, r, t.span.start.column
            ));
        }
        if r.end == ls_end && t.span.end.column != 0 {
            return Err(format!(
                "token {:?} at bytes {:?} ends directly after a line break but reports end column {}",
                t.token, r, t.span.end.column
            ));
        }
        if (t.span.start.column as usize) > r.start - ls_start {
            return Err(format!(
                "token {:?} at bytes {:?}: start column {} exceeds the {} bytes of its line before it",
                t.token, r, t.span.start.column, r.start - ls_start
            ));
        }
        if (t.span.end.column as usize) > r.end - ls_end {
            return Err(format!(
                "token {:?} at bytes {:?}: end column {} exceeds the {} bytes of its line before its end",
                t.token, r, t.span.end.column, r.end - ls_end
            ));
        }
        if sl == el && t.span.end.column < t.span.start.column {
            return Err(format!("token {:?} at bytes {:?}: columns decrease within a line", t.token, r));
        }
        // indentation
        if prev_was_newline_token {
            // The token starts a line whose break was a NewLine token (or the input start): the
            // indentation is the leading space/tab run of that line.
            let lead = bytes[ls_start..].iter().take_while(|b| **b == b' ' || **b == b'\t').count();
            if r.start == ls_start && t.indent != lead {
                return Err(format!(
                    "token {:?} at bytes {:?} reports indent {} but its line starts with {} whitespace bytes",
                    t.token, r, t.indent, lead
                ));
            }
        } else {
            // Same logical line as the predecessor: weak reading, the indent is unchanged.
            if t.indent != prev_indent {
                return Err(format!(
                    "token {:?} at bytes {:?} reports indent {} but its predecessor on the same logical line reported {}",
                    t.token, r, t.indent, prev_indent
                ));
            }
        }
        prev_indent = t.indent;
        prev_was_newline_token = t.token == Token::NewLine;
        prev_end_pos = Some(t.span.end);
        expected_start = r.end;
        covered = r.end;
    }
    if !saw_error && covered != src.len() {
        return Err(format!(
            "lexer stopped without an error after {covered} of {} bytes",
            src.len()
        ));
    }
    if saw_error {
        stats.with_error += 1;
    }
    stats.strings += 1;
    Ok(())
}

fn token_kind_code(t: &Token) -> u8 {
    // A stable small code per token kind, via Debug name hash (no reliance on discriminants)
    let s = format!("{t:?}");
    (hash_of(s.as_str()) & 0xff) as u8
}

struct ShardOut {
    stats: LexStats,
    nodes: u64,
    edges: u64,
    distinct: HashSet<u64>,
    failures: Vec<(String, String)>,
    samples: Samples,
}

fn explore_alphabet(alpha: &[&str], max_len: usize, distinct_len: usize) -> Vec<ShardOut> {
    let n = alpha.len();
    // shards: all prefixes of length 2 (plus the short strings handled by shard 0)
    let shards = n * n;
    par_shards(shards, |shard| {
        let mut out = ShardOut {
            stats: LexStats::default(),
            nodes: 0,
            edges: 0,
            distinct: HashSet::new(),
            failures: vec![],
            samples: Samples::new(2),
        };
        let mut buf = String::new();
        let mut kinds: Vec<u8> = Vec::new();
        let mut visit = |s: &str, depth: usize, out: &mut ShardOut| {
            out.nodes += 1;
            if depth > 0 {
                out.edges += 1;
            }
            kinds.clear();
            let want_kinds = depth <= distinct_len;
            if out.nodes % 7919 == 1 {
                out.samples.offer(|| json!(s));
            }
            let r = std::panic::catch_unwind(std::panic::AssertUnwindSafe(|| {
                let mut st = LexStats::default();
                let res = check_string(s, &mut st, if want_kinds { Some(&mut kinds) } else { None });
                (st, res)
            }));
            match r {
                Ok((st, res)) => {
                    out.stats.strings += st.strings;
                    out.stats.tokens += st.tokens;
                    out.stats.with_error += st.with_error;
                    out.stats.multi_line += st.multi_line;
                    if let Err(e) = res {
                        if out.failures.len() < 20 {
                            out.failures.push((s.to_string(), e));
                        }
                    }
                    if want_kinds {
                        out.distinct.insert(hash_of(&kinds[..]));
                    }
                }
                Err(_) => {
                    if out.failures.len() < 20 {
                        out.failures.push((s.to_string(), format!("lexer panicked: {}", take_last_panic())));
                    }
                }
            }
        };
        if shard == 0 {
            visit("", 0, &mut out);
            for a in alpha {
                visit(a, 1, &mut out);
            }
        }
        if max_len < 2 {
            return out;
        }
        buf.push_str(alpha[shard / n]);
        buf.push_str(alpha[shard % n]);
        // iterative DFS over extensions
        fn rec(
            alpha: &[&str],
            buf: &mut String,
            depth: usize,
            max_len: usize,
            out: &mut ShardOut,
            visit: &mut dyn FnMut(&str, usize, &mut ShardOut),
        ) {
            visit(buf, depth, out);
            if depth == max_len {
                return;
            }
            for a in alpha {
                let l = buf.len();
                buf.push_str(a);
                rec(alpha, buf, depth + 1, max_len, out, visit);
                buf.truncate(l);
            }
        }
        rec(alpha, &mut buf, 2, max_len, &mut out, &mut visit);
        out
    })
}

pub fn corpus_files() -> Vec<(String, String)> {
    let mut out = vec![];
    let mut dirs = vec![
        "/repo/koto/tests".to_string(),
        "/repo/koto/benches".to_string(),
        "/repo/koto/tests/test_module".to_string(),
        "/repo/crates/cli/docs".to_string(),
    ];
    let mut seen = HashSet::new();
    while let Some(d) = dirs.pop() {
        let Ok(rd) = std::fs::read_dir(&d) else { continue };
        let mut entries: Vec<_> = rd.filter_map(|e| e.ok()).map(|e| e.path()).collect();
        entries.sort();
        for p in entries {
            if p.is_dir() {
                let s = p.to_string_lossy().to_string();
                if seen.insert(s.clone()) && s.starts_with("/repo/koto") {
                    dirs.push(s);
                }
            } else if p.extension().map(|e| e == "koto").unwrap_or(false) {
                if let Ok(t) = std::fs::read_to_string(&p) {
                    let name = p.to_string_lossy().to_string();
                    if seen.insert(name.clone()) {
                        out.push((name, t));
                    }
                }
            }
        }
    }
    // koto code blocks of the docs
    let mut md_dirs = vec!["/repo/docs".to_string()];
    while let Some(d) = md_dirs.pop() {
        let Ok(rd) = std::fs::read_dir(&d) else { continue };
        let mut entries: Vec<_> = rd.filter_map(|e| e.ok()).map(|e| e.path()).collect();
        entries.sort();
        for p in entries {
            if p.is_dir() {
                md_dirs.push(p.to_string_lossy().to_string());
            } else if p.extension().map(|e| e == "md").unwrap_or(false) {
                if let Ok(t) = std::fs::read_to_string(&p) {
                    let mut idx = 0;
                    let mut cur: Option<String> = None;
                    for line in t.lines() {
                        if let Some(c) = cur.as_mut() {
                            if line.trim_start().starts_with("```") {
                                out.push((format!("{}#{}", p.to_string_lossy(), idx), cur.take().unwrap()));
                                idx += 1;
                            } else {
                                c.push_str(line);
                                c.push('\n');
                            }
                        } else if line.trim_start().starts_with("```koto") {
                            cur = Some(String::new());
                        }
                    }
                }
            }
        }
    }
    out.sort();
    out
}

/// The documentation examples use `print!`/`check!` markers; strip them so the block is plain koto.
pub fn strip_doc_markers(block: &str) -> String {
    let mut out = String::new();
    for line in block.lines() {
        let t = line.trim_start();
        if t.starts_with("check!") || t.starts_with("skip_check!") || t.starts_with("skip_run!") {
            continue;
        }
        if let Some(rest) = t.strip_prefix("print! ") {
            let indent = &line[..line.len() - t.len()];
            out.push_str(indent);
            out.push_str("print ");
            out.push_str(rest);
        } else {
            out.push_str(line);
        }
        out.push('\n');
    }
    out
}

pub fn run(args: &Args) -> i32 {
    let mut report = Report::new(args, "model_checking");
    if let Some(path) = &args.replay {
        let src = std::fs::read_to_string(path).unwrap_or_default();
        let src = replay_payload(&src);
        let mut st = LexStats::default();
        let a = check_string(&src, &mut st, None);
        let b = check_string(&src, &mut st, None);
        if a != b {
            eprintln!("machinery failure: replay diverged");
            return 2;
        }
        match a {
            Ok(()) => {
                println!("replay: property holds on {src:?}");
                return 0;
            }
            Err(e) => {
                println!("VIOLATION property={} replay={}", args.property, path);
                println!("  what: {e}");
                return 1;
            }
        }
    }
    install_quiet_panic_hook();
    let (n_main, n_str) = match args.tier {
        Tier::Quick => (5usize, 6usize),
        Tier::Thorough => (6, 8),
    };
    let n_kw = match args.tier {
        Tier::Quick => 5usize,
        Tier::Thorough => 6,
    };
    let n_cmt = match args.tier {
        Tier::Quick => 7usize,
        Tier::Thorough => 9,
    };
    let mut total = LexStats::default();
    let mut states = 0u64;
    let mut transitions = 0u64;
    let mut distinct: HashSet<u64> = HashSet::new();
    let mut samples = Samples::new(6);
    let mut fail_count = 0usize;
    for (alpha, n) in [(ALPHA_MAIN, n_main), (ALPHA_STR, n_str), (ALPHA_CMT, n_cmt), (ALPHA_KW, n_kw)] {
        let outs = explore_alphabet(alpha, n, 5);
        for o in outs {
            total.strings += o.stats.strings;
            total.tokens += o.stats.tokens;
            total.with_error += o.stats.with_error;
            total.multi_line += o.stats.multi_line;
            states += o.nodes;
            transitions += o.edges;
            distinct.extend(o.distinct);
            samples.merge(o.samples);
            for (s, e) in o.failures {
                fail_count += 1;
                report.fail(
                    classify(&s, &e).as_deref(),
                    e.clone(),
                    format!("input (escaped): {:?}\n{}\n--- payload ---\n{}", s, e, s),
                );
            }
        }
    }
    // corpus files and their prefixes
    let corpus = corpus_files();
    let limit = args.tier.pick(3000usize, usize::MAX);
    let corpus_out = par_shards(corpus.len(), |i| {
        let (name, text) = &corpus[i];
        let mut st = LexStats::default();
        let mut fails = vec![];
        let mut n = 0u64;
        let mut cut_points: Vec<usize> = vec![];
        for (b, _) in text.char_indices() {
            if b <= limit || text.as_bytes()[b - 1] == b'\n' {
                cut_points.push(b);
            }
        }
        cut_points.push(text.len());
        for b in cut_points {
            n += 1;
            let r = std::panic::catch_unwind(std::panic::AssertUnwindSafe(|| {
                let mut st2 = LexStats::default();
                let r = check_string(&text[..b], &mut st2, None);
                (st2, r)
            }));
            match r {
                Ok((st2, Ok(()))) => {
                    st.strings += st2.strings;
                    st.tokens += st2.tokens;
                    st.with_error += st2.with_error;
                    st.multi_line += st2.multi_line;
                }
                Ok((_, Err(e))) => {
                    if fails.len() < 3 {
                        fails.push((format!("{name} cut at byte {b}"), text[..b].to_string(), e));
                    }
                }
                Err(_) => {
                    if fails.len() < 3 {
                        fails.push((
                            format!("{name} cut at byte {b}"),
                            text[..b].to_string(),
                            format!("lexer panicked: {}", take_last_panic()),
                        ));
                    }
                }
            }
        }
        (st, n, fails)
    });
    let mut corpus_prefixes = 0u64;
    for (st, n, fails) in corpus_out {
        total.strings += st.strings;
        total.tokens += st.tokens;
        total.with_error += st.with_error;
        total.multi_line += st.multi_line;
        corpus_prefixes += n;
        for (what, s, e) in fails {
            fail_count += 1;
            report.fail(
                classify(&s, &e).as_deref(),
                format!("{e} [{what}]"),
                format!("{what}\n{e}\n--- payload ---\n{s}"),
            );
        }
    }
    states += corpus_prefixes;
    transitions += corpus_prefixes;

    report.cov("states", states);
    report.cov("transitions", transitions);
    report.cov("traces_validated_against_impl", total.strings + fail_count as u64);
    report.cov("evaluations", states);
    report.cov("distinct_nontrivial", distinct.len() as u64);
    report.cov(
        "rule",
        format!(
            "every string of length <= {n_main} over the {}-symbol alphabet {:?} and of length <= {n_str} over the {}-symbol string-mode alphabet {:?} and of length <= {n_cmt} over the comment/line-ending alphabet {ALPHA_CMT:?} and of length <= {n_kw} over the keyword-lookahead alphabet {ALPHA_KW:?} (prefix tree: a state is a string, a transition appends one symbol), plus {} corpus files/doc blocks cut at {} char boundaries; the real lexer runs on every one (no model). distinct_nontrivial = distinct token-kind sequences among the strings of length <= 5",
            ALPHA_MAIN.len(), ALPHA_MAIN, ALPHA_STR.len(), ALPHA_STR, corpus.len(), corpus_prefixes
        ),
    );
    report.cov("exhaustive", true);
    report.cov("tokens_checked", total.tokens);
    report.cov("inputs_ending_in_error_token", total.with_error);
    report.cov("multi_line_tokens", total.multi_line);
    report.cov("corpus_files", corpus.len() as u64);
    report.cov("corpus_prefixes", corpus_prefixes);
    samples.offer(|| json!("'{x:\n}' y"));
    report.cov("samples", samples.items);
    report.assume("column unit (chars vs display width) is not fixed by the property: the oracle requires column 0 at line starts, span chaining, monotonicity within a line and column <= byte offset in line");
    report.assume("indentation of tokens that follow a multi-line token on the same line: weak reading (equal to predecessor's)");
    report.finish()
}

fn replay_payload(file: &str) -> String {
    match file.split_once("--- payload ---\n") {
        Some((_, p)) => p.to_string(),
        None => file.to_string(),
    }
}

/// Finding-key predicates over the *input shape*.
fn classify(input: &str, err: &str) -> Option<String> {
    // format options (after ':' inside a template expression) that contain a line break
    if err.contains("line") && format_options_contain_newline(input) {
        return Some("newline-in-format-options".into());
    }
    None
}

fn format_options_contain_newline(input: &str) -> bool {
    // syntactic predicate: a ':' inside a '{' ... '}' hole of a quoted string followed by a '\n'
    // before the closing '}'
    let b = input.as_bytes();
    let mut i = 0;
    while i < b.len() {
        if b[i] == b':' {
            let mut j = i + 1;
            while j < b.len() && b[j] != b'}' {
                if b[j] == b'\n' {
                    // there must be an opening quote and '{' before
                    let before = &input[..i];
                    if (before.contains('\'') || before.contains('"')) && before.contains('{') {
                        return true;
                    }
                }
                j += 1;
            }
        }
        i += 1;
    }
    false
}
