//! C02 families: argument binding, captures, generators.

use crate::common::Tier;
use crate::kast::*;
use crate::progmc::*;
use std::rc::Rc;

fn fdef(args: Vec<ArgDef>, variadic: bool, body: Vec<X>) -> X {
    x(E::Func(Rc::new(FuncDef {
        args,
        variadic,
        body: blk(body),
        is_gen: false,
        out_hint: None,
        inline: false,
    })))
}

fn gdef(args: &[&str], body: Vec<X>) -> X {
    x(E::Func(Rc::new(FuncDef {
        args: args.iter().map(|a| ArgDef { pat: Pat::Id((*a).into(), None), default: None }).collect(),
        variadic: false,
        body: blk(body),
        is_gen: true,
        out_hint: None,
        inline: false,
    })))
}

fn arg(n: &str) -> ArgDef {
    ArgDef { pat: Pat::Id(n.into(), None), default: None }
}
fn argd(n: &str, d: X) -> ArgDef {
    ArgDef { pat: Pat::Id(n.into(), None), default: Some(d) }
}

pub fn generate(tier: Tier, emit: Emit) {
    gen_bind(tier, emit);
    gen_bind_generators(tier, emit);
    gen_structured(tier, emit);
    gen_capture(tier, emit);
    gen_generators(tier, emit);
    gen_tails(tier, emit);
    gen_packed_calls(tier, emit);
}

/// every callee kind x every packing pattern of the call arguments
fn gen_packed_calls(_tier: Tier, emit: Emit) {
    let sp = |e: X| Arg::Spread(e);
    let patterns: Vec<(&str, Vec<Arg>)> = vec![
        ("xs...", vec![sp(id("xs"))]),
        ("0, xs...", vec![Arg::E(int(0)), sp(id("xs"))]),
        ("xs..., 9", vec![sp(id("xs")), Arg::E(int(9))]),
        ("[]..., 9", vec![sp(list(vec![])), Arg::E(int(9))]),
        ("[]...", vec![sp(list(vec![]))]),
        ("xs..., ys...", vec![sp(id("xs")), sp(id("ys"))]),
        ("[]..., xs...", vec![sp(list(vec![])), sp(id("xs"))]),
        ("0, []..., xs..., 9", vec![Arg::E(int(0)), sp(list(vec![])), sp(id("xs")), Arg::E(int(9))]),
        ("1, 2", vec![Arg::E(int(1)), Arg::E(int(2))]),
        // three and four packed arguments of different sizes
        ("xs..., ys..., xs...", vec![sp(id("xs")), sp(id("ys")), sp(id("xs"))]),
        ("ys..., xs..., ys..., 9", vec![sp(id("ys")), sp(id("xs")), sp(id("ys")), Arg::E(int(9))]),
        ("0, xs..., []..., ys..., xs...", vec![Arg::E(int(0)), sp(id("xs")), sp(list(vec![])), sp(id("ys")), sp(id("xs"))]),
        ("ys..., 5, xs..., (7,)...", vec![sp(id("ys")), Arg::E(int(5)), sp(id("xs")), sp(tuple(vec![int(7)]))]),
    ];
    let body_tuple = || tuple(vec![id("a"), id("b"), id("rest")]);
    let mk_f = |generator: bool| -> X {
        let mut fd = FuncDef {
            args: vec![
                ArgDef { pat: Pat::Id("a".into(), None), default: Some(s("da")) },
                ArgDef { pat: Pat::Id("b".into(), None), default: Some(s("db")) },
                ArgDef { pat: Pat::Id("rest".into(), None), default: None },
            ],
            variadic: true,
            body: if generator { blk(vec![x(E::Yield(id("a"))), x(E::Yield(id("b"))), x(E::For(vec![Pat::Id("r".into(), None)], id("rest"), blk(vec![x(E::Yield(id("r")))])))]) } else { blk(vec![body_tuple()]) },
            out_hint: None,
            is_gen: generator,
            inline: false,
        };
        fd.inline = false;
        x(E::Func(std::rc::Rc::new(fd)))
    };
    for (callee_kind, setup, callee, is_gen) in [
        ("function", vec![assign("f", mk_f(false))], id("f"), false),
        ("generator", vec![assign("f", mk_f(true))], id("f"), true),
        ("call-metakey", vec![assign("f", mk_f(false)), assign("c", x(E::Map(vec![(MK::Meta("call".into(), None), Some(id("f")))])))], id("c"), false),
        ("call-metakey-generator", vec![assign("f", mk_f(true)), assign("c", x(E::Map(vec![(MK::Meta("call".into(), None), Some(id("f")))])))], id("c"), true),
        ("method", vec![assign("f", mk_f(false)), assign("m", map(vec![("f", id("f"))]))], access(id("m"), "f"), false),
    ] {
        for (_pname, args) in &patterns {
            for in_function in [false, true] {
                let call = x(E::Call(callee.clone(), args.clone(), CallStyle::Parens));
                let observed = if is_gen { method(call, "to_tuple", vec![]) } else { call };
                let mut body = vec![assign("xs", list(vec![int(1), int(2), int(3)])), assign("ys", tuple(vec![s("p"), s("q")]))];
                body.extend(setup.clone());
                body.push(assign("keep", int(42)));
                body.push(print(observed.clone()));
                // the caller's own values survive the call
                body.push(print(tuple(vec![id("keep"), id("xs"), id("ys")])));
                body.push(print(observed));
                let prog = if in_function { vec![assign("run", func(&[], body)), callf("run", vec![]), print(s("end"))] } else { body };
                let _ = callee_kind;
                emit(Case { family: "packed-calls", prog, shape: vec![] });
            }
        }
    }
}

/// function bodies whose last expression contains a (bare or valued) return / break / continue in
/// every nested position, and statements whose value is discarded (incl. function literals)
fn gen_tails(_tier: Tier, emit: Emit) {
    let rets: Vec<(&str, X)> = vec![("bare", ret(None)), ("valued", ret(Some(int(7))))];
    for (rname, r) in &rets {
        let tails: Vec<(&str, Vec<X>)> = vec![
            ("if-block", vec![x(E::If(vec![(id("c"), blk(vec![r.clone()]))], None))]),
            ("if-else-block", vec![x(E::If(vec![(id("c"), blk(vec![assign("t", int(1)), r.clone()]))], Some(blk(vec![assign("t", int(2))]))))]),
            ("else-return", vec![x(E::If(vec![(id("c"), blk(vec![assign("t", int(1))]))], Some(blk(vec![r.clone()]))))]),
            ("for-return", vec![x(E::For(vec![Pat::Id("i".into(), None)], x(E::Range(Some(int(0)), Some(int(2)), false)), blk(vec![x(E::If(vec![(id("c"), blk(vec![r.clone()]))], None))])))]),
            ("while-return", vec![assign("n", int(0)), x(E::While(cmp(id("n"), CmpOp::Lt, int(2)), blk(vec![x(E::OpAssign(Op::Add, Tgt::Id("n".into()), int(1))), x(E::If(vec![(id("c"), blk(vec![r.clone()]))], None))])))]),
            ("nested-if", vec![x(E::If(vec![(boolean(true), blk(vec![x(E::If(vec![(id("c"), blk(vec![r.clone()]))], None))]))], None))]),
            ("match-arm", vec![x(E::Match(vec![id("c")], vec![Arm { alts: vec![vec![Pat::Lit(boolean(true))]], guard: None, body: blk(vec![r.clone()]), is_else: false }, Arm { alts: vec![], guard: None, body: blk(vec![int(3)]), is_else: true }]))]),
            ("try-body", vec![x(E::Try(blk(vec![x(E::If(vec![(id("c"), blk(vec![r.clone()]))], None))]), vec![CatchArm { pat: Pat::Id("e".into(), None), body: blk(vec![int(4)]) }], None))]),
            ("statement-then-if", vec![assign("t", int(5)), x(E::If(vec![(id("c"), blk(vec![r.clone()]))], None))]),
        ];
        // the return sits inside a string / list / tuple / map under construction
        let cond_ret = || x(E::If(vec![(id("c"), blk(vec![r.clone()]))], Some(blk(vec![int(0)]))));
        let mut tails = tails;
        tails.push(("in-list", vec![list(vec![int(1), cond_ret(), int(3)])]));
        tails.push(("in-tuple", vec![tuple(vec![int(1), cond_ret()])]));
        tails.push(("in-string", vec![interp(vec![lit("s"), hole(int(1)), lit("-"), hole(cond_ret()), lit("e")])]));
        tails.push(("in-map", vec![map(vec![("k", int(1)), ("v", cond_ret())])]));
        tails.push(("in-nested", vec![list(vec![interp(vec![lit("n"), hole(tuple(vec![int(1), cond_ret()]))]), int(2)])]));
        for (tname, body) in tails {
            for cval in [true, false] {
                let prog = vec![
                    assign("f", func(&["c"], body.clone())),
                    print(tuple(vec![s("before"), callf("f", vec![boolean(cval)]), s("after")])),
                    print(interp(vec![lit("x"), hole(callf("f", vec![boolean(cval)])), lit("y")])),
                    assign("g", func(&["c"], vec![assign("inner", func(&["c"], body.clone())), tuple(vec![callf("inner", vec![id("c")]), s("outer")])])),
                    print(callf("g", vec![boolean(cval)])),
                    print(s("end")),
                ];
                let _ = (rname, tname);
                emit(Case { family: "tail-returns", prog, shape: vec![] });
            }
        }
    }
    // break / continue inside a list / tuple / string / map under construction in a loop body
    for (_en, exit) in [("break", x(E::Break(None))), ("continue", x(E::Continue))] {
        let cond_exit = || x(E::If(vec![(cmp(id("i"), CmpOp::Eq, int(1)), blk(vec![exit.clone()]))], Some(blk(vec![int(5)]))));
        let constructions: Vec<X> = vec![
            list(vec![id("i"), cond_exit(), int(3)]),
            tuple(vec![id("i"), cond_exit()]),
            interp(vec![lit("s"), hole(id("i")), lit("-"), hole(cond_exit()), lit("e")]),
            map(vec![("k", id("i")), ("v", cond_exit())]),
            list(vec![interp(vec![lit("n"), hole(tuple(vec![id("i"), cond_exit()]))]), int(2)]),
        ];
        for c in constructions {
            let body = vec![
                assign("out", list(vec![])),
                x(E::For(vec![Pat::Id("i".into(), None)], x(E::Range(Some(int(0)), Some(int(3)), false)), blk(vec![method(id("out"), "push", vec![c.clone()])]))),
                id("out"),
            ];
            let prog = vec![
                assign("f", func(&[], body.clone())),
                print(tuple(vec![s("before"), callf("f", vec![]), s("after")])),
                print(interp(vec![lit("x"), hole(callf("f", vec![])), lit("y")])),
                // and in the top-level frame, inside an enclosing construction of the same frame
                assign("out", list(vec![])),
                x(E::For(vec![Pat::Id("i".into(), None)], x(E::Range(Some(int(0)), Some(int(3)), false)), blk(vec![method(id("out"), "push", vec![c.clone()])]))),
                print(list(vec![int(0), id("out"), int(9)])),
                print(s("end")),
            ];
            emit(Case { family: "tail-returns", prog, shape: vec![] });
        }
    }
    // names that are exported after the function was created (found at call time), for functions
    // with 0..2 default arguments using 1..2 such names
    for n_defaults in 0..=2usize {
        for n_names in 1..=2usize {
            for generator in [false, true] {
                let mut args = vec![arg("n")];
                for d in 0..n_defaults {
                    args.push(argd(&format!("d{d}"), int(10 * (d as i64 + 1))));
                }
                let mut sum = callf("later_a", vec![id("n")]);
                if n_names == 2 {
                    sum = bin(Op::Add, sum, callf("later_b", vec![id("n")]));
                }
                for d in 0..n_defaults {
                    sum = bin(Op::Add, sum, id(&format!("d{d}")));
                }
                let body = if generator { vec![x(E::Yield(sum.clone())), x(E::Yield(int(0)))] } else { vec![sum] };
                let f = x(E::Func(Rc::new(FuncDef { args, variadic: false, body: blk(body), is_gen: generator, out_hint: None, inline: false })));
                let call = |a: Vec<X>| if generator { method(callf("early", a), "to_tuple", vec![]) } else { callf("early", a) };
                let prog = vec![
                    x(E::Export(assign("early", f))),
                    x(E::Export(assign("later_a", func_inline(&["v"], bin(Op::Mul, id("v"), int(2)))))),
                    x(E::Export(assign("later_b", func_inline(&["v"], bin(Op::Add, id("v"), int(100)))))),
                    print(call(vec![int(1)])),
                    print(call(vec![int(2), int(5)])),
                    print(s("end")),
                ];
                emit(Case { family: "bind", prog, shape: vec![] });
            }
        }
    }
    // discarded values: the statement has no effect, what follows still runs
    let discarded: Vec<X> = vec![
        func_inline(&["v"], bin(Op::Add, id("v"), int(1))),
        func(&["v"], vec![assign("w", id("v")), id("w")]),
        func_inline(&[], int(1)),
        list(vec![int(1), func_inline(&["v"], id("v"))]),
        map(vec![("k", func_inline(&["v"], id("v")))]),
        tuple(vec![int(1), int(2)]),
        x(E::Range(Some(int(1)), Some(int(3)), false)),
        s("text"),
        int(5),
        null(),
        id("a"),
        // non-local ids (prelude names)
        id("print"),
        id("string"),
    ];
    for d in &discarded {
        for ctx_kind in 0..6 {
            let prog = match ctx_kind {
                0 => vec![assign("a", int(1)), d.clone(), print(s("after")), print(id("a"))],
                1 => vec![assign("a", int(1)), assign("f", func(&[], vec![d.clone(), print(s("in-f")), int(9)])), print(callf("f", vec![])), print(s("end"))],
                2 => vec![assign("a", int(1)), x(E::For(vec![Pat::Id("i".into(), None)], x(E::Range(Some(int(0)), Some(int(2)), false)), blk(vec![d.clone(), print(id("i"))]))), print(s("end"))],
                // followed by a multi-assignment from listed values (temporary tuple) in the same frame
                4 => vec![assign("a", int(1)), d.clone(), x(E::MultiAssign(vec![Tgt::Id("p".into()), Tgt::Id("q".into())], vec![int(2), int(3)])), print(tuple(vec![id("p"), id("q"), id("a")]))],
                5 => vec![assign("a", int(1)), assign("f", func(&[], vec![d.clone(), x(E::MultiAssign(vec![Tgt::Id("p".into()), Tgt::Id("q".into())], vec![int(2), int(3)])), tuple(vec![id("p"), id("q"), id("a")])])), print(callf("f", vec![])), print(s("end"))],
                _ => vec![assign("a", int(1)), x(E::If(vec![(boolean(true), blk(vec![d.clone(), print(s("in-if"))]))], None)), print(s("end"))],
            };
            emit(Case { family: "discarded-values", prog, shape: vec![] });
        }
    }
}

/// calls `f` with the values in `vals` using call spelling `sp`; None if the spelling is not
/// applicable
fn spell_call(f: X, vals: &[X], sp: usize) -> Option<Vec<X>> {
    match sp {
        0 => Some(vec![print(x(E::Call(f, vals.iter().cloned().map(Arg::E).collect(), CallStyle::Parens)))]),
        1 => {
            // paren-free statement call: r = f 1, 2
            if vals.is_empty() {
                return None;
            }
            Some(vec![
                assign("r", x(E::Call(f, vals.iter().cloned().map(Arg::E).collect(), CallStyle::Free))),
                print(id("r")),
            ])
        }
        2 => {
            // piped: first value -> f rest
            if vals.is_empty() {
                return None;
            }
            let rest: Vec<Arg> = vals[1..].iter().cloned().map(Arg::E).collect();
            let callee = if rest.is_empty() { f } else { x(E::Call(f, rest, CallStyle::Free)) };
            Some(vec![assign("r", x(E::Pipe(vals[0].clone(), callee))), print(id("r"))])
        }
        3 => {
            // fully packed: f xs...
            Some(vec![
                assign("xs", tuple(vals.to_vec())),
                print(x(E::Call(f, vec![Arg::Spread(id("xs"))], CallStyle::Parens))),
            ])
        }
        4 => {
            // mixed: f first, xs...
            if vals.is_empty() {
                return None;
            }
            Some(vec![
                assign("xs", list(vals[1..].to_vec())),
                print(x(E::Call(f, vec![Arg::E(vals[0].clone()), Arg::Spread(id("xs"))], CallStyle::Parens))),
            ])
        }
        5 => {
            // packed twice around a middle value
            if vals.len() < 2 {
                return None;
            }
            Some(vec![
                assign("xs", tuple(vals[..1].to_vec())),
                assign("ys", tuple(vals[2..].to_vec())),
                print(x(E::Call(
                    f,
                    vec![Arg::Spread(id("xs")), Arg::E(vals[1].clone()), Arg::Spread(id("ys"))],
                    CallStyle::Parens,
                ))),
            ])
        }
        _ => None,
    }
}

fn gen_bind(tier: Tier, emit: Emit) {
    for r in 0..=2usize {
        for o in 0..=2usize {
            for variadic in [false, true] {
                for caps in 0..=1usize {
                    for method in [false, true] {
                        let mut args = vec![];
                        let mut names = vec![];
                        for i in 0..r {
                            let n = ["a", "b"][i];
                            args.push(arg(n));
                            names.push(id(n));
                        }
                        for i in 0..o {
                            let n = ["c", "d"][i];
                            args.push(argd(n, int(10 * (i as i64 + 1))));
                            names.push(id(n));
                        }
                        if variadic {
                            args.push(arg("rest"));
                            names.push(id("rest"));
                        }
                        if caps > 0 {
                            names.push(id("k"));
                        }
                        if method {
                            names.push(access(id("self"), "tag"));
                        }
                        let body = vec![print(tuple(names.clone())), int(0)];
                        let f = fdef(args, variadic, body);
                        let max_args = r + o + 2;
                        for n in 0..=max_args {
                            let vals: Vec<X> = (1..=n as i64).map(int).collect();
                            for sp in 0..6 {
                                if tier == Tier::Quick && method && sp >= 3 {
                                    continue;
                                }
                                let mut p = vec![assign("k", s("K"))];
                                let callee = if method {
                                    p.push(assign("fm", f.clone()));
                                    p.push(assign("m", x(E::Map(vec![(MK::Id("tag".into()), Some(s("T"))), (MK::Id("f".into()), Some(id("fm")))]))));
                                    access(id("m"), "f")
                                } else {
                                    p.push(assign("f", f.clone()));
                                    id("f")
                                };
                                let Some(call) = spell_call(callee, &vals, sp) else { continue };
                                if method && sp == 2 {
                                    continue; // piping into a method chain: not in the guide
                                }
                                p.extend(call);
                                p.push(print(s("end")));
                                emit(Case { family: "bind", prog: p.clone(), shape: vec![] });
                                if tier == Tier::Thorough || (sp == 0 && !method) {
                                    emit(Case { family: "bind", prog: wrap_in_function(p), shape: vec![] });
                                }
                            }
                        }
                    }
                }
            }
        }
    }
}

/// generator functions obey the same arity rules
fn gen_bind_generators(_tier: Tier, emit: Emit) {
    for r in 0..=2usize {
        for o in 0..=1usize {
            for variadic in [false, true] {
                let mut args = vec![];
                let mut names = vec![];
                for i in 0..r {
                    let n = ["a", "b"][i];
                    args.push(arg(n));
                    names.push(id(n));
                }
                for i in 0..o {
                    let n = ["c", "d"][i];
                    args.push(argd(n, int(10 * (i as i64 + 1))));
                    names.push(id(n));
                }
                if variadic {
                    args.push(arg("rest"));
                    names.push(id("rest"));
                }
                let g = x(E::Func(Rc::new(FuncDef {
                    args,
                    variadic,
                    body: blk(vec![print(s("started")), x(E::Yield(tuple(names.clone()))), x(E::Yield(int(0)))]),
                    is_gen: true,
                    out_hint: None,
                    inline: false,
                })));
                for n in 0..=(r + o + 2) {
                    let vals: Vec<X> = (1..=n as i64).map(int).collect();
                    for sp in [0usize, 3, 4] {
                        let mut p = vec![assign("g", g.clone())];
                        let call_args: Vec<Arg> = match sp {
                            0 => vals.iter().cloned().map(Arg::E).collect(),
                            3 => {
                                p.push(assign("xs", tuple(vals.clone())));
                                vec![Arg::Spread(id("xs"))]
                            }
                            _ => {
                                if vals.is_empty() {
                                    continue;
                                }
                                p.push(assign("xs", list(vals[1..].to_vec())));
                                vec![Arg::E(vals[0].clone()), Arg::Spread(id("xs"))]
                            }
                        };
                        p.push(assign("it", x(E::Call(id("g"), call_args, CallStyle::Parens))));
                        p.push(print(s("created")));
                        p.push(print(method(id("it"), "to_tuple", vec![])));
                        emit(Case { family: "bind-generator", prog: p, shape: vec![] });
                    }
                }
            }
        }
    }
}

fn gen_structured(tier: Tier, emit: Emit) {
    let e = |n: Option<&str>| Pat::Ellipsis(n.map(|s| s.into()));
    let pid = |n: &str| Pat::Id(n.into(), None);
    let pats: Vec<(Pat, Vec<&str>)> = vec![
        (Pat::Tuple(vec![pid("a"), pid("b")], None), vec!["a", "b"]),
        (Pat::Tuple(vec![pid("a"), e(Some("b"))], None), vec!["a", "b"]),
        (Pat::Tuple(vec![pid("a"), e(None)], None), vec!["a"]),
        (Pat::Tuple(vec![e(None), pid("z")], None), vec!["z"]),
        (Pat::Tuple(vec![e(Some("first")), pid("z")], None), vec!["first", "z"]),
        (Pat::Tuple(vec![pid("a"), Pat::Tuple(vec![pid("b"), pid("c")], None)], None), vec!["a", "b", "c"]),
        (Pat::Tuple(vec![pid("a"), Pat::Wild(None, None), pid("c")], None), vec!["a", "c"]),
        (Pat::Map(vec![(MK::Id("x".into()), None, None), (MK::Id("y".into()), None, None)]), vec!["x", "y"]),
        (Pat::Map(vec![(MK::Id("x".into()), Some("q".into()), None), (MK::Id("y".into()), None, None)]), vec!["q", "y"]),
        (Pat::Wild(None, None), vec![]),
        (Pat::Wild(Some("n".into()), None), vec![]),
        // a lone ellipsis is both the first and the last element
        (Pat::Tuple(vec![e(Some("all"))], None), vec!["all"]),
        (Pat::Tuple(vec![e(None)], None), vec![]),
        (Pat::Tuple(vec![e(None), pid("k"), pid("v")], None), vec!["k", "v"]),
        (Pat::Tuple(vec![e(Some("first")), pid("k"), pid("v")], None), vec!["first", "k", "v"]),
        (Pat::Tuple(vec![pid("k"), pid("v"), e(Some("rest"))], None), vec!["k", "v", "rest"]),
        (Pat::Tuple(vec![pid("k"), pid("v"), e(None)], None), vec!["k", "v"]),
        (Pat::Tuple(vec![pid("a"), Pat::Tuple(vec![e(Some("inner"))], None)], None), vec!["a", "inner"]),
        (Pat::Tuple(vec![pid("a"), Pat::Tuple(vec![pid("b"), e(Some("inner"))], None)], None), vec!["a", "b", "inner"]),
        // nested containers after a leading ellipsis are indexed from the end
        (Pat::Tuple(vec![e(Some("others")), Pat::Tuple(vec![pid("a"), pid("b")], None), pid("z")], None), vec!["others", "a", "b", "z"]),
        (Pat::Tuple(vec![e(None), Pat::Tuple(vec![pid("a"), pid("b")], None)], None), vec!["a", "b"]),
        (Pat::Tuple(vec![e(None), Pat::Map(vec![(MK::Id("x".into()), None, None), (MK::Id("y".into()), None, None)])], None), vec!["x", "y"]),
        (Pat::Tuple(vec![Pat::Tuple(vec![pid("a"), pid("b")], None), e(Some("others"))], None), vec!["a", "b", "others"]),
    ];
    // the same patterns bound to the items an iterator adaptor hands to its callback: map entries
    // and enumerate/zip pairs are temporary tuples living in registers, not heap tuples
    let sources: Vec<X> = vec![
        map(vec![("x", int(1)), ("y", int(2))]),
        map(vec![("x", tuple(vec![int(2), int(3)]))]),
        list(vec![tuple(vec![int(1), int(2)]), tuple(vec![int(3), int(4), int(5)]), tuple(vec![]), list(vec![int(6)])]),
        tuple(vec![list(vec![int(1), list(vec![int(2), int(3)])]), s("ab")]),
    ];
    for (pat, names) in &pats {
        for src in &sources {
            for adaptor in ["each", "keep"] {
                let mut bound: Vec<X> = names.iter().map(|n| id(n)).collect();
                bound.push(int(0));
                let body = if adaptor == "each" { vec![tuple(bound)] } else { vec![print(tuple(bound)), boolean(true)] };
                let f = fdef(vec![ArgDef { pat: pat.clone(), default: None }], false, body);
                for in_function in [false, true] {
                    let stmts = vec![assign("src", src.clone()), assign("f", f.clone()), print(method(method(id("src"), adaptor, vec![id("f")]), "to_tuple", vec![])), print(id("src"))];
                    let prog = if in_function { vec![assign("run", func(&[], stmts)), callf("run", vec![]), print(s("end"))] } else { stmts };
                    emit(Case { family: "bind-structured", prog, shape: vec![] });
                }
            }
        }
    }
    let values: Vec<X> = vec![
        tuple(vec![]),
        tuple(vec![int(1)]),
        tuple(vec![int(1), int(2)]),
        tuple(vec![int(1), int(2), int(3)]),
        list(vec![int(1), int(2)]),
        list(vec![int(1), list(vec![int(2), int(3)])]),
        tuple(vec![int(1), tuple(vec![int(2), int(3)])]),
        list(vec![int(1), int(2), int(3), int(4)]),
        map(vec![("x", int(1)), ("y", int(2))]),
        map(vec![("x", int(1))]),
        map(vec![("y", int(2)), ("x", int(1)), ("z", int(3))]),
        int(5),
        s("ab"),
        null(),
        tuple(vec![tuple(vec![int(5), int(6)]), tuple(vec![int(7), int(8)]), tuple(vec![int(1), int(2)]), int(3)]),
        tuple(vec![tuple(vec![int(1), int(2)])]),
        list(vec![int(1), int(2), map(vec![("x", int(1)), ("y", int(2))])]),
        tuple(vec![map(vec![("x", int(3)), ("y", int(4))]), map(vec![("x", int(1)), ("y", int(2))])]),
    ];
    for (pat, names) in &pats {
        for pos in 0..2 {
            for v in &values {
                for sp in [0usize, 1, 3] {
                    let mut args = vec![];
                    let mut bound: Vec<X> = vec![];
                    if pos == 1 {
                        args.push(arg("p"));
                        bound.push(id("p"));
                    }
                    args.push(ArgDef { pat: pat.clone(), default: None });
                    bound.extend(names.iter().map(|n| id(n)));
                    if pos == 0 {
                        args.push(arg("p"));
                        bound.push(id("p"));
                    }
                    bound.push(int(0));
                    let f = fdef(args, false, vec![print(tuple(bound))]);
                    let vals = if pos == 0 { vec![v.clone(), int(9)] } else { vec![int(9), v.clone()] };
                    let mut p = vec![assign("f", f)];
                    let Some(call) = spell_call(id("f"), &vals, sp) else { continue };
                    p.extend(call);
                    emit(Case { family: "bind-structured", prog: p, shape: vec![] });
                }
            }
        }
    }
    let _ = tier;
}

fn gen_capture(tier: Tier, emit: Emit) {
    let f_plain = || func(&[], vec![tuple(vec![id("x"), id("l")])]);
    let stmts: Vec<(&'static str, Vec<X>)> = vec![
        ("inc", vec![assign("x", bin(Op::Add, id("x"), int(1)))]),
        ("push", vec![method(id("l"), "push", vec![id("x")])]),
        ("def", vec![assign("f", f_plain())]),
        ("def-default", vec![assign("f", fdef(vec![argd("a", id("x")), argd("b", id("l"))], false, vec![tuple(vec![id("a"), id("b"), id("x")])]))]),
        (
            "def-mutating",
            vec![assign(
                "f",
                func(&[], vec![x(E::OpAssign(Op::Add, Tgt::Id("x".into()), int(1))), method(id("l"), "push", vec![s("f")]), id("x")]),
            )],
        ),
        ("def-g", vec![assign("g", func(&[], vec![callf("f", vec![])]))]),
        ("call-f", vec![print(callf("f", vec![]))]),
        ("call-g", vec![print(callf("g", vec![]))]),
        ("nested", vec![assign("f", func(&[], vec![func(&[], vec![id("x")])])), print(call(callf("f", vec![]), vec![]))]),
        (
            "rec",
            vec![
                assign(
                    "h",
                    func(
                        &["n"],
                        vec![if_(
                            cmp(id("n"), CmpOp::Le, int(0)),
                            vec![id("x")],
                            Some(vec![bin(Op::Add, id("n"), callf("h", vec![bin(Op::Sub, id("n"), int(1))]))]),
                        )],
                    ),
                ),
                print(callf("h", vec![int(3)])),
            ],
        ),
        (
            "method",
            vec![
                assign(
                    "m",
                    x(E::Map(vec![
                        (MK::Id("v".into()), Some(id("x"))),
                        (MK::Id("get".into()), Some(func_inline(&[], tuple(vec![access(id("self"), "v"), id("x")])))),
                    ])),
                ),
                print(method(id("m"), "get", vec![])),
            ],
        ),
        ("rebind-l", vec![assign("l", list(vec![id("x")]))]),
        (
            "rec-default",
            vec![
                assign(
                    "hd",
                    fdef(
                        vec![arg("n"), argd("acc", id("x")), argd("tag", s("t"))],
                        false,
                        vec![if_(
                            cmp(id("n"), CmpOp::Le, int(0)),
                            vec![tuple(vec![id("acc"), id("tag"), id("x")])],
                            Some(vec![callf("hd", vec![bin(Op::Sub, id("n"), int(1)), bin(Op::Add, id("acc"), id("n"))])]),
                        )],
                    ),
                ),
                print(callf("hd", vec![int(3)])),
            ],
        ),
        (
            "selfref-map",
            vec![
                assign(
                    "o",
                    x(E::Map(vec![
                        (MK::Id("a".into()), Some(func_inline(&[], access(id("o"), "b")))),
                        (MK::Id("b".into()), Some(id("x"))),
                    ])),
                ),
                print(method(id("o"), "a", vec![])),
            ],
        ),
    ];
    let n = stmts.len();
    let max_len = match tier {
        Tier::Quick => 3,
        Tier::Thorough => 4,
    };
    let mut idxs = vec![0usize; 0];
    fn rec(
        stmts: &Vec<(&'static str, Vec<X>)>,
        idxs: &mut Vec<usize>,
        max_len: usize,
        n: usize,
        emit: Emit,
    ) {
        if !idxs.is_empty() {
            let mut p = vec![assign("x", int(1)), assign("l", list(vec![]))];
            for i in idxs.iter() {
                p.extend(stmts[*i].1.clone());
            }
            p.push(print(tuple(vec![id("x"), id("l")])));
            let shape: Vec<&'static str> = if idxs.iter().any(|i| stmts[*i].0 == "selfref-map") {
                vec!["selfref-in-container-literal"]
            } else {
                vec![]
            };
            emit(Case { family: "capture", prog: p.clone(), shape: shape.clone() });
            emit(Case { family: "capture-in-fn", prog: wrap_in_function(p), shape });
        }
        if idxs.len() == max_len {
            return;
        }
        for i in 0..n {
            idxs.push(i);
            rec(stmts, idxs, max_len, n, emit);
            idxs.pop();
        }
    }
    rec(&stmts, &mut idxs, max_len, n, emit);
}

fn gen_generators(tier: Tier, emit: Emit) {
    // generator body statements
    let items: Vec<X> = vec![
        x(E::Yield(int(1))),
        x(E::Yield(id("a"))),
        print(s("g")),
        x(E::For(vec![Pat::Id("i".into(), None)], x(E::Range(Some(int(0)), Some(int(2)), false)), blk(vec![x(E::Yield(id("i")))]))),
        ret(None),
        if_(cmp(id("a"), CmpOp::Gt, int(5)), vec![x(E::Yield(s("big")))], None),
        x(E::OpAssign(Op::Add, Tgt::Id("a".into()), int(1))),
        x(E::While(
            cmp(id("a"), CmpOp::Lt, int(9)),
            blk(vec![x(E::OpAssign(Op::Add, Tgt::Id("a".into()), int(1))), x(E::Yield(bin(Op::Mul, id("a"), int(100))))]),
        )),
    ];
    let mut bodies: Vec<Vec<X>> = vec![];
    for a in &items {
        bodies.push(vec![a.clone()]);
        for b in &items {
            bodies.push(vec![a.clone(), b.clone()]);
            if tier == Tier::Thorough {
                for c in &items {
                    bodies.push(vec![a.clone(), b.clone(), c.clone()]);
                }
            }
        }
    }
    // nx helper: observes one `next()` call
    let nx = || {
        assign(
            "nx",
            func(
                &["it"],
                vec![
                    assign("o", method(id("it"), "next", vec![])),
                    if_(cmp(id("o"), CmpOp::Eq, null()), vec![s("end")], Some(vec![method(id("o"), "get", vec![])])),
                ],
            ),
        )
    };
    for body in &bodies {
        // must contain a yield to be a generator
        fn has_yield(e: &X) -> bool {
            match &**e {
                E::Yield(_) => true,
                E::For(_, _, b) | E::While(_, b) => b.iter().any(has_yield),
                E::If(arms, els) => {
                    arms.iter().any(|(_, b)| b.iter().any(has_yield)) || els.as_ref().map(|b| b.iter().any(has_yield)).unwrap_or(false)
                }
                _ => false,
            }
        }
        if !body.iter().any(has_yield) {
            continue;
        }
        let g = gdef(&["a"], body.clone());
        for arg in [3i64, 7] {
            // consumer 1: next x k with prints interleaved
            for k in [1usize, 2, 4] {
                let mut p = vec![nx(), assign("gen", g.clone()), assign("it", callf("gen", vec![int(arg)])), print(s("created"))];
                for _ in 0..k {
                    p.push(print(callf("nx", vec![id("it")])));
                }
                emit(Case { family: "gen-next", prog: p, shape: vec![] });
            }
            // consumer 2: for loop with break after j
            for j in [0i64, 1, 9] {
                let p = vec![
                    assign("gen", g.clone()),
                    assign("n", int(0)),
                    x(E::For(
                        vec![Pat::Id("v".into(), None)],
                        callf("gen", vec![int(arg)]),
                        blk(vec![
                            if_(cmp(id("n"), CmpOp::Ge, int(j)), vec![x(E::Break(None))], None),
                            print(tuple(vec![s("got"), id("v")])),
                            x(E::OpAssign(Op::Add, Tgt::Id("n".into()), int(1))),
                        ]),
                    )),
                    print(s("end")),
                ];
                emit(Case { family: "gen-for", prog: p, shape: vec![] });
            }
            // consumer 3: to_tuple
            let p = vec![assign("gen", g.clone()), print(method(callf("gen", vec![int(arg)]), "to_tuple", vec![]))];
            emit(Case { family: "gen-to-tuple", prog: p, shape: vec![] });
            // consumer 4: two interleaved instances
            let p = vec![
                nx(),
                assign("gen", g.clone()),
                assign("i1", callf("gen", vec![int(arg)])),
                assign("i2", callf("gen", vec![int(arg + 10)])),
                print(callf("nx", vec![id("i1")])),
                print(callf("nx", vec![id("i2")])),
                print(callf("nx", vec![id("i1")])),
                print(callf("nx", vec![id("i1")])),
                print(callf("nx", vec![id("i2")])),
            ];
            emit(Case { family: "gen-interleave", prog: p, shape: vec![] });
        }
    }
}

pub fn classify(case: &Case, v: &Verdict, real: &crate::run::Obs, _rf: Option<&crate::kref::RefObs>) -> Option<String> {
    let has = |s: &str| case.shape.iter().any(|x| *x == s);
    if has("selfref-in-container-literal")
        && matches!(v.class, "wrong-output" | "spurious-error")
        && matches!(&real.outcome, crate::run::Outcome::Runtime { msg, .. } if msg.contains("while capturing"))
    {
        return Some("selfref-in-container-literal".into());
    }
    None
}
