mod common;
mod lexmc;

use common::Args;

fn main() {
    let mut argv: Vec<String> = std::env::args().skip(1).collect();
    if argv.is_empty() {
        eprintln!("usage: kv <engine> --property <ID> [--tier quick|thorough] [--replay <path>]");
        std::process::exit(2);
    }
    let engine = argv.remove(0);
    let args = Args::parse(argv);
    let code = match engine.as_str() {
        "lexmc" => lexmc::run(&args),
        other => {
            eprintln!("unknown engine {other}");
            2
        }
    };
    std::process::exit(code);
}
