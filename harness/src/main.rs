mod common;
mod lexmc;
mod codemc;
mod libmc;
mod tmomc;
mod histmc;
mod schedmc;
mod heapmc;
mod modmc;
mod itermc;
mod strmc;
mod serdemc;
mod fmtmc;
mod laymc;
mod diagmc;
mod workers;
mod memcap;
mod run;
mod hostobj;
mod kast;
mod kval;
mod kref;
mod kfmt;
mod knative;
mod progmc;
mod fam_core;
mod fam_fn;
mod fam_match;
mod fam_err;
mod fam_types;
mod fam_meta;

use common::Args;

#[global_allocator]
static GLOBAL: memcap::CapAlloc = memcap::CapAlloc;

fn main() {
    let _ = common::PROCESS_START.set(std::time::Instant::now());
    let mut argv: Vec<String> = std::env::args().skip(1).collect();
    if argv.is_empty() {
        eprintln!("usage: kv <engine> --property <ID> [--tier quick|thorough] [--replay <path>]");
        std::process::exit(2);
    }
    let engine = argv.remove(0);
    if engine == "worker" {
        common::install_quiet_panic_hook();
        let mode = argv.first().cloned().unwrap_or_default();
        let code = match mode.as_str() {
            "code-run" => workers::worker_loop(&mut |req| codemc::worker_run(req)),
            #[cfg(feature = "arc")]
            "sched-explore" => workers::worker_loop(&mut |req| schedmc::arc_side::worker_explore(req)),
            #[cfg(feature = "arc")]
            "arc-run" => schedmc::differential_worker(schedmc::arc_side::worker_arc_run),
            "rc-run" => schedmc::differential_worker(schedmc::worker_rc_run),
            "tmo-run" => workers::worker_loop(&mut |req| tmomc::worker_run(req)),
            "lib-call" => workers::worker_loop(&mut |req| libmc::worker_call(req)),
            _ => 2,
        };
        std::process::exit(code);
    }
    let args = Args::parse(argv);
    let code = match engine.as_str() {
        "lexmc" => lexmc::run(&args),
        "codemc" => codemc::run(&args),
        "libmc" => libmc::run(&args),
        "tmomc" => tmomc::run(&args),
        "histmc" => histmc::run(&args),
        "schedmc" => schedmc::run(&args),
        "heapmc" => heapmc::run(&args),
        "modmc" => modmc::run(&args),
        "itermc" => itermc::run(&args),
        "strmc" => strmc::run(&args),
        "serdemc" => serdemc::run(&args),
        "fmtmc" => fmtmc::run(&args),
        "laymc" => laymc::run(&args),
        "diagmc" => diagmc::run(&args),
        "progmc-core" => progmc::run_profile(
            &args,
            run::RunCfg::default(),
            &fam_core::generate,
            &fam_core::classify,
            None,
            "C01 families: ops(1) full alphabet x 16 contexts x {top level, function body}; ops(2) reduced alphabet; boundary leaves; assign sequences <= 2 (thorough 3); every range form; index/slice of every container kind size 0..3; if/switch/loops with iteration counts 0..3",
            &[],
        ),
        "progmc-fn" => progmc::run_profile(
            &args,
            run::RunCfg::default(),
            &fam_fn::generate,
            &fam_fn::classify,
            None,
            "C02 families: every signature (0-2 required, 0-2 optional, variadic, captured, method) x argument counts 0..n+2 x six call spellings; structured (unpacking) arguments x 14 argument values; all statement sequences <= 3 (thorough 4) over a 13-statement capture alphabet at top level and inside a function; generator bodies <= 2 statements (thorough 3) x consumers (next x k, for+break, to_tuple, interleaved instances)",
            &[],
        ),
        "progmc-match" => progmc::run_profile(
            &args,
            run::RunCfg::default(),
            &fam_match::generate,
            &fam_match::classify,
            None,
            "C03 families: 23 subject values x every single arm over 48 patterns x else/no else x 4 result uses; guards; all two-arm lists over a 16-pattern core (thorough: 48 x 16, and three arms); or-alternatives x guards; multi-subject rows; multi-assignment targets <= 3 over 5 target kinds x 17 right-hand sides and explicit value lists; for-argument lists x 10 sequences",
            &[],
        ),
        "progmc-err" => progmc::run_profile(
            &args,
            run::RunCfg::default(),
            &fam_err::generate,
            &fam_err::classify,
            Some(&fam_err::state_check),
            "C04 families: 9 fault kinds x 12 fault sites (inline, call depth 1/3, method, each/fold callbacks, generator, @+, list/string/call/map construction) x 7 handler structures (catch, finally, typed chains in all orders, nested matching/rethrowing) x 4 result uses; try/catch/finally blocks left by fall-through/return/break/continue/throw inside a loop inside a function; errors caught inside open string/list/tuple/map/call constructions; no-error paths. After every run the VM's internal stacks must be empty (hook H1)",
            &[],
        ),
        "progmc-meta" => progmc::run_profile(
            &args,
            run::RunCfg::default(),
            &fam_meta::generate,
            &fam_meta::classify,
            Some(&fam_err::state_check),
            "C17 families: 6 arithmetic operators x 8 left operand classes x 4 right operand classes (binary form, repeated in a loop, compound form with/without @op= and @op); every subset of the 6 comparison metakeys x 6 operators x 3 other operands, derived results for every @</@== outcome; every subset of size <= 2 (thorough 3) of 11 protocol metakeys x 15 operations; key lookup through own data / @meta / @base chains of depth 2 and shared metamaps",
            &[],
        ),
        "progmc-types" => {
            let on = run::RunCfg::default();
            let off = run::RunCfg { type_checks: false, ..run::RunCfg::default() };
            progmc::run_profile_cfgs(
                &args,
                vec![on, off],
                &fam_types::generate,
                &fam_types::classify,
                None,
                "C16 family: 13 hint positions (let, multi-let, typed wildcard, for arguments, function arguments incl. nested, return types on implicit/explicit/early return, generator yield types, match arms incl. nested and map patterns, typed catch) x 18 hint names x optional/non-optional x 18 runtime values (every value kind, objects with @type and @base chains of depth 1 and 2, callable objects); every program compiled and run with enable_type_checks on AND off, the reference interpreter run in the same mode",
                &[],
            )
        }
        other => {
            eprintln!("unknown engine {other}");
            2
        }
    };
    std::process::exit(code);
}
