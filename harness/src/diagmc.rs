//! C12 — diagnostics identify the right source location.
//!
//! Programs are assembled from line templates so that every line number is known by
//! construction: filler constructs (every statement kind, multi-line expressions, comments,
//! non-ASCII text, multi-line strings) x a fault planted in a wrapper construct inside the
//! innermost of 0..3 nested functions x call-site wrappers. The error's trace (mapped through the
//! chunk's source map), the rendered message and `debug` prefixes are compared with the known
//! lines. Compile errors: a stray token inserted at every token gap of known lines.

use crate::common::*;
use koto::prelude::*;
use serde_json::json;
use std::collections::{BTreeMap, BTreeSet};

const FILLERS: [&[&str]; 19] = [
    &[],
    &["a1 = 1"],
    &["# comment", "", "b1 = [1, 2]"],
    &["if true", "  c1 = 1", "else", "  c1 = 2"],
    &["for i in 0..2", "  d1 = i"],
    &["m1 =", "  k: 1", "  j: 2"],
    &["e1 = [", "  1,", "  2,", "]"],
    &["g1 = |x|", "  x + 1"],
    &["s1 = 'é😀' # コメント"],
    &["h1 = match 1", "  1 then 'a'", "  else 'b'"],
    &["t1 = try", "  1", "catch _", "  2"],
    &["w1 = 0", "while w1 < 2", "  w1 += 1"],
    &["z1 = (1 +", "  2)"],
    &["#- multi", "   line -#"],
    &["ml = 'a", "b'"],
    &["ch = [1, 2]", "  .each |v| v + 1", "  .to_list()"],
    &["sw = switch", "  false then 1", "  else 2", "", ""],
    // an escaped line break continues the string on the next line
    &["cont = 'line one \\", "  continued'"],
    &["r1 = r'raw {", "}'", "\"q\".to_uppercase()"],
];

/// statement faults (single line)
const FAULT_STMTS: [&str; 11] =
    ["throw 'boom'", "x = 1 + null", "nope()", "y = [][1]", "z = nv.foo", "assert false", "q = 'a' * {}", "r = (1, 2)[5]", "print '{1 + null}'", "v = number.sqrt 'x'", "u = 1 < 'a'"];

/// expression faults (can be planted inside multi-line expressions)
const FAULT_EXPRS: [&str; 5] = ["1 + null", "nope()", "[][1]", "nv.foo", "-'s'"];

/// wrappers: lines with FAULT (a statement) or FAULTEXPR (an expression); the marked line is the expected one
const STMT_WRAPPERS: [&[&str]; 6] = [
    &["FAULT"],
    &["if true", "  FAULT"],
    &["for i in 0..1", "  FAULT"],
    &["if true", "  for i in 0..1", "    while true", "      FAULT"],
    &["match 1", "  1 then", "    FAULT"],
    &["if false", "  skip = 1", "else if true", "  pre = 1", "  FAULT"],
];

const EXPR_WRAPPERS: [&[&str]; 8] = [
    &["val = FAULTEXPR"],
    &["ignore = sink(", "  1,", "  FAULTEXPR", ")"],
    &["mm =", "  a: 1", "  b: FAULTEXPR"],
    &["ll = [", "  1,", "  FAULTEXPR,", "]"],
    &["tt = (1 +", "  (FAULTEXPR))"],
    &["ss = if true", "  FAULTEXPR"],
    &["return FAULTEXPR"],
    &["sink 1,", "  FAULTEXPR"],
];

/// call-site wrappers; CALL is replaced by `fN()`
const CALL_WRAPPERS: [&[&str]; 8] = [
    &["CALL"],
    &["res = CALL"],
    &["return CALL"],
    &["res = CALL + 1"],
    &["if true", "  CALL"],
    &["res = sink(", "  1,", "  CALL", ")"],
    &["for i in 0..1", "  res = [CALL]"],
    &["res =", "  a: CALL"],
];

struct Built {
    src: String,
    /// expected trace lines (0-based), innermost first
    expected: Vec<usize>,
}

struct Lines {
    v: Vec<String>,
}

impl Lines {
    fn push_block(&mut self, indent: usize, block: &[&str]) {
        for l in block {
            self.v.push(format!("{}{}", " ".repeat(indent), l));
        }
    }
    /// pushes a template, returns the index of the line containing `marker` (after substitution)
    fn push_marked(&mut self, indent: usize, block: &[&str], marker: &str, replacement: &str) -> usize {
        let mut at = usize::MAX;
        for l in block {
            if l.contains(marker) {
                at = self.v.len();
            }
            self.v.push(format!("{}{}", " ".repeat(indent), l.replace(marker, replacement)));
        }
        at
    }
}

/// depth = number of nested function calls between the top level and the fault
fn build(depth: usize, filler_a: usize, filler_b: usize, fault_wrapper: (&[&str], &str, &str), call_wrapper: usize) -> Built {
    let mut l = Lines { v: vec![] };
    l.v.push("sink = |args...| null".to_string());
    l.v.push("nv = null".to_string());
    let mut call_lines: Vec<usize> = vec![];
    let fault_line;
    if depth == 0 {
        l.push_block(0, FILLERS[filler_a]);
        l.push_block(0, FILLERS[filler_b]);
        fault_line = l.push_marked(0, fault_wrapper.0, fault_wrapper.1, fault_wrapper.2);
    } else {
        // innermost function first: f{depth} contains the fault
        l.v.push(format!("f{depth} = ||"));
        l.push_block(2, FILLERS[filler_a]);
        fault_line = l.push_marked(2, fault_wrapper.0, fault_wrapper.1, fault_wrapper.2);
        l.v.push("  null".into());
        for d in (1..depth).rev() {
            l.v.push(format!("f{d} = ||"));
            l.push_block(2, FILLERS[(filler_b + d) % FILLERS.len()]);
            let w = CALL_WRAPPERS[(call_wrapper + d) % CALL_WRAPPERS.len()];
            call_lines.push(l.push_marked(2, w, "CALL", &format!("f{}()", d + 1)));
            l.v.push("  null".into());
        }
        l.push_block(0, FILLERS[filler_b]);
        let w = CALL_WRAPPERS[call_wrapper];
        // `return` at the top level is fine too
        call_lines.push(l.push_marked(0, w, "CALL", "f1()"));
    }
    l.v.push("print 'not reached'".into());
    let mut expected = vec![fault_line];
    expected.extend(call_lines);
    Built { src: l.v.join("\n") + "\n", expected }
}

struct Tally {
    evals: u64,
    per_family: BTreeMap<String, u64>,
    outcomes: BTreeSet<u64>,
    sigs: BTreeMap<String, u64>,
    fails: Vec<(Option<String>, String, String)>,
}

impl Tally {
    fn fail(&mut self, fam: &str, class: &str, what: String, replay: String) {
        let n = self.sigs.entry(format!("{fam}|{class}")).or_insert(0);
        *n += 1;
        if *n <= 20 {
            self.fails.push((None, format!("[{fam}] {class}: {what}"), replay));
        }
    }
    fn count(&mut self, fam: &str) {
        self.evals += 1;
        *self.per_family.entry(fam.to_string()).or_insert(0) += 1;
    }
}

enum RunResult {
    Ok(String),
    CompileErr { line: usize, column: usize, text: String },
    RuntimeErr { lines: Vec<Option<usize>>, text: String, stdout: String },
    Panic(String),
}

fn run_program(src: &str) -> RunResult {
    let cap = crate::run::Capture::default();
    let cap2 = cap.clone();
    let r = std::panic::catch_unwind(std::panic::AssertUnwindSafe(move || {
        let chunk = match koto_bytecode::ModuleLoader::default().compile_script(src, None, koto_bytecode::CompilerSettings::default()) {
            Ok(c) => c,
            Err(e) => {
                let span = e.source.as_ref().map(|s| s.span).unwrap_or_default();
                let text = e.to_string();
                return RunResult::CompileErr { line: span.start.line as usize, column: span.start.column as usize, text };
            }
        };
        let settings = KotoSettings::default().with_stdout(cap2.clone()).with_stderr(cap2.clone());
        let mut koto = Koto::with_settings(settings);
        let vm = koto.verif_vm();
        match vm.run(chunk) {
            Ok(_) => RunResult::Ok(String::new()),
            Err(e) => {
                let lines = e.trace.iter().map(|f| f.chunk.debug_info.get_source_span(f.instruction).map(|s| s.start.line as usize)).collect();
                RunResult::RuntimeErr { lines, text: e.to_string(), stdout: String::new() }
            }
        }
    }));
    let out = std::mem::take(&mut *cap.0.lock().unwrap());
    match r {
        Ok(RunResult::Ok(_)) => RunResult::Ok(out),
        Ok(RunResult::RuntimeErr { lines, text, .. }) => RunResult::RuntimeErr { lines, text, stdout: out },
        Ok(other) => other,
        Err(_) => RunResult::Panic(take_last_panic()),
    }
}

fn check_fault_program(t: &mut Tally, fam: &str, b: &Built, first_frame_only: bool) {
    check_fault_program_text(t, fam, b, first_frame_only);
    // the same program with CRLF line endings: same lines
    if t.evals % 4 == 0 {
        let crlf = Built { src: b.src.replace('\n', "\r\n"), expected: b.expected.clone() };
        check_fault_program_text(t, &format!("{fam}-crlf"), &crlf, first_frame_only);
    }
}

fn check_fault_program_text(t: &mut Tally, fam: &str, b: &Built, first_frame_only: bool) {
    t.count(fam);
    let src_lines: Vec<&str> = b.src.lines().collect();
    match run_program(&b.src) {
        RunResult::Panic(p) => t.fail(fam, "panic", p, format!("--- program ---\n{}", b.src)),
        RunResult::Ok(_) => t.fail(fam, "no-error", "the planted fault did not raise".into(), format!("--- program ---\n{}", b.src)),
        RunResult::CompileErr { text, .. } => t.fail(fam, "generator-invalid", text.lines().next().unwrap_or("").to_string(), format!("{text}\n--- program ---\n{}", b.src)),
        RunResult::RuntimeErr { lines, text, .. } => {
            t.outcomes.insert(hash_of(&(fam, &lines.iter().zip(b.expected.iter()).map(|(a, e)| a.map(|a| a as i64 - *e as i64)).collect::<Vec<_>>())));
            let got: Vec<Option<usize>> = if first_frame_only { lines.iter().take(1).cloned().collect() } else { lines.clone() };
            let want: Vec<Option<usize>> = if first_frame_only { b.expected.iter().take(1).map(|l| Some(*l)).collect() } else { b.expected.iter().map(|l| Some(*l)).collect() };
            if got != want {
                let show = |v: &Vec<Option<usize>>| v.iter().map(|l| l.map(|l| (l + 1).to_string()).unwrap_or("?".into())).collect::<Vec<_>>().join(", ");
                return t.fail(
                    fam,
                    "trace-lines",
                    format!("reported lines [{}] where the fault and call sites are on lines [{}]", show(&got), show(&want)),
                    format!("reported (1-based): [{}]\nexpected: [{}]\n--- message ---\n{text}\n--- program ---\n{}", show(&lines), show(&want), b.src),
                );
            }
            // the rendered message quotes exactly those lines, in order
            let mut pos = 0usize;
            for l in b.expected.iter().take(if first_frame_only { 1 } else { usize::MAX }) {
                let quote = format!("{} | {}", l + 1, src_lines[*l]);
                match text[pos..].find(&quote) {
                    Some(p) => pos += p + quote.len(),
                    None => {
                        return t.fail(fam, "message-quotes", format!("the rendered message does not quote line {} ({:?}) in trace order", l + 1, src_lines[*l]), format!("--- message ---\n{text}\n--- program ---\n{}", b.src));
                    }
                }
            }
        }
    }
}

fn runtime_families(t: &mut Tally, shard: usize, nshards: usize, tier: Tier) {
    let mut idx = 0usize;
    let filler_pairs: Vec<(usize, usize)> = match tier {
        Tier::Quick => (0..FILLERS.len()).flat_map(|i| [(i, (i * 7 + 3) % FILLERS.len()), (i, (i * 3 + 1) % FILLERS.len()), (i, i), ((i * 5 + 2) % FILLERS.len(), i)]).collect(),
        Tier::Thorough => (0..FILLERS.len()).flat_map(|a| (0..FILLERS.len()).map(move |b| (a, b))).collect(),
    };
    for depth in 0..=3usize {
        for &(fa, fb) in &filler_pairs {
            for cw in 0..CALL_WRAPPERS.len() {
                if depth == 0 && cw > 0 {
                    continue;
                }
                for w in STMT_WRAPPERS {
                    for f in FAULT_STMTS {
                        idx += 1;
                        if idx % nshards != shard {
                            continue;
                        }
                        let b = build(depth, fa, fb, (w, "FAULT", f), cw);
                        check_fault_program(t, "statement-faults", &b, false);
                    }
                }
                for (wi, w) in EXPR_WRAPPERS.iter().enumerate() {
                    // `return` / paren-free continuation need a function body
                    if depth == 0 && (wi == 6) {
                        continue;
                    }
                    for f in FAULT_EXPRS {
                        idx += 1;
                        if idx % nshards != shard {
                            continue;
                        }
                        let b = build(depth, fa, fb, (w, "FAULTEXPR", f), cw);
                        check_fault_program(t, "expression-faults-in-multi-line-constructs", &b, false);
                    }
                }
            }
        }
    }
    // faults inside callbacks run by eager native consumers: [fault, native call site, outer call sites]
    if shard == 3 % nshards {
        let consumers: [(&str, &str); 7] = [
            ("values.fold 0, |sum, v|", "sum + FAULTEXPR"),
            ("values.consume |v|", "FAULTEXPR"),
            ("values.each(|v| v).find |v|", "FAULTEXPR"),
            ("values.any |v|", "FAULTEXPR"),
            ("koto.copy(values).sort |v|", "FAULTEXPR"),
            ("koto.type values.position |v|", "FAULTEXPR"),
            ("{k: 1}.update 'k', |v|", "FAULTEXPR"),
        ];
        for fa in 0..FILLERS.len() {
            for (head, body) in consumers {
                for f in FAULT_EXPRS {
                    for depth in 1..=2usize {
                        let mut l = Lines { v: vec![] };
                        l.v.push("nv = null".into());
                        l.v.push("values = [1, 2]".into());
                        l.v.push("total = ||".into());
                        l.push_block(2, FILLERS[fa]);
                        let site = l.v.len();
                        l.v.push(format!("  {head}"));
                        let fault = l.v.len();
                        l.v.push(format!("    {}", body.replace("FAULTEXPR", f)));
                        l.v.push("  null".into());
                        let mut expected = vec![fault, site];
                        if depth == 2 {
                            l.v.push("outer = ||".into());
                            expected.push(l.v.len());
                            l.v.push("  total()".into());
                            l.v.push("  null".into());
                            expected.push(l.v.len());
                            l.v.push("outer()".into());
                        } else {
                            expected.push(l.v.len());
                            l.v.push("res = total()".into());
                        }
                        check_fault_program(t, "faults-in-callbacks-of-native-consumers", &Built { src: l.v.join("\n") + "\n", expected }, false);
                    }
                }
            }
        }
    }
    // faults inside generators: straight after a yield (first instruction after the resume),
    // after a filler, before the first yield; consumed by a for loop, by next(), by to_list()
    if shard == 4 % nshards {
        let consumers: [&[&str]; 4] = [&["for v in gg()", "  seen = v"], &["it = gg()", "it.next()", "it.next()", "it.next()"], &["res = gg().to_list()"], &["res = gg().each(|v| v).to_tuple()"]];
        for fa in 0..FILLERS.len() {
            for f in FAULT_STMTS {
                for (ci, cons) in consumers.iter().enumerate() {
                    for pre in [&[][..], &["yield 1"][..], &["yield 1", "yield 2"][..], &["yield 1", "pad = 1"][..], &["for q in 0..2", "  yield q"][..]] {
                        let mut l = Lines { v: vec![] };
                        l.v.push("nv = null".into());
                        l.v.push("gg = ||".into());
                        l.push_block(2, FILLERS[fa]);
                        l.push_block(2, pre);
                        let fault = l.v.len();
                        l.v.push(format!("  {f}"));
                        l.v.push("  yield 9".into());
                        let site = l.v.len() + if ci == 1 { pre.iter().filter(|p| p.starts_with("yield")).count().min(2) + 1 } else { 0 };
                        l.push_block(0, cons);
                        let _ = site;
                        check_fault_program(t, "faults-in-generators", &Built { src: l.v.join("\n") + "\n", expected: vec![fault] }, true);
                    }
                }
            }
            // debug straight after a yield
            for pre in [&["yield 1"][..], &["yield 1", "yield 2"][..]] {
                let mut l = Lines { v: vec![] };
                l.v.push("gg = ||".into());
                l.push_block(2, FILLERS[fa]);
                l.v.push("  dv = 5".into());
                l.push_block(2, pre);
                let at = l.v.len();
                l.v.push("  debug dv".into());
                l.v.push("  yield 9".into());
                l.v.push("res = gg().to_list()".into());
                let src = l.v.join("\n") + "\n";
                t.count("debug-prefix");
                if let RunResult::Ok(out) = run_program(&src) {
                    let want = format!("[{}] ", at + 1);
                    if !out.lines().any(|l| l.starts_with(&want)) {
                        t.fail("debug-prefix", "wrong-line", format!("debug after a yield: output {:?} where the expression is on line {}", out.lines().find(|l| l.starts_with('[')).unwrap_or("<none>"), at + 1), format!("stdout:\n{out}\n--- program ---\n{src}"));
                    }
                } else {
                    t.fail("debug-prefix", "generator-invalid", "debug-after-yield program failed".into(), format!("--- program ---\n{src}"));
                }
            }
        }
    }
    // recursion: the same call instruction is on the stack several times, once per activation
    // (direct recursion through one call site, through a method, mutual recursion, and recursion
    // where the recursive call is an argument / operand)
    if shard == 5 % nshards {
        for fa in 0..FILLERS.len() {
            for f in FAULT_STMTS {
                for depth in 0..=3usize {
                    for (ci, call) in ["rec(n - 1)", "res = rec(n - 1)", "return rec(n - 1)", "res = 1 + rec(n - 1)", "sink(0, rec(n - 1))"].iter().enumerate() {
                        let mut l = Lines { v: vec![] };
                        l.v.push("sink = |args...| null".into());
                        l.v.push("nv = null".into());
                        l.v.push("rec = |n|".into());
                        l.push_block(2, FILLERS[fa]);
                        l.v.push("  if n == 0".into());
                        let fault = l.v.len();
                        l.v.push(format!("    {f}"));
                        l.v.push("  else".into());
                        let site = l.v.len();
                        l.v.push(format!("    {call}"));
                        l.v.push("  null".into());
                        l.push_block(0, FILLERS[(fa + ci) % FILLERS.len()]);
                        let top = l.v.len();
                        l.v.push(format!("rec({depth})"));
                        let mut expected = vec![fault];
                        expected.extend(std::iter::repeat(site).take(depth));
                        expected.push(top);
                        check_fault_program(t, "faults-under-recursion", &Built { src: l.v.join("
") + "
", expected }, false);
                    }
                    // mutual recursion: ping calls pong calls ping ...
                    let mut l = Lines { v: vec![] };
                    l.v.push("nv = null".into());
                    l.v.push("export ping = |n|".into());
                    l.v.push("  if n == 0".into());
                    let fault = l.v.len();
                    l.v.push(format!("    {f}"));
                    let ping_site = l.v.len();
                    l.v.push("  pong(n - 1)".into());
                    l.v.push("export pong = |n|".into());
                    l.push_block(2, FILLERS[fa]);
                    let pong_site = l.v.len();
                    l.v.push("  ping(n)".into());
                    let top = l.v.len();
                    l.v.push(format!("ping({depth})"));
                    let mut expected = vec![fault];
                    for _ in 0..depth {
                        expected.push(pong_site);
                        expected.push(ping_site);
                    }
                    expected.push(top);
                    check_fault_program(t, "faults-under-recursion", &Built { src: l.v.join("
") + "
", expected }, false);
                    // recursion through a method
                    let mut l = Lines { v: vec![] };
                    l.v.push("nv = null".into());
                    l.v.push("obj =".into());
                    l.v.push("  down: |n|".into());
                    l.v.push("    if n == 0".into());
                    let fault = l.v.len();
                    l.v.push(format!("      {f}"));
                    let site = l.v.len();
                    l.v.push("    self.down(n - 1)".into());
                    l.push_block(0, FILLERS[fa]);
                    let top = l.v.len();
                    l.v.push(format!("obj.down({depth})"));
                    let mut expected = vec![fault];
                    expected.extend(std::iter::repeat(site).take(depth));
                    expected.push(top);
                    check_fault_program(t, "faults-under-recursion", &Built { src: l.v.join("
") + "
", expected }, false);
                }
            }
        }
    }
    // faults inside callbacks of lazily consumed chains: the first frame is the callback's line
    if shard == 0 {
        for (fa, f) in (0..FILLERS.len()).flat_map(|a| FAULT_EXPRS.iter().map(move |f| (a, *f))) {
            let mut l = Lines { v: vec![] };
            l.push_block(0, FILLERS[fa]);
            l.v.push("cc = [1, 2]".into());
            let at = l.v.len();
            l.v.push(format!("  .each |v| {f}"));
            l.v.push("  .to_list()".into());
            check_fault_program(t, "callback-faults", &Built { src: l.v.join("\n") + "\n", expected: vec![at] }, true);
        }
    }
}

fn debug_family(t: &mut Tally) {
    let exprs: [(&[&str], usize); 6] = [(&["debug 1 + 2"], 0), (&["debug (1 +", "  2)"], 0), (&["x9 = 5", "debug x9"], 1), (&["debug [", "  1,", "  2,", "]"], 0), (&["debug 'é😀'"], 0), (&["if true", "  debug 42"], 1)];
    for fa in 0..FILLERS.len() {
        for fb in 0..FILLERS.len() {
            for (e, off) in exprs {
                for in_function in [false, true] {
                    let mut l = Lines { v: vec![] };
                    l.push_block(0, FILLERS[fa]);
                    let at;
                    if in_function {
                        l.v.push("dbg = ||".into());
                        l.push_block(2, FILLERS[fb]);
                        at = l.v.len() + off;
                        l.push_block(2, e);
                        l.v.push("  null".into());
                        l.v.push("dbg()".into());
                    } else {
                        l.push_block(0, FILLERS[fb]);
                        at = l.v.len() + off;
                        l.push_block(0, e);
                    }
                    let src = l.v.join("\n") + "\n";
                    t.count("debug-prefix");
                    match run_program(&src) {
                        RunResult::Ok(out) => {
                            let want = format!("[{}] ", at + 1);
                            t.outcomes.insert(hash_of(&("debug", out.lines().filter(|l| l.starts_with('[')).count())));
                            if !out.lines().any(|l| l.starts_with(&want)) {
                                t.fail("debug-prefix", "wrong-line", format!("debug output {:?} where the expression starts on line {}", out.lines().find(|l| l.starts_with('[')).unwrap_or("<none>"), at + 1), format!("stdout:\n{out}\n--- program ---\n{src}"));
                            }
                        }
                        RunResult::Panic(p) => t.fail("debug-prefix", "panic", p, format!("--- program ---\n{src}")),
                        RunResult::CompileErr { text, .. } | RunResult::RuntimeErr { text, .. } => t.fail("debug-prefix", "generator-invalid", text.lines().next().unwrap_or("").to_string(), format!("{text}\n--- program ---\n{src}")),
                    }
                }
            }
        }
    }
}

fn compile_error_family(t: &mut Tally, tier: Tier) {
    use unicode_width::UnicodeWidthStr;
    let targets = ["p1 = 1 + 2", "p2 = [1, 2]", "p3 = sink 3, 4", "p4 = 'a{p1}b'", "p5 = p2[0] * (1 - 2)", "p6 = |a, b| a + b", "p7 = {k: 1}.k", "p8 = if p1 then 1 else 2", "  inner = p1 + 1"];
    let bad = [")", "]", "}", "$", "=)", "then"];
    let fillers: Vec<usize> = match tier {
        Tier::Quick => (0..FILLERS.len()).step_by(2).collect(),
        Tier::Thorough => (0..FILLERS.len()).collect(),
    };
    for &fa in &fillers {
        for &fb in &fillers {
            for target in targets {
                let indented = target.starts_with("  ");
                let toks: Vec<usize> = koto_lexer::Lexer::new(target).filter(|t| !matches!(t.token, koto_lexer::Token::Whitespace)).map(|t| t.source_bytes.start).filter(|p| *p >= target.len() - target.trim_start().len()).collect();
                for pos in toks.iter().skip(1).chain(std::iter::once(&target.len())) {
                    for b in bad {
                        // a stray `then` is only unexpected outside an if condition
                        if b == "then" && target.contains("if ") {
                            continue;
                        }
                        // inside a string the inserted text is not a token
                        let before = &target[..*pos];
                        if before.matches('\'').count() % 2 == 1 {
                            continue;
                        }
                        let mut l = Lines { v: vec![] };
                        l.v.push("sink = |args...| null".into());
                        l.push_block(0, FILLERS[fa]);
                        if indented {
                            l.v.push("outer = ||".into());
                        }
                        let at = l.v.len();
                        l.v.push(format!("{} {b} {}", &target[..*pos], &target[*pos..]).trim_end().to_string());
                        if indented {
                            l.v.push("  null".into());
                        }
                        l.push_block(0, FILLERS[fb]);
                        let src = l.v.join("\n") + "\n";
                        t.count("stray-token-compile-errors");
                        match run_program(&src) {
                            RunResult::CompileErr { line, column, text } => {
                                t.outcomes.insert(hash_of(&("ce", b, line as i64 - at as i64)));
                                let n_lines = src.lines().count();
                                let inside = line < n_lines && column <= src.lines().nth(line).map(|l| l.width() + 1).unwrap_or(0);
                                if !inside {
                                    t.fail("stray-token-compile-errors", "position-outside-source", format!("{}:{} in a text of {n_lines} lines", line + 1, column + 1), format!("{text}\n--- program ---\n{src}"));
                                } else if line != at {
                                    t.fail(
                                        "stray-token-compile-errors",
                                        "wrong-line",
                                        format!("stray {b:?} on line {} reported on line {}", at + 1, line + 1),
                                        format!("bad token {b:?} inserted on line {} at byte {pos}\n{text}\n--- program ---\n{src}", at + 1),
                                    );
                                } else if !text.contains(&format!("{} | {}", at + 1, l.v[at])) {
                                    t.fail("stray-token-compile-errors", "message-quotes", format!("the message does not quote line {}", at + 1), format!("{text}\n--- program ---\n{src}"));
                                }
                            }
                            RunResult::Panic(p) => t.fail("stray-token-compile-errors", "panic", p, format!("--- program ---\n{src}")),
                            _ => t.fail("stray-token-compile-errors", "accepted", format!("stray {b:?} accepted: {:?}", l.v[at]), format!("--- program ---\n{src}")),
                        }
                    }
                }
            }
        }
    }
    // unterminated constructs: the position must lie inside the text
    for (i, src) in ["x = (1 +", "x = [1,", "f = |a|", "x = 'abc", "m = {a: 1", "if x", "x = 1 +\n", "#- open comment", "x = '{1 +", "match x\n  1 then", "f(\n  1,\n"].iter().enumerate() {
        for fa in &fillers {
            let mut l = Lines { v: vec![] };
            l.push_block(0, FILLERS[*fa]);
            let full = format!("{}{}{}", l.v.join("\n"), if l.v.is_empty() { "" } else { "\n" }, src);
            t.count("unterminated-constructs");
            match run_program(&full) {
                RunResult::CompileErr { line, text, .. } => {
                    t.outcomes.insert(hash_of(&("unterminated", i)));
                    // a position on the line just after the text (end of input) is still 'at the end of the text'
                    let n_lines = full.split('\n').count();
                    if line >= n_lines {
                        t.fail("unterminated-constructs", "position-outside-source", format!("line {} in a text of {n_lines} lines", line + 1), format!("{text}\n--- program ---\n{full}"));
                    }
                }
                RunResult::Panic(p) => t.fail("unterminated-constructs", "panic", p, format!("--- program ---\n{full}")),
                _ => {}
            }
        }
    }
}

pub fn run(args: &Args) -> i32 {
    install_quiet_panic_hook();
    let tier = args.tier;
    if let Some(path) = &args.replay {
        let text = std::fs::read_to_string(path).unwrap_or_default();
        let src = match text.split_once("--- program ---\n") {
            Some((_, p)) => p.to_string(),
            None => text,
        };
        match run_program(&src) {
            RunResult::Ok(o) => println!("ok\n{o}"),
            RunResult::CompileErr { line, column, text } => println!("compile error at {}:{}\n{text}", line + 1, column + 1),
            RunResult::RuntimeErr { lines, text, stdout } => println!("runtime error, trace lines {:?}\n{text}\nstdout:\n{stdout}", lines.iter().map(|l| l.map(|l| l + 1)).collect::<Vec<_>>()),
            RunResult::Panic(p) => println!("panic: {p}"),
        }
        return 0;
    }
    let mut report = Report::new(args, "exploration");
    let nshards = threads() * 4;
    let results = par_shards_big_stack(nshards, 64 << 20, |shard| {
        let mut t = Tally { evals: 0, per_family: BTreeMap::new(), outcomes: BTreeSet::new(), sigs: BTreeMap::new(), fails: vec![] };
        runtime_families(&mut t, shard, nshards, tier);
        if shard == 1 % nshards {
            debug_family(&mut t);
        }
        if shard == 2 % nshards {
            compile_error_family(&mut t, tier);
        }
        t
    });
    let mut evals = 0;
    let mut per_family: BTreeMap<String, u64> = BTreeMap::new();
    let mut outcomes = BTreeSet::new();
    for t in results {
        evals += t.evals;
        outcomes.extend(t.outcomes);
        for (k, n) in t.per_family {
            *per_family.entry(k).or_insert(0) += n;
        }
        for (key, what, replay) in t.fails {
            report.fail(key.as_deref(), what, replay);
        }
    }
    report.cov("evaluations", evals);
    report.cov("distinct_nontrivial", outcomes.len() as u64);
    report.cov("evaluations_per_family", json!(per_family));
    report.cov("fillers", FILLERS.len() as u64);
    report.cov("samples", json!(["depth 2, fault `y = [][1]` inside `match 1 / 1 then`, call sites `res = sink(/ 1,/ f2()/ )` and `if true / f1()`: trace = [fault line, line of f2(), line of f1()]"]));
    report.cov("exhaustive", true);
    report.cov("rule", "programs assembled from line templates (every line number known by construction): nesting depth 0..3 x filler construct pairs (17 fillers: every statement kind, multi-line expressions, comments, non-ASCII text, multi-line strings; all 289 pairs thorough, 68 quick) x 8 call-site wrappers x (7 statement wrappers x 11 statement faults + 8 multi-line expression wrappers x 5 expression faults): the trace mapped through Chunk.debug_info must be exactly [fault line, call-site lines innermost first] and the rendered message must quote exactly those lines in that order; faults in callbacks of lazily consumed chains (first frame); debug prefixes for 6 debug shapes x 289 filler pairs x top level / inside a function; compile errors: 6 stray tokens at every token gap of 9 target lines between filler pairs must be reported inside the text, on the stray token's line, quoting it; 11 unterminated constructs after every filler: position inside the text");
    report.finish()
}
