//! C07 — a failed run leaves the runtime reusable and clean.
//!
//! Explicit-state BFS over histories of host/script operations on one real runtime instance.
//! A state is the history that reaches it (rebuilt by replay on a fresh instance); states are
//! merged by a canonical key (H1 snapshot + rendering of the exports). In every state:
//! (I1) no leftover execution state; (I2) a probe battery observes the same as on a fresh
//! instance that executed only the completed effects.

use crate::common::*;
use crate::run::*;
use koto::prelude::*;
use koto::runtime::VerifVmState;
use serde_json::json;
use std::collections::{HashMap, HashSet, VecDeque};
use std::time::Duration;

#[derive(Clone)]
enum Op {
    /// run a script; `reference` is the script with only its completed effects
    Script { name: &'static str, src: &'static str, reference: &'static str, repl: bool, timeout: bool },
    /// call an exported function with n integer arguments
    Call { name: &'static str, function: &'static str, args: usize },
    /// call a native core function with a wrongly typed argument
    CallNativeBadArgs,
    /// value_to_string on an exported value
    Display { name: &'static str, value: &'static str },
    /// binary op through the host API on an exported value
    BinaryOp { name: &'static str, value: &'static str },
    /// the same failing host call many times
    Repeat { name: &'static str, function: &'static str, times: usize },
    /// `l[0] = 99` on the exported list through KotoVm::run_write_op (completed effect: the assignment)
    HostIndexAssign,
}

impl Op {
    fn name(&self) -> String {
        match self {
            Op::Script { name, repl, .. } => format!("run:{name}{}", if *repl { "[repl]" } else { "" }),
            Op::Call { name, .. } => format!("call:{name}"),
            Op::CallNativeBadArgs => "call:native-bad-args".into(),
            Op::Display { name, .. } => format!("display:{name}"),
            Op::BinaryOp { name, .. } => format!("binop:{name}"),
            Op::Repeat { name, times, .. } => format!("repeat{times}:{name}"),
            Op::HostIndexAssign => "host:index-assign".into(),
        }
    }
}

fn alphabet(tier: Tier) -> Vec<Op> {
    let s = |name, src, reference| Op::Script { name, src, reference, repl: false, timeout: false };
    let mut v = vec![
        // succeeding runs
        s("export-value", "export v = 1\n", "export v = 1\n"),
        s("export-list", "export l = [1]\n", "export l = [1]\n"),
        s("mutate-exported-list", "l.push 9\n", "l.push 9\n"),
        s(
            "define-functions",
            "export f_ok = |x| x + 1\nexport f_throw = || throw 'ft'\nexport f_deep = || [1, 'a{(|| (2, f_throw()))()}']\nexport bad = {@display: (|| throw 'd'), @+: (|o| throw 'p'), @<: (|o| throw 'lt'), @==: (|o| throw 'eq'), @size: (|| throw 'sz'), @index: (|i| throw 'ix'), @iterator: (|| throw 'it')}\nexport g_gen = ||\n  yield 1\n  throw 'in generator'\nexport f_disp = || 'x{bad}'\nexport f_sort = || [bad, bad].sort()\nexport f_unpack = ||\n  a, b = bad\n  a\nexport f_caught = ||\n  try\n    'x{bad}'\n  catch e\n    'caught'\nexport f_ge = || bad >= 1\nexport f_ne = || bad != 1\nexport f_gt_caught = ||\n  try\n    bad > 1\n  catch e\n    'caught'\n",
            "export f_ok = |x| x + 1\nexport f_throw = || throw 'ft'\nexport f_deep = || [1, 'a{(|| (2, f_throw()))()}']\nexport bad = {@display: (|| throw 'd'), @+: (|o| throw 'p'), @<: (|o| throw 'lt'), @==: (|o| throw 'eq'), @size: (|| throw 'sz'), @index: (|i| throw 'ix'), @iterator: (|| throw 'it')}\nexport g_gen = ||\n  yield 1\n  throw 'in generator'\nexport f_disp = || 'x{bad}'\nexport f_sort = || [bad, bad].sort()\nexport f_unpack = ||\n  a, b = bad\n  a\nexport f_caught = ||\n  try\n    'x{bad}'\n  catch e\n    'caught'\nexport f_ge = || bad >= 1\nexport f_ne = || bad != 1\nexport f_gt_caught = ||\n  try\n    bad > 1\n  catch e\n    'caught'\n",
        ),
        // failing runs: prefix (completed effects) then the failure
        s("throw-after-export", "export p = 1\nthrow 'x'\n", "export p = 1\n"),
        // a generator instance kept in the exports; an error escaping from it ends the run and the generator
        s(
            "export-generator-instance",
            "ggf = ||\n  yield 1\n  throw 'in kept generator'\n  yield 3\nexport gi = ggf()\n",
            "ggf = ||\n  yield 1\n  throw 'in kept generator'\n  yield 3\nexport gi = ggf()\n",
        ),
        s("advance-kept-generator-until-it-fails", "gi.next()\ngi.next()\n", "try\n  gtest = gi\n  gq = || yield 1\n  gx = gq()\n  gx.consume()\n  export gi = gx\ncatch e\n  0\n"),
        s(
            "runtime-error-depth-3",
            "export q = 2\nd1 = || 1 + 'a'\nd2 = || d1()\nd3 = || [0, d2()]\nz = d3()\n",
            "export q = 2\n",
        ),
        s("error-in-each-callback", "export r = 3\nz = (1, 2).each(|x| throw 'cb').to_list()\n", "export r = 3\n"),
        s(
            "error-in-generator-for",
            "g = ||\n  yield 1\n  throw 'gen'\nfor x in g()\n  y = x\n",
            "",
        ),
        s("error-in-string", "z = 'a{1}b{throw 'in string'}c'\n", ""),
        s("error-in-list", "z = [1, [2, (throw 'in list')], 3]\n", ""),
        s("error-in-map-and-args", "f3 = |a, b, c| a\nz = {k: f3(1, (throw 'in args'), 3)}\n", ""),
        s("error-in-meta-add", "o = {@+: |x| throw 'in add'}\nz = o + 1\n", ""),
        s("error-in-meta-display", "o = {@display: || throw 'in display'}\nz = 'a{o}'\n", ""),
        s("error-in-sort-compare", "o = {@<: |x| throw 'in lt'}\nz = [o, o].sort()\n", ""),
        // a typed multi-assignment whose second target fails its check: only the first target is exported
        s("export-typed-multi-fails", "export let ma, mb: String = 1, 2\n", "export ma = 1\n"),
        s("failed-let-hint", "let h: String = 42\n", ""),
        s("mutate-then-fail", "l.push 7\nz = l[99]\n", "l.push 7\n"),
        s("compile-error", "x = (\n", ""),
        s("indentation-error", "if true\nprint 1\n", ""),
        s("import-missing", "import no_such_module_anywhere\n", ""),
        Op::Script { name: "timeout", src: "export w = 5\nloop\n  x = [1, 'a{2}']\n", reference: "export w = 5\n", repl: false, timeout: true },
        Op::Script { name: "import-spinning-module", src: "export before_sp = 1\nimport mod_spins\nexport after_sp = 1\n", reference: "export before_sp = 1\n", repl: false, timeout: true },
        // host-initiated calls
        Op::Call { name: "f_ok", function: "f_ok", args: 1 },
        Op::Call { name: "f_ok-wrong-arity", function: "f_ok", args: 0 },
        Op::Call { name: "f_throw", function: "f_throw", args: 0 },
        Op::Call { name: "f_deep", function: "f_deep", args: 0 },
        Op::Call { name: "generator", function: "g_gen", args: 0 },
        // errors thrown by overridden operators that native code (not an instruction) invokes
        Op::Call { name: "f_disp", function: "f_disp", args: 0 },
        Op::Call { name: "f_sort", function: "f_sort", args: 0 },
        Op::Call { name: "f_unpack", function: "f_unpack", args: 0 },
        Op::Call { name: "f_caught", function: "f_caught", args: 0 },
        // comparisons derived from throwing @< / @==
        Op::Call { name: "f_ge", function: "f_ge", args: 0 },
        Op::Call { name: "f_ne", function: "f_ne", args: 0 },
        Op::Call { name: "f_gt_caught", function: "f_gt_caught", args: 0 },
        Op::CallNativeBadArgs,
        Op::Display { name: "bad-display", value: "bad" },
        Op::Display { name: "plain", value: "l" },
        Op::BinaryOp { name: "bad-add", value: "bad" },
        Op::HostIndexAssign,
        Op::Repeat { name: "f_throw", function: "f_throw", times: 100 },
        Op::Repeat { name: "f_ok-wrong-arity", function: "f_ok", times: 100 },
    ];
    // imports of modules on disk (directory prepared by the engine, scripts get a script_path there)
    for (name, src) in [
        ("import-ok", "import mod_ok\nexport got_ok = mod_ok.x\n"),
        ("import-main-fails", "import mod_main_fails\nexport got_mf = 1\n"),
        ("import-top-fails", "from mod_top_fails import z\nexport got_tf = z\n"),
        ("import-cycle", "import mod_cycle_a\nexport got_cy = 1\n"),
        ("import-main-not-callable", "export before_mnc = 1\nimport mod_main_not_callable\nexport got_mnc = 1\n"),
        ("import-test-fails", "export before_tf = 1\nimport mod_test_fails\nexport got_tfm = 1\n"),
        ("import-ok-after-failing", "try\n  import mod_top_fails\ncatch e\n  ie = 1\nimport mod_ok\nexport got_ok2 = mod_ok.x\n"),
    ] {
        let reference: &'static str = match name {
            "import-ok" => "import mod_ok\nexport got_ok = mod_ok.x\n",
            "import-ok-after-failing" => "import mod_ok\nexport got_ok2 = mod_ok.x\n",
            "import-main-not-callable" => "export before_mnc = 1\n",
            "import-test-fails" => "export before_tf = 1\n",
            _ => "",
        };
        v.push(Op::Script { name, src, reference, repl: false, timeout: false });
    }
    // REPL mode (export_top_level_ids)
    v.push(Op::Script { name: "repl-assign", src: "ra = 10\nrb = ra + 1\n", reference: "ra = 10\nrb = ra + 1\n", repl: true, timeout: false });
    v.push(Op::Script { name: "repl-typed-multi-fails", src: "let rma, rmb: String = 1, 2\n", reference: "rma = 1\n", repl: true, timeout: false });
    v.push(Op::Script { name: "repl-assign-then-fail", src: "rc = 5\nrd = rc + 'x'\n", reference: "rc = 5\n", repl: true, timeout: false });
    if tier == Tier::Thorough {
        v.push(s("failing-test", "export @test broken = || assert false\n", "export @test broken = || assert false\n"));
        v.push(s("failing-test-in-display", "export @test shown = || 'x{{@display: || throw 'td'}}'\n", "export @test shown = || 'x{{@display: || throw 'td'}}'\n"));
        v.push(s("error-in-nested-try-finally", "try\n  try\n    throw 'a'\n  finally\n    z = [1, (throw 'b')]\ncatch e\n  throw 'c'\n", ""));
    }
    v
}

fn cfg_for(repl: bool, timeout: bool) -> RunCfg {
    let _ = timeout;
    RunCfg {
        script_path: Some(format!("{}/main.koto", module_dir())),
        export_top_level: repl,
        // the execution limit is a property of the instance: every instance has a 0.4 ms (virtual)
        // limit, which only the runaway script reaches
        limit: Some(Duration::from_micros(400)),
        quantum_ns: 100,
        budget_ticks: 400_000,
        ..RunCfg::default()
    }
}

pub fn module_dir() -> String {
    format!("/verif/target/tmp/histmc-{}", std::process::id())
}

fn prepare_modules() {
    let d = module_dir();
    let _ = std::fs::create_dir_all(&d);
    let files = [
        ("main.koto", "# the path that scripts run by the harness claim to have\n"),
        ("mod_ok.koto", "export x = 1\n"),
        ("mod_main_fails.koto", "export y = 2\nexport @main = || throw 'main failed'\n"),
        ("mod_top_fails.koto", "export z = 3\nthrow 'top failed'\n"),
        ("mod_spins.koto", "export sp = 1\nloop\n  x = [1, 'a{2}']\n"),
        ("mod_main_not_callable.koto", "export y2 = 2\nexport @main = 42\n"),
        ("mod_test_fails.koto", "export y3 = 3\nexport @test broken = || assert false\n"),
        ("mod_cycle_a.koto", "import mod_cycle_b\nexport a = 1\n"),
        ("mod_cycle_b.koto", "import mod_cycle_a\nexport b = 1\n"),
    ];
    for (n, t) in files {
        let _ = std::fs::write(format!("{d}/{n}"), t);
    }
}

fn apply(inst: &mut Instance, op: &Op, reference: bool) -> String {
    match op {
        Op::Script { src, reference: rsrc, repl, timeout, .. } => {
            let (text, tmo) = if reference { (*rsrc, false) } else { (*src, *timeout) };
            if text.is_empty() {
                return "skip".into();
            }
            let obs = inst.run_with(text, &cfg_for(*repl, tmo));
            if std::env::var("KV_DEBUG").is_ok() {
                eprintln!("DEBUG {:?} {:?}", obs.outcome, obs.error_text);
            }
            obs.outcome.class().to_string()
        }
        Op::HostIndexAssign if reference => {
            let o = inst.run_with("l[0] = 99\n", &cfg_for(false, false));
            o.outcome.class().to_string()
        }
        Op::HostIndexAssign => crate::run::guarded(|| match inst.koto.exports().get("l") {
            Some(l) => match inst.koto.verif_vm().run_write_op(koto::runtime::WriteOp::IndexAssign, l, KValue::Number(0.into()), KValue::Number(99.into())) {
                Ok(_) => "ok".to_string(),
                Err(_) => "error".to_string(),
            },
            None => "missing".into(),
        }),
        // host calls have no completed effects: the reference performs nothing
        _ if reference => "skip".into(),
        Op::Call { function, args, .. } => call_exported(inst, function, *args),
        Op::CallNativeBadArgs => {
            crate::run::guarded(|| {
                let f = match inst.koto.prelude().get("string") {
                    Some(KValue::Map(m)) => m.get("to_uppercase"),
                    _ => None,
                };
                match f {
                    Some(f) => match inst.koto.call_function(f, &[KValue::Number(1.into())]) {
                        Ok(_) => "ok".to_string(),
                        Err(_) => "error".to_string(),
                    },
                    None => "missing".into(),
                }
            })
        }
        Op::Display { value, .. } => crate::run::guarded(|| match inst.koto.exports().get(*value) {
            Some(v) => match inst.koto.value_to_string(v) {
                Ok(_) => "ok".to_string(),
                Err(_) => "error".to_string(),
            },
            None => "missing".into(),
        }),
        Op::BinaryOp { value, .. } => crate::run::guarded(|| match inst.koto.exports().get(*value) {
            Some(v) => match inst.koto.verif_vm().run_binary_op(koto::runtime::BinaryOp::Add, v, KValue::Number(1.into())) {
                Ok(_) => "ok".to_string(),
                Err(_) => "error".to_string(),
            },
            None => "missing".into(),
        }),
        Op::Repeat { function, times, .. } => {
            let mut last = String::new();
            for _ in 0..*times {
                last = call_exported(inst, function, 0);
                if last.starts_with("panic") {
                    break;
                }
            }
            last
        }
    }
}

fn call_exported(inst: &mut Instance, function: &str, args: usize) -> String {
    crate::run::guarded(|| match inst.koto.exports().get(function) {
        Some(f) => {
            let a: Vec<KValue> = (0..args).map(|i| KValue::Number((i as i64 + 1).into())).collect();
            match inst.koto.call_function(f, &a[..]) {
                Ok(v) => {
                    // a generator: drive it until it fails
                    if let KValue::Iterator(mut it) = v {
                        let mut n = 0;
                        while let Some(o) = it.next() {
                            n += 1;
                            if matches!(o, koto::runtime::KIteratorOutput::Error(_)) || n > 10 {
                                break;
                            }
                        }
                    }
                    "ok".to_string()
                }
                Err(_) => "error".to_string(),
            }
        }
        None => "missing".into(),
    })
}

fn exports_rendering(inst: &mut Instance) -> String {
    let exports = inst.koto.exports().clone();
    let mut entries: Vec<String> = vec![];
    let keys: Vec<(String, KValue)> = exports.data().iter().map(|(k, v)| (format!("{}", k.value().type_as_string()) + ":" + &key_text(k.value()), v.clone())).collect();
    for (k, v) in keys {
        let text = match &v {
            KValue::Function(_) | KValue::NativeFunction(_) => "||".to_string(),
            KValue::Map(m) if m.meta_map().is_some() => "object".to_string(),
            other => crate::run::guarded(|| inst.koto.value_to_string(other.clone()).unwrap_or_else(|_| "<undisplayable>".into())),
        };
        entries.push(format!("{k}={text}"));
    }
    let meta = exports.meta_map().map(|m| m.borrow().len()).unwrap_or(0);
    format!("{{{}}} meta={meta}", entries.join(", "))
}

fn key_text(v: &KValue) -> String {
    match v {
        KValue::Str(s) => s.to_string(),
        other => format!("{other:?}"),
    }
}

fn clean(st: &VerifVmState) -> bool {
    st.registers == 0
        && st.call_stack == 0
        && st.sequence_builders == 0
        && st.string_builders == 0
        && st.register_base == 0
        && st.module_cache_placeholders == 0
        && !st.active
}

/// destructive probe battery
fn probe(inst: &mut Instance) -> String {
    let mut out = String::new();
    out.push_str(&exports_rendering(inst));
    let cfg = cfg_for(false, false);
    let o = inst.run_with("px = [1, 2, 3].each(|v| v * 2).to_tuple()\nprint 'p {px}'\n'{px}'\n", &cfg);
    out.push_str(&format!(" | P2 {:?} {:?}", o.stdout, o.outcome));
    let o = inst.run_with(
        "try\n  print (v, l)\ncatch e\n  print 'no v/l'\ntry\n  print (p, q, r, w)\ncatch e\n  print 'no p/q/r/w'\ntry\n  print f_ok(41)\ncatch e\n  print 'no f_ok'\n",
        &cfg,
    );
    out.push_str(&format!(" | P3 {:?} {:?}", o.stdout, o.outcome.class()));
    out.push_str(&format!(" | P4 {}", call_exported(inst, "f_ok", 1)));
    let o = inst.run_with("print ra, rb, rc\n", &cfg_for(true, false));
    out.push_str(&format!(" | P5 {:?} {:?}", o.stdout, o.outcome.class()));
    // every module is imported again: failed imports must fail again, completed ones are cached
    let o = inst.run_with(
        "try\n  import mod_ok\n  print 'ok {mod_ok.x}'\ncatch e\n  print 'mod_ok failed'\ntry\n  import mod_main_fails\n  print 'mf imported'\ncatch e\n  print 'mf failed'\ntry\n  import mod_top_fails\n  print 'tf imported'\ncatch e\n  print 'tf failed'\ntry\n  import mod_cycle_a\n  print 'cycle imported'\ncatch e\n  print 'cycle failed'\ntry\n  import mod_main_not_callable\n  print 'mnc imported'\ncatch e\n  print 'mnc failed'\ntry\n  import mod_test_fails\n  print 'tfm imported'\ncatch e\n  print 'tfm failed'\n",
        &cfg,
    );
    out.push_str(&format!(" | P6 {:?} {:?}", o.stdout, o.outcome.class()));
    let o = inst.run_with("try\n  print 'gi {gi.next()} {gi.next()}'\ncatch e\n  print 'gi failed or missing'\n", &cfg);
    out.push_str(&format!(" | P7 {:?} {:?}", o.stdout, o.outcome.class()));
    // the module that never finishes importing times out again (it is not 'being imported' any more)
    let short = RunCfg { limit: Some(Duration::from_micros(100)), budget_ticks: 40_000, ..cfg.clone() };
    let o = inst.run_with("import mod_spins\nprint 'imported'\n", &short);
    out.push_str(&format!(" | P8 {:?} {:?}", o.stdout, o.outcome.class()));
    if let Some(st) = &o.state {
        out.push_str(&format!(" | clean-after-probes {}", clean(st)));
    }
    out
}

fn build(hist: &[usize], alpha: &[Op], reference: bool) -> (Instance, Vec<String>) {
    let mut inst = Instance::new(cfg_for(false, false));
    let mut results = vec![];
    for i in hist {
        results.push(apply(&mut inst, &alpha[*i], reference));
    }
    (inst, results)
}

pub fn run(args: &Args) -> i32 {
    install_quiet_panic_hook();
    let tier = args.tier;
    let alpha = alphabet(tier);
    if let Some(path) = &args.replay {
        let text = std::fs::read_to_string(path).unwrap_or_default();
        let names: Vec<&str> = text.lines().find_map(|l| l.strip_prefix("history: ")).map(|l| l.split(" ; ").collect()).unwrap_or_default();
        let hist: Vec<usize> = names.iter().filter_map(|n| alpha.iter().position(|o| o.name() == *n)).collect();
        prepare_modules();
        let (v, _) = check_history(&hist, &alpha);
        let (v2, _) = check_history(&hist, &alpha);
        let _ = std::fs::remove_dir_all(module_dir());
        if v != v2 {
            eprintln!("machinery failure: replay diverged");
            return 2;
        }
        {
            let (mut real, results) = build(&hist, &alpha, false);
            println!("op results: {results:?}\nprobe: {}", probe(&mut real));
        }
        println!("history {names:?}: {}", if v.is_empty() { "property holds".to_string() } else { v.join(" / ") });
        if !v.is_empty() {
            println!("VIOLATION property={} replay={}", args.property, path);
            return 1;
        }
        return 0;
    }
    prepare_modules();
    let mut report = Report::new(args, "model_checking");
    let max_depth = tier.pick(4usize, 5usize);
    // BFS level by level (levels are expanded in parallel)
    let mut seen: HashSet<u64> = HashSet::new();
    let mut frontier: Vec<Vec<usize>> = vec![vec![]];
    let mut states = 0u64;
    let mut transitions = 0u64;
    let mut validated = 0u64;
    let mut samples: Vec<String> = vec![];
    let mut depth_completed = 0;
    let mut distinct_keys_per_depth = vec![];
    let started = std::time::Instant::now();
    let wall_cap = tier.pick(50.0, 600.0);
    let mut capped = false;
    {
        let (mut inst, _) = build(&[], &alpha, false);
        let k = state_key(&mut inst);
        seen.insert(hash_of(&k));
        states += 1;
    }
    for depth in 1..=max_depth {
        // expand every frontier history by every op
        let mut candidates: Vec<Vec<usize>> = vec![];
        // depth 5 (thorough) extends every depth-4 state by the first 30 operations of the alphabet
        // only (scripts and the original host calls): the full alphabet does not fit in memory there
        let ops_here = if depth >= 5 { alpha.len().min(30) } else { alpha.len() };
        for h in &frontier {
            for i in 0..ops_here {
                let mut n = h.clone();
                n.push(i);
                candidates.push(n);
            }
        }
        // the level is processed in chunks, and only the hash of a state key is kept (the key text
        // of every 997th state is kept for the samples), so that memory stays bounded at depth 5
        let mut next_frontier = vec![];
        let mut results: Vec<(Vec<String>, (u64, Option<String>))> = Vec::with_capacity(candidates.len());
        for chunk_start in (0..candidates.len()).step_by(200_000) {
            let chunk = &candidates[chunk_start..(chunk_start + 200_000).min(candidates.len())];
            let part = par_shards_big_stack(chunk.len(), 64 << 20, |c| {
                let hist = &chunk[c];
                let (viol, key) = check_history(hist, &alpha);
                let h = hash_of(&key);
                (viol, (h, if (chunk_start + c) % 997 == 3 { Some(key) } else { None }))
            });
            results.extend(part);
        }
        for (hist, (viol, (key_hash, key_text))) in candidates.iter().zip(results.into_iter()) {
            transitions += 1;
            validated += 1;
            let names: Vec<String> = hist.iter().map(|i| alpha[*i].name()).collect();
            for v in viol {
                report.fail(
                    classify(&names, &v).as_deref(),
                    format!("[{}] after history {}", v, names.join(" ; ")),
                    format!("history: {}\n{}\n", names.join(" ; "), v),
                );
            }
            if seen.insert(key_hash) {
                states += 1;
                if let (true, Some(key)) = (samples.len() < 5, key_text) {
                    samples.push(format!("{} => {}", names.join(" ; "), key));
                }
                next_frontier.push(hist.clone());
            }
        }
        distinct_keys_per_depth.push(next_frontier.len() as u64);
        frontier = next_frontier;
        depth_completed = depth;
        if started.elapsed().as_secs_f64() > wall_cap {
            capped = depth < max_depth;
            break;
        }
        if frontier.is_empty() {
            break;
        }
    }
    let _ = std::fs::remove_dir_all(module_dir());
    report.cov("states", states);
    report.cov("transitions", transitions);
    report.cov("traces_validated_against_impl", validated);
    report.cov("evaluations", transitions);
    report.cov("distinct_nontrivial", states);
    report.cov("alphabet_size", alpha.len() as u64);
    report.cov("alphabet", json!(alpha.iter().map(|o| o.name()).collect::<Vec<_>>()));
    report.cov("depth_completed", depth_completed as u64);
    report.cov("new_states_per_depth", json!(distinct_keys_per_depth));
    report.cov("exhaustive", !capped);
    if capped {
        report.cov("cap_hit", format!("wall cap {wall_cap} s reached after depth {depth_completed}"));
    }
    report.cov("rule", format!("BFS over all histories of length <= {max_depth} over a {}-operation alphabet (the fifth operation of a history, thorough tier only, ranges over the first 30 operations) on one real runtime instance (states rebuilt by replay); a history is expanded only if its canonical key (H1 snapshot, rendering of the exports map) is new; invariants I1 (no leftover execution state) and I2 (probe battery equals a fresh instance that executed only the completed effects) are evaluated after every transition", alpha.len()));
    if samples.is_empty() {
        samples.push("run:export-value".into());
    }
    report.cov("samples", json!(samples));
    report.assume("merging argument: later behaviour depends only on the exports (rendered, functions as ||), the module/loader caches and the internal stacks (all in the key); compile settings are per operation");
    report.assume("exports persist between runs by design: a failing script's reference counterpart is its prefix of completed effects");
    report.finish()
}

fn state_key(inst: &mut Instance) -> String {
    let st = inst.koto.verif_vm().verif_state();
    format!("{:?} {}", st, exports_rendering(inst))
}

/// replays the history, returns (violations, canonical key)
fn check_history(hist: &[usize], alpha: &[Op]) -> (Vec<String>, String) {
    let mut viol = vec![];
    let (mut real, results) = build(hist, alpha, false);
    if let Some(r) = results.iter().find(|r| r.starts_with("panic")) {
        viol.push(format!("panic: an operation panicked: {r}"));
        return (viol, format!("panicked {hist:?}"));
    }
    let st = real.koto.verif_vm().verif_state();
    if !clean(&st) {
        viol.push(format!(
            "residue: leftover execution state registers={} call_stack={} sequence_builders={} string_builders={} register_base={} placeholders={} active={}",
            st.registers, st.call_stack, st.sequence_builders, st.string_builders, st.register_base, st.module_cache_placeholders, st.active
        ));
    }
    let key = state_key(&mut real);
    let (mut reference, _) = build(hist, alpha, true);
    let a = probe(&mut real);
    let b = probe(&mut reference);
    if a != b {
        viol.push(format!("differs-from-fresh: probes observe {a} but a fresh instance with only the completed effects observes {b}"));
    }
    (viol, key)
}

fn classify(_names: &[String], _v: &str) -> Option<String> {
    None
}
