//! kref value model: values, display, equality, ordering, type names.

use crate::kast::*;
use std::cell::RefCell;
use std::rc::Rc;

#[derive(Clone)]
pub enum V {
    Null,
    Bool(bool),
    Int(i64),
    Float(f64),
    Str(Rc<str>),
    List(Rc<RefCell<Vec<V>>>),
    Tuple(Rc<Vec<V>>),
    Map(Rc<MapObj>),
    Range(Option<i64>, Option<i64>, bool),
    Func(Rc<Closure>),
    Native(Rc<NativeFn>),
    Iter(Rc<IterObj>),
    /// IteratorOutput wrapper returned by `next()`
    Out(Rc<V>),
}

pub struct MapObj {
    pub entries: RefCell<Vec<(V, V)>>,
    /// metamap: shared between instances created by `with_meta` / copies
    pub meta: RefCell<Option<Rc<RefCell<Vec<(String, V)>>>>>,
}

pub struct Closure {
    pub def: Rc<FuncDef>,
    pub captures: RefCell<Vec<(Name, V)>>,
    pub defaults: Vec<Option<V>>,
}

pub struct NativeFn {
    pub name: String,
    /// bound receiver (for `x.method`)
    pub recv: Option<V>,
}

pub struct IterObj {
    pub state: RefCell<IterState>,
}

pub enum IterState {
    List(Rc<RefCell<Vec<V>>>, usize),
    Tuple(Rc<Vec<V>>, usize),
    Range(i64, i64, i64), // cur, end(exclusive in direction), step (+1/-1)
    RangeFrom(i64),
    Str(Rc<str>, usize), // byte offset; yields grapheme clusters
    Map(Rc<MapObj>, usize),
    Gen(Box<crate::kref::GenState>),
    /// a materialised sequence (used for adaptor results in kref's tiny iterator support)
    Seq(Vec<V>, usize),
    /// object with @next
    MetaNext(V),
    /// lazy adaptors with a callback (kind: 0 each, 1 keep)
    Adapt(Rc<IterObj>, V, u8),
    Done,
}

impl V {
    pub fn str(s: &str) -> V {
        V::Str(s.into())
    }
    pub fn list(v: Vec<V>) -> V {
        V::List(Rc::new(RefCell::new(v)))
    }
    pub fn tuple(v: Vec<V>) -> V {
        V::Tuple(Rc::new(v))
    }
    pub fn map(entries: Vec<(V, V)>) -> V {
        V::Map(Rc::new(MapObj {
            entries: RefCell::new(entries),
            meta: RefCell::new(None),
        }))
    }
    pub fn truthy(&self) -> bool {
        !matches!(self, V::Null | V::Bool(false))
    }
    pub fn is_num(&self) -> bool {
        matches!(self, V::Int(_) | V::Float(_))
    }
    pub fn as_f64(&self) -> Option<f64> {
        match self {
            V::Int(i) => Some(*i as f64),
            V::Float(f) => Some(*f),
            _ => None,
        }
    }
}

impl MapObj {
    pub fn get_meta(&self, key: &str) -> Option<V> {
        let m = self.meta.borrow();
        let m = m.as_ref()?;
        let m = m.borrow();
        m.iter().find(|(k, _)| k == key).map(|(_, v)| v.clone())
    }
    pub fn has_meta(&self, key: &str) -> bool {
        self.get_meta(key).is_some()
    }
    pub fn get(&self, key: &V) -> Option<V> {
        self.entries
            .borrow()
            .iter()
            .find(|(k, _)| values_equal_plain(k, key))
            .map(|(_, v)| v.clone())
    }
    pub fn insert(&self, key: V, value: V) {
        let mut e = self.entries.borrow_mut();
        if let Some(slot) = e.iter_mut().find(|(k, _)| values_equal_plain(k, &key)) {
            slot.1 = value;
        } else {
            e.push((key, value));
        }
    }
    pub fn type_name(&self) -> Option<String> {
        match self.get_meta("@type") {
            Some(V::Str(s)) => Some(s.to_string()),
            _ => None,
        }
    }
}

/// Equality without operator overloading (used for map keys and the plain data path).
pub fn values_equal_plain(a: &V, b: &V) -> bool {
    match (a, b) {
        (V::Null, V::Null) => true,
        (V::Bool(x), V::Bool(y)) => x == y,
        (V::Int(x), V::Int(y)) => x == y,
        (V::Int(x), V::Float(y)) => (*x as f64) == *y,
        (V::Float(x), V::Int(y)) => *x == (*y as f64),
        (V::Float(x), V::Float(y)) => x == y,
        (V::Str(x), V::Str(y)) => x == y,
        (V::Range(a1, b1, i1), V::Range(a2, b2, i2)) => a1 == a2 && b1 == b2 && (b1.is_none() || i1 == i2),
        (V::List(x), V::List(y)) => {
            let x = x.borrow();
            let y = y.borrow();
            x.len() == y.len() && x.iter().zip(y.iter()).all(|(a, b)| values_equal_plain(a, b))
        }
        (V::Tuple(x), V::Tuple(y)) => x.len() == y.len() && x.iter().zip(y.iter()).all(|(a, b)| values_equal_plain(a, b)),
        (V::Map(x), V::Map(y)) => {
            let xe = x.entries.borrow();
            let ye = y.entries.borrow();
            xe.len() == ye.len()
                && xe
                    .iter()
                    .all(|(k, v)| ye.iter().any(|(k2, v2)| values_equal_plain(k, k2) && values_equal_plain(v, v2)))
        }
        (V::Func(x), V::Func(y)) => Rc::ptr_eq(x, y),
        _ => false,
    }
}

pub fn type_name(v: &V) -> String {
    match v {
        V::Null => "Null".into(),
        V::Bool(_) => "Bool".into(),
        V::Int(_) | V::Float(_) => "Number".into(),
        V::Str(_) => "String".into(),
        V::List(_) => "List".into(),
        V::Tuple(_) => "Tuple".into(),
        V::Map(m) => {
            if m.meta.borrow().is_none() {
                "Map".into()
            } else {
                // own @type, else the first @type along the @base chain, else Object
                let mut cur: Option<Rc<MapObj>> = Some(m.clone());
                let mut depth = 0;
                while let Some(c) = cur {
                    if let Some(t) = c.type_name() {
                        return t;
                    }
                    depth += 1;
                    if depth > 16 {
                        break;
                    }
                    cur = match c.get_meta("@base") {
                        Some(V::Map(b)) => Some(b),
                        _ => None,
                    };
                }
                "Object".into()
            }
        }
        V::Range(..) => "Range".into(),
        V::Func(f) => {
            if f.def.is_gen {
                "Generator".into()
            } else {
                "Function".into()
            }
        }
        V::Native(_) => "Function".into(),
        V::Iter(_) => "Iterator".into(),
        V::Out(_) => "IteratorOutput".into(),
    }
}

pub fn fmt_float(f: f64) -> String {
    if f.is_nan() {
        return "NaN".into();
    }
    if f.is_infinite() {
        return if f > 0.0 { "inf".into() } else { "-inf".into() };
    }
    if f.fract() == 0.0 {
        format!("{f:.1}")
    } else {
        format!("{f}")
    }
}

/// Plain display (no @display dispatch; the interpreter handles overloaded display itself).
pub fn display_plain(v: &V, contained: bool, out: &mut String, parents: &mut Vec<usize>) {
    match v {
        V::Null => out.push_str("null"),
        V::Bool(b) => out.push_str(&b.to_string()),
        V::Int(i) => out.push_str(&i.to_string()),
        V::Float(f) => out.push_str(&fmt_float(*f)),
        V::Str(s) => {
            if contained {
                out.push('\'');
                out.push_str(s);
                out.push('\'');
            } else {
                out.push_str(s);
            }
        }
        V::List(l) => {
            let id = Rc::as_ptr(l) as *const () as usize;
            out.push('[');
            if parents.contains(&id) {
                out.push_str("...");
            } else {
                parents.push(id);
                for (i, e) in l.borrow().iter().enumerate() {
                    if i > 0 {
                        out.push_str(", ");
                    }
                    display_plain(e, true, out, parents);
                }
                parents.pop();
            }
            out.push(']');
        }
        V::Tuple(t) => {
            out.push('(');
            for (i, e) in t.iter().enumerate() {
                if i > 0 {
                    out.push_str(", ");
                }
                display_plain(e, true, out, parents);
            }
            out.push(')');
        }
        V::Map(m) => {
            if let Some(t) = m.type_name() {
                out.push_str(&t);
                out.push(' ');
            }
            let id = Rc::as_ptr(m) as *const () as usize;
            out.push('{');
            if parents.contains(&id) {
                out.push_str("...");
            } else {
                parents.push(id);
                for (i, (k, val)) in m.entries.borrow().iter().enumerate() {
                    if i > 0 {
                        out.push_str(", ");
                    }
                    let mut ks = String::new();
                    display_plain(k, false, &mut ks, &mut vec![]);
                    out.push_str(&ks);
                    out.push_str(": ");
                    display_plain(val, true, out, parents);
                }
                parents.pop();
            }
            out.push('}');
        }
        V::Range(a, b, incl) => {
            if let Some(a) = a {
                out.push_str(&a.to_string());
            }
            out.push_str("..");
            if let Some(b) = b {
                if *incl {
                    out.push('=');
                }
                out.push_str(&b.to_string());
            }
        }
        V::Func(_) | V::Native(_) => out.push_str("||"),
        V::Iter(_) => out.push_str("Iterator"),
        V::Out(v) => {
            out.push_str("IteratorOutput(");
            display_plain(v, false, out, parents);
            out.push(')');
        }
    }
}

pub fn to_display(v: &V) -> String {
    let mut s = String::new();
    display_plain(v, false, &mut s, &mut vec![]);
    s
}
