//! C20 — data interchange round-trips.
//!
//! (a) all serializable value trees up to a size bound over boundary leaf pools x {json, yaml,
//!     toml}: to_string -> from_string equals the documented normal form; a second round trip is
//!     the identity (values and text); unsupported values (TOML null / non-map top level) are
//!     errors. (b) Rust data (structs, enums, options, sequences, maps, primitives at their
//!     boundaries) -> KValue -> Rust is unchanged (exhaustive over small domains of a type zoo).
//! (c) all short texts over per-format alphabets and all single-character corruptions of valid
//!     documents through the three parsers: never a panic; what parses re-serializes, and within
//!     the serializable domain round-trips.

use crate::common::*;
use crate::run::*;
use koto::prelude::*;
use serde::{Deserialize, Serialize};
use serde_json::json;
use std::collections::{BTreeMap, BTreeSet};

#[derive(Clone, PartialEq, Debug)]
enum J {
    Null,
    Bool(bool),
    Int(i64),
    Float(u64),
    Str(String),
    List(Vec<J>),
    Tuple(Vec<J>),
    Map(Vec<(String, J)>),
    /// a map with a key that is not a string / a value outside the data model
    Other(String),
}

fn to_kvalue(j: &J) -> KValue {
    match j {
        J::Null => KValue::Null,
        J::Bool(b) => KValue::Bool(*b),
        J::Int(i) => KValue::Number((*i).into()),
        J::Float(f) => KValue::Number(f64::from_bits(*f).into()),
        J::Str(s) => KValue::Str(s.as_str().into()),
        J::List(l) => KValue::List(KList::from_slice(&l.iter().map(to_kvalue).collect::<Vec<_>>())),
        J::Tuple(l) => KValue::Tuple(KTuple::from(l.iter().map(to_kvalue).collect::<Vec<_>>())),
        J::Map(m) => {
            let km = KMap::new();
            for (k, v) in m {
                km.insert(k.as_str(), to_kvalue(v));
            }
            KValue::Map(km)
        }
        J::Other(_) => KValue::Null,
    }
}

fn from_kvalue(v: &KValue) -> J {
    match v {
        KValue::Null => J::Null,
        KValue::Bool(b) => J::Bool(*b),
        KValue::Number(KNumber::I64(i)) => J::Int(*i),
        KValue::Number(KNumber::F64(f)) => J::Float(f.to_bits()),
        KValue::Str(s) => J::Str(s.to_string()),
        KValue::List(l) => J::List(l.data().iter().map(from_kvalue).collect()),
        KValue::Tuple(t) => J::Tuple(t.iter().map(from_kvalue).collect()),
        KValue::Map(m) => {
            let mut out = vec![];
            for (k, v) in m.data().iter() {
                match k.value() {
                    KValue::Str(s) => out.push((s.to_string(), from_kvalue(v))),
                    other => return J::Other(format!("map key of type {}", other.type_as_string())),
                }
            }
            J::Map(out)
        }
        other => J::Other(other.type_as_string().to_string()),
    }
}

/// documented normal form: sequences come back as tuples
fn normal(j: &J) -> J {
    match j {
        J::List(l) | J::Tuple(l) => J::Tuple(l.iter().map(normal).collect()),
        J::Map(m) => J::Map(m.iter().map(|(k, v)| (k.clone(), normal(v))).collect()),
        other => other.clone(),
    }
}

/// key order is not part of a TOML document's meaning (tables are written after plain values)
fn sort_maps(j: &J) -> J {
    match j {
        J::List(l) => J::List(l.iter().map(sort_maps).collect()),
        J::Tuple(l) => J::Tuple(l.iter().map(sort_maps).collect()),
        J::Map(m) => {
            let mut v: Vec<(String, J)> = m.iter().map(|(k, v)| (k.clone(), sort_maps(v))).collect();
            v.sort_by(|a, b| a.0.cmp(&b.0));
            J::Map(v)
        }
        other => other.clone(),
    }
}

fn contains_null(j: &J) -> bool {
    match j {
        J::Null => true,
        J::List(l) | J::Tuple(l) => l.iter().any(contains_null),
        J::Map(m) => m.iter().any(|(_, v)| contains_null(v)),
        _ => false,
    }
}

fn in_domain(j: &J) -> bool {
    match j {
        J::Other(_) => false,
        J::Float(f) => f64::from_bits(*f).is_finite(),
        J::List(l) | J::Tuple(l) => l.iter().all(in_domain),
        J::Map(m) => m.iter().all(|(_, v)| in_domain(v)),
        _ => true,
    }
}

const FORMATS: [&str; 3] = ["json", "yaml", "toml"];

struct Ctx {
    inst: Instance,
    fns: BTreeMap<(String, String), KValue>,
}

fn make_ctx() -> Ctx {
    let inst = Instance::new(RunCfg::default());
    let mut fns = BTreeMap::new();
    for (name, module) in [("json", koto_json::make_module()), ("yaml", koto_yaml::make_module()), ("toml", koto_toml::make_module())] {
        for f in ["to_string", "from_string"] {
            fns.insert((name.to_string(), f.to_string()), module.get(f).expect("module function"));
        }
    }
    Ctx { inst, fns }
}

#[derive(Debug, Clone, PartialEq)]
enum Res<T> {
    Ok(T),
    Err(String),
    Panic(String),
}

impl Ctx {
    fn call(&mut self, fmt: &str, f: &str, arg: KValue) -> Res<KValue> {
        let func = self.fns[&(fmt.to_string(), f.to_string())].clone();
        let koto = &mut self.inst.koto;
        match std::panic::catch_unwind(std::panic::AssertUnwindSafe(|| koto.call_function(func, &[arg]))) {
            Ok(Ok(v)) => Res::Ok(v),
            Ok(Err(e)) => Res::Err(e.to_string().lines().next().unwrap_or("").chars().take(120).collect()),
            Err(_) => {
                let msg = take_last_panic();
                *self = make_ctx();
                Res::Panic(msg)
            }
        }
    }
    fn to_text(&mut self, fmt: &str, v: &J) -> Res<String> {
        match self.call(fmt, "to_string", to_kvalue(v)) {
            Res::Ok(KValue::Str(s)) => Res::Ok(s.to_string()),
            Res::Ok(other) => Res::Err(format!("to_string returned {}", other.type_as_string())),
            Res::Err(e) => Res::Err(e),
            Res::Panic(p) => Res::Panic(p),
        }
    }
    fn from_text(&mut self, fmt: &str, t: &str) -> Res<J> {
        match self.call(fmt, "from_string", KValue::Str(t.into())) {
            Res::Ok(v) => Res::Ok(from_kvalue(&v)),
            Res::Err(e) => Res::Err(e),
            Res::Panic(p) => Res::Panic(p),
        }
    }
}

// ------------------------------------------------------------------------------------------
// value trees

fn leaf_pool(tier: Tier) -> Vec<J> {
    let mut v = vec![J::Null, J::Bool(true), J::Bool(false)];
    for i in [0i64, 1, -1, 255, i64::MAX, i64::MIN, (1 << 53) + 1, -(1 << 31)] {
        v.push(J::Int(i));
    }
    for f in [0.5f64, -0.0, 1.0, 1e300, 5e-324, 0.1, 1e21, 123456789.125, -2.5e-7, f64::MAX, f64::MIN_POSITIVE] {
        v.push(J::Float(f.to_bits()));
    }
    let mut strs: Vec<&str> = vec![
        "", "a", "true", "null", "~", "1", "1.5", "-", "a b", " lead", "trail ", "line\nbreak", "tab\t", "quote\"", "apos'", "back\\slash", "é€😀", "\u{7f}", "\u{85}", "\u{2028}", "#comment", "key: value", "[x]", "{x}", "- item",
        "yes", "no", "on", "0x10", "1_000", "2001-01-01", "@at", "`tick", "%pct", "!tag", "&anchor", "*alias", "|", ">", "?", ".inf", "-.inf", ".nan", "1e3", "+1", "0o7", "'''", "\"\"\"", "\r\n", "\u{0}", "\u{1b}", "a\u{301}",
        "=", "a.b", "[[t]]", "\u{feff}bom",
    ];
    let _ = tier;
    for s in strs {
        v.push(J::Str(s.to_string()));
    }
    v.push(J::List(vec![]));
    v.push(J::Tuple(vec![]));
    v.push(J::Map(vec![]));
    v
}

fn key_pool() -> Vec<&'static str> {
    vec!["a", "", "a b", "1", "true", "é", "a.b", "a\"b", "k'q", "#", "null", "-", "key: x", "[t]", "\n"]
}

fn containers_over(children: &[J], keys: &[&str], pairs: bool) -> Vec<J> {
    let mut out = vec![];
    for c in children {
        out.push(J::List(vec![c.clone()]));
        out.push(J::Tuple(vec![c.clone()]));
        for k in keys {
            out.push(J::Map(vec![(k.to_string(), c.clone())]));
        }
    }
    if pairs {
        for a in children {
            for b in children {
                out.push(J::List(vec![a.clone(), b.clone()]));
                out.push(J::Map(vec![("x".into(), a.clone()), ("y".into(), b.clone())]));
            }
        }
        // every pair of keys
        for (i, k1) in keys.iter().enumerate() {
            for k2 in &keys[i + 1..] {
                out.push(J::Map(vec![(k1.to_string(), J::Int(1)), (k2.to_string(), J::Str("v".into()))]));
            }
        }
    }
    out
}

struct Tally {
    evals: u64,
    outcomes: BTreeSet<u64>,
    per_family: BTreeMap<String, u64>,
    sigs: BTreeMap<String, u64>,
    fails: Vec<(Option<String>, String, String)>,
}

impl Tally {
    fn new() -> Self {
        Tally { evals: 0, outcomes: BTreeSet::new(), per_family: BTreeMap::new(), sigs: BTreeMap::new(), fails: vec![] }
    }
    fn ok(&mut self, family: &str, outcome: &str) {
        self.evals += 1;
        *self.per_family.entry(family.to_string()).or_insert(0) += 1;
        self.outcomes.insert(hash_of(&format!("{family}{outcome}")));
    }
    fn fail(&mut self, family: &str, class: &str, what: String, replay: String) {
        let sig = format!("{family}|{class}");
        let n = self.sigs.entry(sig).or_insert(0);
        *n += 1;
        if *n <= 30 {
            self.fails.push((None, format!("[{family}] {class}: {what}"), replay));
        }
    }
}

fn short<T: std::fmt::Debug>(x: &T) -> String {
    let s = format!("{x:?}");
    if s.chars().count() > 200 { format!("{}...", s.chars().take(200).collect::<String>()) } else { s }
}

fn check_tree(cx: &mut Ctx, t: &mut Tally, fmt: &str, v: &J) {
    let fam = format!("{fmt}-round-trip");
    let expect_err = fmt == "toml" && (!matches!(v, J::Map(_)) || contains_null(v));
    let text = match cx.to_text(fmt, v) {
        Res::Panic(p) => return t.fail(&fam, "panic", format!("to_string({}) panicked: {p}", short(v)), format!("value: {v:?}\n")),
        Res::Err(e) => {
            t.ok(&fam, "err");
            if !expect_err {
                t.fail(&fam, "refused", format!("to_string({}) failed: {e}", short(v)), format!("value: {v:?}\nerror: {e}\n"));
            }
            return;
        }
        Res::Ok(text) => text,
    };
    if expect_err {
        t.ok(&fam, "accepted-unsupported");
        return t.fail(&fam, "accepted-unsupported", format!("to_string({}) produced {text:?} for a value the format cannot represent", short(v)), format!("value: {v:?}\ntext: {text}\n"));
    }
    let v2 = match cx.from_text(fmt, &text) {
        Res::Ok(v2) => v2,
        other => return t.fail(&fam, "own-output-rejected", format!("from_string(to_string({})) = {}", short(v), short(&other)), format!("value: {v:?}\ntext: {text}\nresult: {other:?}\n")),
    };
    let want = normal(v);
    let same = if fmt == "toml" { sort_maps(&v2) == sort_maps(&want) } else { v2 == want };
    t.ok(&fam, &format!("{want:?}"));
    if !same {
        return t.fail(&fam, "changed", format!("{} came back as {}", short(&want), short(&v2)), format!("value: {v:?}\ntext: {text}\ncame back: {v2:?}\nexpected: {want:?}\n"));
    }
    // the second round trip is the identity
    match cx.to_text(fmt, &v2) {
        Res::Ok(text2) => match cx.from_text(fmt, &text2) {
            Res::Ok(v3) => {
                t.ok(&fam, "second");
                if v3 != v2 {
                    t.fail(&fam, "second-trip-changed", format!("{} then {}", short(&v2), short(&v3)), format!("value: {v:?}\ntext1: {text}\nv2: {v2:?}\ntext2: {text2}\nv3: {v3:?}\n"));
                } else if let Res::Ok(text3) = cx.to_text(fmt, &v3)
                    && text3 != text2
                {
                    t.fail(&fam, "text-not-stable", format!("{text2:?} then {text3:?}"), format!("value: {v:?}\ntext2: {text2}\ntext3: {text3}\n"));
                }
            }
            other => t.fail(&fam, "second-trip-rejected", format!("from_string({text2:?}) = {}", short(&other)), format!("value: {v:?}\ntext2: {text2}\nresult: {other:?}\n")),
        },
        other => t.fail(&fam, "second-trip-refused", format!("to_string({}) = {}", short(&v2), short(&other)), format!("value: {v:?}\nv2: {v2:?}\nresult: {other:?}\n")),
    }
}

// ------------------------------------------------------------------------------------------
// Rust data through koto_serde

#[derive(Serialize, Deserialize, PartialEq, Debug, Clone)]
enum E {
    Unit,
    Newtype(i32),
    Tuple(i8, bool),
    Struct { x: u8, y: Option<String> },
    NewtypeSeq(Vec<u8>),
    NewtypeOpt(Option<i16>),
}

#[derive(Serialize, Deserialize, PartialEq, Debug, Clone)]
struct Unit;

#[derive(Serialize, Deserialize, PartialEq, Debug, Clone)]
struct NT(u16);

#[derive(Serialize, Deserialize, PartialEq, Debug, Clone)]
struct TS(i32, String);

#[derive(Serialize, Deserialize, PartialEq, Debug, Clone)]
struct Inner {
    flag: bool,
    opt: Option<i64>,
    e: E,
}

#[derive(Serialize, Deserialize, PartialEq, Debug, Clone)]
struct Outer {
    s: String,
    c: char,
    unit: (),
    us: Unit,
    nt: NT,
    ts: TS,
    seq: Vec<Inner>,
    tup: (i32, String, Option<bool>),
    map: BTreeMap<String, E>,
    opt_inner: Option<Inner>,
    arr: [u8; 3],
}

fn all_e() -> Vec<E> {
    let mut v = vec![E::Unit];
    for i in [0, -1, i32::MAX, i32::MIN] {
        v.push(E::Newtype(i));
    }
    for a in [0i8, i8::MIN, i8::MAX] {
        for b in [false, true] {
            v.push(E::Tuple(a, b));
        }
    }
    for x in [0u8, 255] {
        for y in [None, Some(String::new()), Some("Unit".to_string()), Some("é\n\"".to_string())] {
            v.push(E::Struct { x, y });
        }
    }
    for s in [vec![], vec![0u8], vec![1, 255]] {
        v.push(E::NewtypeSeq(s));
    }
    for o in [None, Some(0i16), Some(i16::MIN)] {
        v.push(E::NewtypeOpt(o));
    }
    v
}

fn rust_round_trip<T>(t: &mut Tally, family: &str, value: &T, may_refuse: bool)
where
    T: Serialize + for<'de> Deserialize<'de> + PartialEq + std::fmt::Debug,
{
    let r = std::panic::catch_unwind(std::panic::AssertUnwindSafe(|| match koto_serde::to_koto_value(value) {
        Ok(kv) => match koto_serde::from_koto_value::<T>(kv.clone()) {
            Ok(back) => Ok((format!("{:?}", from_kvalue(&kv)), back)),
            Err(e) => Err(format!("from_koto_value failed: {e} (koto value {:?})", from_kvalue(&kv))),
        },
        Err(e) => Err(format!("to_koto_value refused: {e}")),
    }));
    t.ok(family, &format!("{value:?}"));
    match r {
        Err(_) => t.fail(family, "panic", format!("{} panicked: {}", short(value), take_last_panic()), format!("value: {value:?}\n")),
        Ok(Err(e)) => {
            if !(may_refuse && e.starts_with("to_koto_value refused")) {
                t.fail(family, "lost", format!("{}: {e}", short(value)), format!("value: {value:?}\n{e}\n"));
            }
        }
        Ok(Ok((kv, back))) => {
            if &back != value && kv == "Null" && format!("{value:?}").starts_with("Some(") {
                t.fails.push((Some("some-of-null-collapses-to-none".into()), format!("[{family}] changed: {} came back as {} (through {kv})", short(value), short(&back)), format!("value: {value:?}\nkoto value: {kv}\ncame back: {back:?}\n")));
            } else if &back != value {
                t.fail(family, "changed", format!("{} came back as {} (through {kv})", short(value), short(&back)), format!("value: {value:?}\nkoto value: {kv}\ncame back: {back:?}\n"));
            }
        }
    }
}

fn check_rust_data(t: &mut Tally) {
    let es = all_e();
    for e in &es {
        rust_round_trip(t, "rust-enum", e, false);
        rust_round_trip(t, "rust-option-enum", &Some(e.clone()), false);
        rust_round_trip(t, "rust-vec-enum", &vec![e.clone(), E::Unit, e.clone()], false);
    }
    let mut inners = vec![];
    for flag in [false, true] {
        for opt in [None, Some(0i64), Some(i64::MIN), Some(i64::MAX)] {
            for e in &es {
                inners.push(Inner { flag, opt, e: e.clone() });
            }
        }
    }
    for i in &inners {
        rust_round_trip(t, "rust-struct", i, false);
    }
    // primitives at their boundaries
    macro_rules! prims {
        ($fam:expr, $($v:expr),*) => { $( rust_round_trip(t, $fam, &$v, false); )* };
    }
    prims!("rust-primitive", 0u8, u8::MAX, i8::MIN, i8::MAX, u16::MAX, i16::MIN, u32::MAX, i32::MIN, i64::MIN, i64::MAX, 0u64, i64::MAX as u64, 0i128, i64::MIN as i128, i64::MAX as u128);
    prims!("rust-primitive", true, false, 'a', 'é', '😀', '\u{0}', '\u{10ffff}', (), Unit, NT(0), NT(u16::MAX));
    prims!("rust-primitive", 0.0f64, -0.0f64, 0.1f64, f64::MAX, f64::MIN_POSITIVE, 5e-324f64, 1e21f64, 0.5f32, f32::MAX, 16777217.0f64);
    prims!("rust-primitive", String::new(), "a".to_string(), "é€😀\n\"\\".to_string());
    // out of the koto number range: refusing is allowed, changing is not
    rust_round_trip(t, "rust-out-of-range", &u64::MAX, true);
    rust_round_trip(t, "rust-out-of-range", &(i64::MAX as u64 + 1), true);
    rust_round_trip(t, "rust-out-of-range", &i128::MAX, true);
    rust_round_trip(t, "rust-out-of-range", &i128::MIN, true);
    rust_round_trip(t, "rust-out-of-range", &u128::MAX, true);
    // options, sequences, maps, tuples
    for o in [None, Some(0u8), Some(255u8)] {
        rust_round_trip(t, "rust-option", &o, false);
        rust_round_trip(t, "rust-vec-option", &vec![o, None, Some(1)], false);
        rust_round_trip(t, "rust-tuple", &(o, 1i32, "x".to_string()), false);
        let mut m = BTreeMap::new();
        m.insert("k".to_string(), o);
        m.insert(String::new(), None);
        rust_round_trip(t, "rust-map", &m, false);
    }
    rust_round_trip(t, "rust-option-unit", &Some(()), false);
    rust_round_trip(t, "rust-nested-option", &Some(Some(1u8)), false);
    rust_round_trip(t, "rust-nested-option", &Option::<Option<u8>>::None, false);
    rust_round_trip(t, "rust-nested-option-some-none", &Some(Option::<u8>::None), false);
    for n in 0..4usize {
        rust_round_trip(t, "rust-seq", &(0..n as i32).collect::<Vec<_>>(), false);
        rust_round_trip(t, "rust-seq", &(0..n).map(|i| vec![i as u8; i]).collect::<Vec<_>>(), false);
        let m: BTreeMap<String, Vec<Option<bool>>> = (0..n).map(|i| (format!("k{i}"), vec![None, Some(i % 2 == 0)])).collect();
        rust_round_trip(t, "rust-map", &m, false);
        let im: BTreeMap<i32, String> = (0..n as i32).map(|i| (i - 1, format!("v{i}"))).collect();
        rust_round_trip(t, "rust-map-int-keys", &im, false);
    }
    // the full struct over a product of representative members
    for (k, i) in inners.iter().enumerate().step_by(7) {
        let mut map = BTreeMap::new();
        map.insert("a".to_string(), es[k % es.len()].clone());
        map.insert("Unit".to_string(), E::Unit);
        let o = Outer {
            s: ["", "x", "é\n"][k % 3].to_string(),
            c: ['a', '\u{0}', '😀'][k % 3],
            unit: (),
            us: Unit,
            nt: NT((k * 7919 % 65536) as u16),
            ts: TS(k as i32 - 5, "t".into()),
            seq: inners.iter().skip(k).take(k % 3).cloned().collect(),
            tup: (i32::MIN, String::new(), [None, Some(true), Some(false)][k % 3]),
            map,
            opt_inner: if k % 2 == 0 { Some(i.clone()) } else { None },
            arr: [0, 255, (k % 256) as u8],
        };
        rust_round_trip(t, "rust-struct-full", &o, false);
    }
}

// ------------------------------------------------------------------------------------------
// text inputs

fn texts(alphabet: &[&str], max_len: usize) -> Vec<String> {
    let mut out = vec![String::new()];
    let mut cur = vec![String::new()];
    for _ in 0..max_len {
        let mut next = vec![];
        for s in &cur {
            for a in alphabet {
                next.push(format!("{s}{a}"));
            }
        }
        out.extend(next.iter().cloned());
        cur = next;
    }
    out
}

fn corruptions(doc: &str, inserts: &[&str]) -> Vec<String> {
    let chars: Vec<char> = doc.chars().collect();
    let mut out = vec![];
    for i in 0..=chars.len() {
        if i < chars.len() {
            // deletion
            let mut c = chars.clone();
            c.remove(i);
            out.push(c.iter().collect());
            // truncation
            out.push(chars[..i].iter().collect());
        }
        for ins in inserts {
            let mut s: String = chars[..i].iter().collect();
            s.push_str(ins);
            s.extend(chars[i..].iter());
            out.push(s);
            if i < chars.len() {
                let mut s: String = chars[..i].iter().collect();
                s.push_str(ins);
                s.extend(chars[i + 1..].iter());
                out.push(s);
            }
        }
    }
    out
}

fn check_text(cx: &mut Ctx, t: &mut Tally, fmt: &str, text: &str, family: &str) {
    match cx.from_text(fmt, text) {
        Res::Panic(p) if p.contains("toml_parser") && p.contains("decoder/scalar.rs") => {
            t.fails.push((Some("toml-parser-debug-assertion".into()), format!("[{family}] panic: {fmt}.from_string({text:?}) panicked: {p}"), format!("format: {fmt}\ntext: {text:?}\npanic: {p}\n")));
        }
        Res::Panic(p) => t.fail(family, "panic", format!("{fmt}.from_string({text:?}) panicked: {p}"), format!("format: {fmt}\ntext: {text:?}\n")),
        Res::Err(_) => t.ok(family, "err"),
        Res::Ok(v) => {
            t.ok(family, &format!("{v:?}"));
            // what parses can be written again (never a panic), and inside the domain round-trips
            match cx.to_text(fmt, &v) {
                Res::Panic(p) => t.fail(family, "panic", format!("{fmt}.to_string of the value parsed from {text:?} panicked: {p}"), format!("format: {fmt}\ntext: {text:?}\nvalue: {v:?}\n")),
                Res::Err(e) => {
                    let unsupported = fmt == "toml" && (contains_null(&v) || !matches!(v, J::Map(_)));
                    if in_domain(&v) && !unsupported {
                        t.fail(family, "parsed-value-not-writable", format!("{fmt}: {text:?} parsed to {} which to_string refuses: {e}", short(&v)), format!("format: {fmt}\ntext: {text:?}\nvalue: {v:?}\nerror: {e}\n"));
                    }
                }
                Res::Ok(text2) => {
                    if in_domain(&v) {
                        match cx.from_text(fmt, &text2) {
                            Res::Ok(v2) => {
                                let same = if fmt == "toml" { sort_maps(&v2) == sort_maps(&normal(&v)) } else { v2 == normal(&v) };
                                if !same {
                                    t.fail(family, "changed", format!("{fmt}: {text:?} parsed to {}, written as {text2:?}, read back as {}", short(&v), short(&v2)), format!("format: {fmt}\ntext: {text:?}\nvalue: {v:?}\ntext2: {text2}\nv2: {v2:?}\n"));
                                }
                            }
                            other => t.fail(family, "own-output-rejected", format!("{fmt}: {text2:?} (written for the value of {text:?}) = {}", short(&other)), format!("format: {fmt}\ntext: {text:?}\nvalue: {v:?}\ntext2: {text2}\nresult: {other:?}\n")),
                        }
                    }
                }
            }
        }
    }
}

/// integers outside the i64 range: an error, or (where the parser itself falls back to a float)
/// a float close to the value; never another integer
fn check_out_of_range(cx: &mut Ctx, t: &mut Tally) {
    let values: [&str; 9] = ["9223372036854775808", "9223372036854775809", "18446744073709551615", "18446744073709551616", "1000000000000000000000000000000", "-9223372036854775809", "-18446744073709551616", "12345678901234567890", "9999999999999999999"];
    for v in values {
        let exact: f64 = v.parse().unwrap();
        for (fmt, texts) in [
            ("json", vec![v.to_string(), format!("[{v}]"), format!("{{\"a\": {v}}}"), format!("[1, {{\"k\": [{v}]}}]")]),
            ("yaml", vec![v.to_string(), format!("- {v}"), format!("a: {v}"), format!("a:\n  - b: {v}\n")]),
            ("toml", vec![format!("a = {v}"), format!("a = [{v}]"), format!("[t]\nk = {v}\n")]),
        ] {
            for text in texts {
                fn leaves(j: &J, out: &mut Vec<J>) {
                    match j {
                        J::List(l) | J::Tuple(l) => l.iter().for_each(|x| leaves(x, out)),
                        J::Map(m) => m.iter().for_each(|(_, x)| leaves(x, out)),
                        other => out.push(other.clone()),
                    }
                }
                match cx.from_text(fmt, &text) {
                    Res::Panic(p) => t.fail("out-of-range-integers", "panic", format!("{fmt}.from_string({text:?}) panicked: {p}"), format!("format: {fmt}\ntext: {text:?}\n")),
                    Res::Err(_) => t.ok("out-of-range-integers", "err"),
                    Res::Ok(j) => {
                        t.ok("out-of-range-integers", &format!("{j:?}"));
                        let mut ls = vec![];
                        leaves(&j, &mut ls);
                        for l in ls {
                            let bad = match l {
                                J::Int(i) => i != 1,
                                J::Float(f) => ((f64::from_bits(f) - exact) / exact).abs() > 1e-12,
                                J::Str(_) => false,
                                _ => false,
                            };
                            if bad {
                                t.fail("out-of-range-integers", "accepted-as-another-number", format!("{fmt}: {text:?} parsed to {}", short(&j)), format!("format: {fmt}\ntext: {text:?}\nvalue: {j:?}\n"));
                            }
                        }
                    }
                }
            }
        }
    }
}

fn valid_docs(fmt: &str) -> Vec<&'static str> {
    match fmt {
        "json" => vec![
            r#"{"a": [1, 2.5, -3e2, true, false, null], "b": {"c": "x\n\"y\" é 😀"}, "": []}"#,
            r#"[9223372036854775807, -9223372036854775808, 9223372036854775808, 1e400, 0.1, 1E-7, -0]"#,
            r#""just a string""#,
            "  [ ]  ",
        ],
        "yaml" => vec![
            "a: 1\nb:\n  - x\n  - y: 2\n    z: [1, 2]\nc: {d: e}\ns: \"q\\n\"\nt: 'it''s'\nn: ~\nf: 1.5\nm: |\n  line1\n  line2\n",
            "- &anchor {k: v}\n- *anchor\n- <<: *anchor\n  extra: 1\n- !!str 123\n- 0x1F\n- 1_000\n- .inf\n- 2001-01-01\n",
            "? [1, 2]\n: complex\n1: int key\ntrue: bool key\n",
            "--- a\n--- b\n",
        ],
        _ => vec![
            "title = \"x\"\nn = 1\nf = -1.5e3\nb = true\nd = 2001-02-03T04:05:06Z\narr = [1, 2, [3, \"m\"]]\n[tbl]\nk = 'lit'\n\"q k\" = \"\"\"multi\nline\"\"\"\n[[aot]]\na = 1\n[[aot]]\na = 2\n[tbl.sub]\ninline = { x = 1, y = [ ] }\n",
            "big = 9223372036854775807\nneg = -9223372036854775808\nover = 9223372036854775808\nhex = 0xDEADBEEF\ninf = inf\nnan = nan\nu = 1_000\n",
            "a.b.c = 1\na.d = 2\n",
            "",
        ],
    }
}

fn short_alphabet(fmt: &str) -> Vec<&'static str> {
    match fmt {
        "json" => vec!["{", "}", "[", "]", "\"", ":", ",", "1", "0", "-", ".", "e", "t", "n", "\\", "u", " ", "a", "9", "\u{e9}"],
        "yaml" => vec!["a", ":", " ", "-", "\n", "[", "]", "{", "}", "\"", "'", "#", "&", "*", "!", "|", ">", "?", "1", "~", "<", "%", "@", ","],
        _ => vec!["a", "=", " ", "\n", "[", "]", "\"", "'", ".", "1", "{", "}", ",", "#", "-", "t", "_", "0", "x", ":"],
    }
}

pub fn run(args: &Args) -> i32 {
    install_quiet_panic_hook();
    let tier = args.tier;
    if let Some(path) = &args.replay {
        println!("{}", std::fs::read_to_string(path).unwrap_or_default());
        return 0;
    }
    let mut report = Report::new(args, "exploration");

    // (a) value trees
    let leaves = leaf_pool(tier);
    let keys = key_pool();
    let level1 = containers_over(&leaves, &keys, true);
    // a representative subset nested once more
    let reps: Vec<J> = leaves.iter().step_by(5).cloned().chain(level1.iter().step_by(tier.pick(997, 211)).cloned()).collect();
    let level2 = containers_over(&reps, &keys[..5], true);
    let mut trees: Vec<J> = vec![];
    trees.extend(leaves.iter().cloned());
    trees.extend(level1.iter().cloned());
    trees.extend(level2.iter().cloned());
    // floats on a two-digit-mantissa x exponent grid (decimal <-> binary conversion both ways)
    for d in 1..=99i32 {
        for e in (-120..=120).step_by(tier.pick(7, 1)) {
            if let Ok(f) = format!("{d}e{e}").parse::<f64>() {
                trees.push(J::Float(f.to_bits()));
                // and its neighbours
                trees.push(J::Float(f.to_bits() + 1));
                trees.push(J::Float(f.to_bits() - 1));
            }
        }
    }
    // every tree also as the value of a top-level map (TOML needs a map at the top)
    let wrapped: Vec<J> = trees.iter().map(|v| J::Map(vec![("top".to_string(), v.clone())])).collect();
    trees.extend(wrapped);

    // (c) texts
    let mut text_work: Vec<(String, String, &'static str)> = vec![];
    for fmt in FORMATS {
        for s in texts(&short_alphabet(fmt), tier.pick(4, 5)) {
            text_work.push((fmt.to_string(), s, "short-texts"));
        }
        let inserts: Vec<&str> = vec!["\"", "{", "]", ":", "\n", " ", "-", "9", "\u{0}", "é", "\\", "'", "[", "=", ".", "#", "&", "*", "e"];
        for d in valid_docs(fmt) {
            text_work.push((fmt.to_string(), d.to_string(), "valid-documents"));
            for c in corruptions(d, &inserts) {
                text_work.push((fmt.to_string(), c, "corrupted-documents"));
            }
        }
        // nesting and size limits
        for depth in [10usize, 127, 128, 129, 300] {
            let (open, close) = if fmt == "toml" { ("a = ".to_string() + &"[".repeat(depth), "]".repeat(depth)) } else { ("[".repeat(depth), "]".repeat(depth)) };
            text_work.push((fmt.to_string(), format!("{open}{close}"), "deep-nesting"));
            text_work.push((fmt.to_string(), open, "deep-nesting"));
        }
    }

    let nshards = threads() * 4;
    let results = par_shards_big_stack(nshards, 256 << 20, |shard| {
        let mut cx = make_ctx();
        let mut t = Tally::new();
        for (i, v) in trees.iter().enumerate() {
            if i % nshards != shard {
                continue;
            }
            for fmt in FORMATS {
                check_tree(&mut cx, &mut t, fmt, v);
            }
        }
        for (i, (fmt, text, fam)) in text_work.iter().enumerate() {
            if i % nshards != shard {
                continue;
            }
            check_text(&mut cx, &mut t, fmt, text, &format!("{fmt}-{fam}"));
        }
        if shard == 0 {
            check_rust_data(&mut t);
            check_out_of_range(&mut cx, &mut t);
        }
        t
    });
    let mut evals = 0;
    let mut outcomes = BTreeSet::new();
    let mut per_family: BTreeMap<String, u64> = BTreeMap::new();
    for t in results {
        evals += t.evals;
        outcomes.extend(t.outcomes);
        for (k, n) in t.per_family {
            *per_family.entry(k).or_insert(0) += n;
        }
        for (key, what, replay) in t.fails {
            report.fail(key.as_deref(), what, replay);
        }
    }
    report.cov("evaluations", evals);
    report.cov("distinct_nontrivial", outcomes.len() as u64);
    report.cov("value_trees", trees.len() as u64);
    report.cov("leaf_pool", leaves.len() as u64);
    report.cov("texts", text_work.len() as u64);
    report.cov("evaluations_per_family", json!(per_family));
    report.cov("samples", json!(["{\"top\": [\"~\", 9223372036854775807]} -> yaml -> same (tuple)", "toml.to_string(null) -> error", "Inner { flag: true, opt: Some(i64::MIN), e: Struct { x: 255, y: Some(\"Unit\") } } -> KValue -> same"]));
    report.cov("exhaustive", true);
    report.cov("rule", "(a) every value tree = leaf | container of <= 2 children over the leaf pool (null, bools, 8 boundary integers, 11 finite floats incl. -0.0 / subnormal / MAX, strings that look like other YAML/TOML/JSON tokens or need escaping, empty containers) with 15 awkward keys, nested once more over a representative subset, each also wrapped in a top-level map, x json/yaml/toml: to_string then from_string equals the normal form (sequences as tuples; TOML key order ignored), second trip is the identity on values and text, TOML null / non-map top level must be refused; (b) exhaustive small-domain enumeration of a Rust type zoo (unit/newtype/tuple/struct enum variants, nested structs, options, sequences, maps, tuples, arrays, chars, integer and float boundaries, out-of-range integers may only be refused) through to_koto_value / from_koto_value; (c) every text up to length 4 (thorough 5) over a 20-24 symbol alphabet per format, every single-character deletion / truncation / insertion / replacement of 4 valid documents per format, nesting depth probes: no panic, parsed values re-serialize and round-trip inside the domain");
    report.finish()
}
