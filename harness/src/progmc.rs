//! progmc: bounded-exhaustive differential of generated programs, real koto vs kref.
//! Profiles: core (C01), fn (C02), match (C03), err (C04), types (C16), meta (C17).

use crate::common::*;
use crate::kast::*;
use crate::kref::{RefOutcome, run_reference};
use crate::run::*;
use serde_json::json;
use std::collections::HashSet;

pub struct Case {
    /// family / sub-family tag, used in reports
    pub family: &'static str,
    pub prog: Vec<X>,
    /// finding-key candidates computed by the family from the *input shape*
    pub shape: Vec<&'static str>,
}

pub type Emit<'a> = &'a mut dyn FnMut(Case);

#[derive(Default)]
pub struct Tally {
    pub cases: u64,
    pub compared: u64,
    pub skipped_unmodelled: u64,
    pub skipped_nonterminating: u64,
    pub ref_errors: u64,
    pub distinct: HashSet<u64>,
    pub failures: Vec<(Option<String>, String, String)>,
    pub fail_count: u64,
    pub samples: Vec<String>,
    pub by_family: std::collections::BTreeMap<&'static str, u64>,
    pub unmodelled_reasons: std::collections::BTreeMap<String, u64>,
    pub masked: std::collections::BTreeMap<String, u64>,
    pub paren_variants: u64,
}

pub struct Verdict {
    pub ok: bool,
    pub class: &'static str,
    pub detail: String,
}

/// Compares the real observation with the reference observation.
pub fn judge(real: &Obs, rf: &crate::kref::RefObs) -> Verdict {
    let bad = |class: &'static str, detail: String| Verdict { ok: false, class, detail };
    match &real.outcome {
        Outcome::Panic(m) => return bad("panic", format!("koto panicked: {m}")),
        Outcome::Budget => return bad("non-termination", "koto exhausted the tick budget on a terminating program".into()),
        Outcome::CompileErr { msg, .. } => {
            return bad("spurious-compile-error", format!("koto rejected a well-formed program: {}", first_line(msg)));
        }
        _ => {}
    }
    if let Some(k) = real.outcome.is_internal_fault() {
        return bad("internal-fault", format!("koto raised internal fault {k}"));
    }
    if real.stdout != rf.stdout {
        return bad(
            "wrong-output",
            format!("stdout differs: koto {:?} vs reference {:?}", real.stdout, rf.stdout),
        );
    }
    match (&real.outcome, &rf.outcome) {
        (Outcome::Ok(a), RefOutcome::Ok(b)) => {
            if a == b {
                Verdict { ok: true, class: "", detail: String::new() }
            } else {
                bad("wrong-value", format!("result differs: koto {a:?} vs reference {b:?}"))
            }
        }
        (Outcome::Thrown(a), RefOutcome::Thrown(b)) => {
            if a == b {
                Verdict { ok: true, class: "", detail: String::new() }
            } else {
                bad("wrong-thrown-message", format!("thrown message differs: koto {a:?} vs reference {b:?}"))
            }
        }
        (Outcome::Runtime { .. }, RefOutcome::Runtime) => Verdict { ok: true, class: "", detail: String::new() },
        (Outcome::Ok(a), RefOutcome::Runtime) | (Outcome::Ok(a), RefOutcome::Thrown(_)) => {
            bad("missing-error", format!("koto returned {a:?} where the reference raises an error"))
        }
        (Outcome::Runtime { msg, .. }, RefOutcome::Ok(b)) => bad(
            "spurious-error",
            format!("koto raised {:?} where the reference returns {b:?}", first_line(msg)),
        ),
        (Outcome::Thrown(m), RefOutcome::Ok(b)) => bad(
            "spurious-error",
            format!("koto threw {m:?} where the reference returns {b:?}"),
        ),
        (Outcome::Thrown(m), RefOutcome::Runtime) => bad("wrong-error-class", format!("koto threw {m:?}, reference: runtime error")),
        (Outcome::Runtime { msg, .. }, RefOutcome::Thrown(b)) => bad(
            "wrong-error-class",
            format!("koto raised runtime error {:?}, reference: thrown {b:?}", first_line(msg)),
        ),
        (Outcome::Timeout, _) => bad("timeout", "unexpected timeout".into()),
        (a, b) => bad("mismatch", format!("koto {a:?} vs reference {b:?}")),
    }
}

pub fn first_line(s: &str) -> String {
    s.lines().next().unwrap_or("").to_string()
}

pub struct Runner<'a> {
    pub shard: usize,
    pub nshards: usize,
    pub idx: usize,
    pub cfg: RunCfg,
    pub tally: Tally,
    pub classify: &'a dyn Fn(&Case, &Verdict, &Obs, Option<&crate::kref::RefObs>) -> Option<String>,
    pub extra_check: Option<&'a dyn Fn(&Case, &str, &Obs) -> Option<(String, String)>>,
    /// every n-th case is also run in its redundant-parentheses rendering (0 = never)
    pub paren_variant_every: usize,
}

impl Runner<'_> {
    pub fn take(&mut self, case: Case) {
        let i = self.idx;
        self.idx += 1;
        if i % self.nshards != self.shard {
            return;
        }
        self.tally.cases += 1;
        *self.tally.by_family.entry(case.family).or_default() += 1;
        for s in &case.shape {
            *self.tally.masked.entry(s.to_string()).or_default() += 1;
        }
        let rf = run_reference(&case.prog, self.cfg.type_checks, 200_000);
        match &rf.outcome {
            RefOutcome::Unmodelled(m) => {
                self.tally.skipped_unmodelled += 1;
                *self.tally.unmodelled_reasons.entry(m.clone()).or_default() += 1;
                // still run koto: it must not panic (C06 clause) — cheap and sound
                let src = render_program(&case.prog);
                let real = run_script(&src, &self.cfg);
                if let Outcome::Panic(m) = &real.outcome {
                    let v = Verdict { ok: false, class: "panic", detail: format!("koto panicked: {m}") };
                    self.record(&case, &src, &v, "(reference: unmodelled)", &real, None);
                }
                return;
            }
            RefOutcome::NonTerminating => {
                self.tally.skipped_nonterminating += 1;
                return;
            }
            _ => {}
        }
        if rf.stdout.contains(crate::kref::RT_SENTINEL)
            || matches!(&rf.outcome, RefOutcome::Ok(s) | RefOutcome::Thrown(s) if s.contains(crate::kref::RT_SENTINEL))
        {
            self.tally.skipped_unmodelled += 1;
            *self.tally.unmodelled_reasons.entry("runtime error message observed".into()).or_default() += 1;
            return;
        }
        let src = render_program(&case.prog);
        let real = run_script(&src, &self.cfg);
        self.tally.compared += 1;
        if matches!(rf.outcome, RefOutcome::Runtime | RefOutcome::Thrown(_)) {
            self.tally.ref_errors += 1;
        }
        self.tally.distinct.insert(hash_of(&(&real.stdout, &real.outcome.class(), match &real.outcome {
            Outcome::Ok(s) | Outcome::Thrown(s) => s.as_str(),
            _ => "",
        })));
        if self.tally.samples.len() < 3 && self.tally.cases % 997 == 1 {
            self.tally.samples.push(src.clone());
        }
        let v = judge(&real, &rf);
        if v.ok && self.paren_variant_every > 0 && i % self.paren_variant_every == 0 {
            // the same program with redundant parentheses around every operand, argument, element
            // and assigned value: parentheses that are not needed never change the meaning
            let src2 = render_program_with(&case.prog, 2, Layout { redundant_parens: true, ..Layout::default() });
            if src2 != src {
                let real2 = run_script(&src2, &self.cfg);
                self.tally.paren_variants += 1;
                let v2 = judge(&real2, &rf);
                if !v2.ok {
                    let expected = format!("reference: stdout {:?} outcome {:?}", rf.stdout, rf.outcome);
                    let v2 = Verdict { ok: false, class: v2.class, detail: format!("(redundant-parentheses rendering) {}", v2.detail) };
                    self.record(&case, &src2, &v2, &expected, &real2, Some(&rf));
                    return;
                }
            }
        }
        if !v.ok {
            let expected = format!("reference: stdout {:?} outcome {:?}", rf.stdout, rf.outcome);
            self.record(&case, &src, &v, &expected, &real, Some(&rf));
        } else if let Some(extra) = self.extra_check {
            if let Some((class, detail)) = extra(&case, &src, &real) {
                let v = Verdict { ok: false, class: Box::leak(class.into_boxed_str()), detail };
                self.record(&case, &src, &v, "", &real, Some(&rf));
            }
        }
    }

    fn record(&mut self, case: &Case, src: &str, v: &Verdict, expected: &str, real: &Obs, rf: Option<&crate::kref::RefObs>) {
        self.tally.fail_count += 1;
        let key = (self.classify)(case, v, real, rf);
        if self.tally.failures.len() < 400 {
            self.tally.failures.push((
                key,
                format!("[{}] {}: {}", case.family, v.class, v.detail),
                format!(
                    "family: {}\nclass: {}\ntype_checks: {}\n{}\n{}\n--- program ---\n{}",
                    case.family, v.class, self.cfg.type_checks, v.detail, expected, src
                ),
            ));
        }
    }
}

pub fn merge_tallies(ts: Vec<Tally>) -> Tally {
    let mut t = Tally::default();
    for o in ts {
        t.cases += o.cases;
        t.compared += o.compared;
        t.skipped_unmodelled += o.skipped_unmodelled;
        t.skipped_nonterminating += o.skipped_nonterminating;
        t.ref_errors += o.ref_errors;
        t.distinct.extend(o.distinct);
        t.fail_count += o.fail_count;
        t.paren_variants += o.paren_variants;
        t.failures.extend(o.failures);
        for s in o.samples {
            if t.samples.len() < 6 {
                t.samples.push(s);
            }
        }
        for (k, v) in o.by_family {
            *t.by_family.entry(k).or_default() += v;
        }
        for (k, v) in o.unmodelled_reasons {
            *t.unmodelled_reasons.entry(k).or_default() += v;
        }
        for (k, v) in o.masked {
            *t.masked.entry(k).or_default() += v;
        }
    }
    t
}

pub fn run_profile(
    args: &Args,
    cfg: RunCfg,
    generate: &(dyn Fn(Tier, Emit) + Sync),
    classify: &(dyn Fn(&Case, &Verdict, &Obs, Option<&crate::kref::RefObs>) -> Option<String> + Sync),
    extra_check: Option<&(dyn Fn(&Case, &str, &Obs) -> Option<(String, String)> + Sync)>,
    rule: &str,
    assumptions: &[&str],
) -> i32 {
    run_profile_cfgs(args, vec![cfg], generate, classify, extra_check, rule, assumptions)
}

pub fn run_profile_cfgs(
    args: &Args,
    cfgs: Vec<RunCfg>,
    generate: &(dyn Fn(Tier, Emit) + Sync),
    classify: &(dyn Fn(&Case, &Verdict, &Obs, Option<&crate::kref::RefObs>) -> Option<String> + Sync),
    extra_check: Option<&(dyn Fn(&Case, &str, &Obs) -> Option<(String, String)> + Sync)>,
    rule: &str,
    assumptions: &[&str],
) -> i32 {
    if let Some(path) = &args.replay {
        return replay(args, path, &cfgs[0]);
    }
    install_quiet_panic_hook();
    let level = if args.property == "C04" { "fault_enumeration" } else { "exploration" };
    let mut report = Report::new(args, level);
    let nshards = threads() * 4;
    let tier = args.tier;
    let mut all = vec![];
    for cfg in &cfgs {
        let tallies = par_shards_big_stack(nshards, 64 << 20, |shard| {
            let mut r = Runner {
                shard,
                nshards,
                idx: 0,
                cfg: cfg.clone(),
                tally: Tally::default(),
                classify,
                extra_check: extra_check.map(|f| f as &dyn Fn(&Case, &str, &Obs) -> Option<(String, String)>),
                paren_variant_every: tier.pick(3, 1),
            };
            generate(tier, &mut |c| r.take(c));
            r.tally
        });
        all.extend(tallies);
    }
    // Composition pass ("start from non-initial states"): every K-th case A that the reference
    // completes without error, followed in the same program by each of a fixed probe set of
    // cases B — alternately at top level and inside one function body. What A leaves behind
    // (registers, catch points, captured values, iterators) must not change what B does.
    let first_pass_cases: u64 = all.iter().map(|t| t.cases).sum::<u64>() / cfgs.len() as u64;
    let composed_budget: u64 = tier.pick(40_000, 2_500_000);
    let mut composed_rule = String::new();
    if std::env::var("KV_NO_COMPOSE").is_err() {
        let n_probes = tier.pick(24usize, 64usize);
        let a_stride = ((first_pass_cases * n_probes as u64) / composed_budget).max(1) as usize;
        composed_rule = format!(
            "; composition pass: every {a_stride}-th case whose reference run ends without error, followed by each of {n_probes} probe cases (first case of every family + evenly spaced cases), at top level (even index) or inside one function body (odd index)"
        );
        for cfg in &cfgs {
            let tallies = par_shards_big_stack(nshards, 64 << 20, |shard| {
                // probes: deterministic, identical in every shard
                let mut probes: Vec<Vec<X>> = vec![];
                let mut seen_family: HashSet<&'static str> = HashSet::new();
                let spacing = (first_pass_cases as usize / n_probes.max(1)).max(1);
                let mut i = 0usize;
                generate(tier, &mut |c: Case| {
                    let pick = c.shape.is_empty() && (seen_family.insert(c.family) || i % spacing == spacing / 2);
                    if pick && probes.len() < n_probes {
                        probes.push(c.prog.clone());
                    }
                    i += 1;
                });
                let mut r = Runner {
                    shard,
                    nshards,
                    idx: 0,
                    cfg: cfg.clone(),
                    tally: Tally::default(),
                    classify,
                    extra_check: extra_check.map(|f| f as &dyn Fn(&Case, &str, &Obs) -> Option<(String, String)>),
                    paren_variant_every: 0,
                };
                let mut ai = 0usize;
                generate(tier, &mut |a: Case| {
                    let this = ai;
                    ai += 1;
                    if this % a_stride != 0 || !a.shape.is_empty() {
                        return;
                    }
                    // only shards that will run at least one composition of A evaluate A's reference
                    let base = r.idx;
                    let mine = (0..probes.len()).any(|k| (base + k) % nshards == shard);
                    if !mine {
                        r.idx += probes.len();
                        return;
                    }
                    let ra = run_reference(&a.prog, cfg.type_checks, 200_000);
                    if !matches!(ra.outcome, RefOutcome::Ok(_)) {
                        r.idx += probes.len();
                        return;
                    }
                    for (k, b) in probes.iter().enumerate() {
                        let mut prog = a.prog.clone();
                        prog.push(print(s("-- then --")));
                        prog.extend(b.iter().cloned());
                        let prog = if (this + k) % 2 == 1 { wrap_in_function(prog) } else { prog };
                        r.take(Case { family: "composed", prog, shape: vec![] });
                    }
                });
                r.tally
            });
            all.extend(tallies);
        }
    }
    let t = merge_tallies(all);
    if std::env::var("KV_TRIAGE").is_ok() {
        let mut groups: std::collections::BTreeMap<String, Vec<&String>> = Default::default();
        for (key, what, replay) in &t.failures {
            let head = what.split(':').next().unwrap_or("").to_string();
            groups.entry(format!("{} key={:?}", head, key)).or_default().push(replay);
        }
        for (g, v) in &groups {
            println!("=== {g}: {} (of recorded)", v.len());
            let n: usize = std::env::var("KV_TRIAGE").ok().and_then(|s| s.parse().ok()).unwrap_or(2);
            for r in v.iter().take(n) {
                println!("{r}\n---");
            }
        }
    }
    for (key, what, replay) in &t.failures {
        report.fail(key.as_deref(), what.clone(), replay.clone());
    }
    report.cov("evaluations", t.cases);
    report.cov("programs", t.cases);
    report.cov("traces_validated_against_impl", t.compared);
    report.cov("distinct_nontrivial", t.distinct.len() as u64);
    report.cov("compared_against_reference", t.compared);
    report.cov("reference_error_outcomes", t.ref_errors);
    report.cov("skipped_unmodelled_by_reference", t.skipped_unmodelled);
    report.cov("skipped_nonterminating", t.skipped_nonterminating);
    report.cov("failing_cases_total", t.fail_count);
    report.cov("redundant_parentheses_variants_run", t.paren_variants);
    report.cov("by_family", json!(t.by_family));
    report.cov("unmodelled_reasons", json!(t.unmodelled_reasons));
    report.cov("shape_predicate_counts", json!(t.masked));
    report.cov("exhaustive", true);
    report.cov("rule", format!("{rule}{composed_rule}; every generated program is rendered to source, compiled and run on the real koto (fresh runtime) and evaluated by the reference interpreter kref; every third program (thorough: every program) is also run in a rendering with redundant parentheses around every operand, argument, element and assigned value, which must give the same observation; distinct_nontrivial = distinct (stdout, outcome) observations among compared programs"));
    report.cov("samples", json!(t.samples));
    for a in assumptions {
        report.assume(a);
    }
    report.assume("kref (reference interpreter) and the renderer's precedence table are trusted; kref is anchored to the guide by the kref_guide self-test");
    report.finish()
}

fn replay(args: &Args, path: &str, cfg: &RunCfg) -> i32 {
    let text = std::fs::read_to_string(path).unwrap_or_default();
    let src = match text.split_once("--- program ---\n") {
        Some((_, p)) => p.to_string(),
        None => text.clone(),
    };
    let a = run_script(&src, cfg);
    let b = run_script(&src, cfg);
    if a.stdout != b.stdout || a.outcome != b.outcome {
        eprintln!("machinery failure: replay diverged between two runs");
        return 2;
    }
    println!("replay of {path} (property {}):", args.property);
    println!("--- program ---\n{src}--- koto stdout ---\n{}--- koto outcome ---\n{:?}", a.stdout, a.outcome);
    if let Some(h) = text.lines().find(|l| l.starts_with("reference:")) {
        println!("--- expected ---\n{h}");
    }
    0
}

// ---------------------------------------------------------------------------------------------
// Shared building blocks for the families

pub fn traced_fn() -> X {
    // t = |n, v|
    //   print n
    //   v
    assign("t", func(&["n", "v"], vec![print(id("n")), id("v")]))
}

pub fn tcall(n: i64, v: X) -> X {
    callf("t", vec![int(n), v])
}

pub fn wrap_in_function(prog: Vec<X>) -> Vec<X> {
    vec![assign("main_", func(&[], prog)), callf("main_", vec![])]
}

/// All ids read in an expression
pub fn ids_in(e: &X) -> Vec<String> {
    let mut out = vec![];
    fn go(e: &X, out: &mut Vec<String>) {
        match &**e {
            E::Id(n) => out.push(n.to_string()),
            E::Neg(a) | E::Not(a) => go(a, out),
            E::Bin(_, a, b) | E::Index(a, b) => {
                go(a, out);
                go(b, out);
            }
            E::Cmp(v, _) | E::List(v) | E::Tuple(v) => v.iter().for_each(|x| go(x, out)),
            E::Call(f, args, _) => {
                go(f, out);
                for a in args {
                    match a {
                        Arg::E(e) | Arg::Spread(e) => go(e, out),
                    }
                }
            }
            E::Map(es) => es.iter().for_each(|(_, v)| {
                if let Some(v) = v {
                    go(v, out)
                }
            }),
            E::Str(parts) => parts.iter().for_each(|p| {
                if let SP::Hole(h, _) = p {
                    go(h, out)
                }
            }),
            E::If(arms, els) => {
                for (c, b) in arms {
                    go(c, out);
                    b.iter().for_each(|x| go(x, out));
                }
                if let Some(b) = els {
                    b.iter().for_each(|x| go(x, out));
                }
            }
            E::Access(a, _) => go(a, out),
            E::Range(a, b, _) => {
                a.iter().for_each(|x| go(x, out));
                b.iter().for_each(|x| go(x, out));
            }
            _ => {}
        }
    }
    go(e, &mut out);
    out
}
