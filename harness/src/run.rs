//! kv_run: runs scripts on the real koto runtime with captured output, panic capture, tick budget.

use crate::common::*;
use koto::prelude::*;
use koto::runtime::{ErrorKind, KotoFile, KotoRead, KotoWrite, Result as RtResult, VerifVmState, verif_clock};
use std::sync::{Arc, Mutex};
use std::time::Duration;

#[derive(Clone, Default)]
pub struct Capture(pub Arc<Mutex<String>>);

impl KotoFile for Capture {
    fn id(&self) -> KString {
        "_capture_".into()
    }
}
impl KotoRead for Capture {}
impl KotoWrite for Capture {
    fn write(&self, bytes: &[u8]) -> RtResult<()> {
        self.0.lock().unwrap().push_str(&String::from_utf8_lossy(bytes));
        Ok(())
    }
    fn write_line(&self, text: &str) -> RtResult<()> {
        let mut g = self.0.lock().unwrap();
        g.push_str(text);
        g.push('\n');
        Ok(())
    }
    fn flush(&self) -> RtResult<()> {
        Ok(())
    }
}

#[derive(Clone, Debug)]
pub struct RunCfg {
    pub type_checks: bool,
    pub export_top_level: bool,
    pub run_tests: bool,
    pub limit: Option<Duration>,
    pub quantum_ns: u64,
    pub budget_ticks: u64,
    pub script_path: Option<String>,
}

impl Default for RunCfg {
    fn default() -> Self {
        RunCfg {
            type_checks: true,
            export_top_level: false,
            run_tests: false,
            limit: None,
            quantum_ns: 0,
            budget_ticks: 2_000_000,
            script_path: None,
        }
    }
}

#[derive(Clone, Debug, PartialEq, Eq, Hash)]
pub enum Outcome {
    /// Completed; the rendered result value
    Ok(String),
    CompileErr { msg: String, indentation: bool },
    /// `throw`n value (rendered message)
    Thrown(String),
    /// Any other runtime error: short kind name + message (message is never compared)
    Runtime { kind: String, msg: String },
    Timeout,
    Panic(String),
    /// tick budget exhausted (treated as non-termination by the engines)
    Budget,
}

impl Outcome {
    pub fn class(&self) -> &'static str {
        match self {
            Outcome::Ok(_) => "ok",
            Outcome::CompileErr { .. } => "compile-error",
            Outcome::Thrown(_) => "thrown",
            Outcome::Runtime { .. } => "runtime-error",
            Outcome::Timeout => "timeout",
            Outcome::Panic(_) => "panic",
            Outcome::Budget => "budget",
        }
    }
    pub fn is_internal_fault(&self) -> Option<&str> {
        match self {
            Outcome::Runtime { kind, .. }
                if matches!(
                    kind.as_str(),
                    "EmptyCallStack" | "MissingSequenceBuilder" | "MissingStringBuilder" | "UnexpectedError"
                ) =>
            {
                Some(kind)
            }
            _ => None,
        }
    }
}

#[derive(Clone, Debug)]
pub struct Obs {
    pub stdout: String,
    pub outcome: Outcome,
    pub state: Option<VerifVmState>,
    pub ticks: u64,
    pub vnow_ns: u64,
    /// full rendered error (with trace excerpts) if any
    pub error_text: Option<String>,
}

pub fn kind_name(e: &ErrorKind) -> &'static str {
    match e {
        ErrorKind::StringError(_) => "StringError",
        ErrorKind::KotoError { .. } => "KotoError",
        ErrorKind::Timeout(_) => "Timeout",
        ErrorKind::UnableToBorrowObject => "UnableToBorrowObject",
        ErrorKind::UnexpectedArguments { .. } => "UnexpectedArguments",
        ErrorKind::InsufficientArguments { .. } => "InsufficientArguments",
        ErrorKind::TooManyArguments { .. } => "TooManyArguments",
        ErrorKind::UnexpectedType { .. } => "UnexpectedType",
        ErrorKind::UnexpectedObjectType { .. } => "UnexpectedObjectType",
        ErrorKind::Unimplemented { .. } => "Unimplemented",
        ErrorKind::InvalidBinaryOp { .. } => "InvalidBinaryOp",
        ErrorKind::EmptyCallStack => "EmptyCallStack",
        ErrorKind::MissingSequenceBuilder => "MissingSequenceBuilder",
        ErrorKind::MissingStringBuilder => "MissingStringBuilder",
        ErrorKind::UnsupportedPlatform => "UnsupportedPlatform",
        ErrorKind::UnexpectedError => "UnexpectedError",
        ErrorKind::CompileError(_) => "CompileError",
        #[allow(unreachable_patterns)]
        _ => "Other",
    }
}

pub fn classify_rt_error(e: &koto::runtime::Error) -> (Outcome, String) {
    let text = e.to_string();
    let o = match &e.error {
        ErrorKind::KotoError { .. } => {
            // message only (first part before the trace)
            Outcome::Thrown(e.error.to_string())
        }
        ErrorKind::Timeout(_) => Outcome::Timeout,
        ErrorKind::CompileError(ce) => Outcome::CompileErr {
            msg: ce.to_string(),
            indentation: ce.is_indentation_error(),
        },
        other => Outcome::Runtime {
            kind: kind_name(other).to_string(),
            msg: other.to_string(),
        },
    };
    (o, text)
}

pub fn make_koto(cfg: &RunCfg, cap: &Capture) -> Koto {
    let mut settings = KotoSettings::default()
        .with_stdout(cap.clone())
        .with_stderr(cap.clone());
    settings.run_tests = cfg.run_tests;
    if let Some(l) = cfg.limit {
        settings = settings.with_execution_limit(l);
    }
    let koto = Koto::with_settings(settings);
    crate::hostobj::install(koto.prelude());
    koto
}

/// A live instance + its capture, for history-style engines.
pub struct Instance {
    pub koto: Koto,
    pub cap: Capture,
    pub cfg: RunCfg,
}

impl Instance {
    pub fn new(cfg: RunCfg) -> Self {
        let cap = Capture::default();
        let koto = make_koto(&cfg, &cap);
        Instance { koto, cap, cfg }
    }

    pub fn take_stdout(&self) -> String {
        std::mem::take(&mut *self.cap.0.lock().unwrap())
    }

    /// compile + run (through the Koto front-end, so tests/@main handling is the real one).
    pub fn run(&mut self, src: &str) -> Obs {
        let cfg = self.cfg.clone();
        self.run_with(src, &cfg)
    }

    pub fn run_with(&mut self, src: &str, cfg: &RunCfg) -> Obs {
        verif_clock::reset(cfg.quantum_ns, cfg.budget_ticks);
        crate::hostobj::CURRENT_CAP.with(|c| *c.borrow_mut() = Some(self.cap.clone()));
        let koto = &mut self.koto;
        let r = std::panic::catch_unwind(std::panic::AssertUnwindSafe(|| {
            let mut args = CompileArgs::new(src)
                .enable_type_checks(cfg.type_checks)
                .export_top_level_ids(cfg.export_top_level);
            if let Some(p) = &cfg.script_path {
                args = args.script_path(p.as_str());
            }
            // Compile through the loader (same as Koto::compile) to keep the loader error type
            let chunk = koto
                .verif_vm()
                .loader()
                .borrow_mut()
                .compile_script(args.script, args.script_path, args.compiler_settings);
            let chunk = match chunk {
                Ok(c) => c,
                Err(e) => {
                    let text = e.to_string();
                    return (
                        Outcome::CompileErr {
                            msg: text.clone(),
                            indentation: e.is_indentation_error(),
                        },
                        Some(text),
                    );
                }
            };
            // Mirror Koto::run (tests then @main) on the VM to retain the runtime error kind
            let run_tests = cfg.run_tests;
            let vm = koto.verif_vm();
            let result = vm.run(chunk);
            let result = match result {
                Ok(v) => {
                    let mut out = Ok(v);
                    if run_tests {
                        let exports = vm.exports().clone();
                        if let Err(e) = vm.run_tests(exports) {
                            out = Err(e);
                        }
                    }
                    match out {
                        Ok(v) => {
                            if let Some(main) = vm.exports().get_meta_value(&MetaKey::Main) {
                                vm.call_function(main, &[])
                            } else {
                                Ok(v)
                            }
                        }
                        e => e,
                    }
                }
                e => e,
            };
            match result {
                Ok(v) => match vm.value_to_string(&v) {
                    Ok(s) => (Outcome::Ok(s), None),
                    Err(e) => {
                        let (o, t) = classify_rt_error(&e);
                        (o, Some(t))
                    }
                },
                Err(e) => {
                    let (o, t) = classify_rt_error(&e);
                    (o, Some(t))
                }
            }
        }));
        let ticks = verif_clock::ticks();
        let vnow_ns = verif_clock::now_ns();
        let (outcome, error_text, healthy) = match r {
            Ok((o, t)) => (o, t, true),
            Err(payload) => {
                if payload.downcast_ref::<verif_clock::BudgetExhausted>().is_some() {
                    (Outcome::Budget, None, false)
                } else {
                    (Outcome::Panic(take_last_panic()), None, false)
                }
            }
        };
        verif_clock::reset(0, u64::MAX);
        let state = if healthy {
            Some(self.koto.verif_vm().verif_state())
        } else {
            None
        };
        Obs {
            stdout: self.take_stdout(),
            outcome,
            state,
            ticks,
            vnow_ns,
            error_text,
        }
    }
}

/// Runs one script on a fresh instance.
pub fn run_script(src: &str, cfg: &RunCfg) -> Obs {
    let mut inst = Instance::new(cfg.clone());
    inst.run(src)
}

/// runs a closure that returns a short status string, converting panics into "panic:<msg>"
pub fn guarded(f: impl FnOnce() -> String) -> String {
    match std::panic::catch_unwind(std::panic::AssertUnwindSafe(f)) {
        Ok(s) => s,
        Err(p) => {
            if p.downcast_ref::<verif_clock::BudgetExhausted>().is_some() {
                "budget".into()
            } else {
                format!("panic:{}", take_last_panic())
            }
        }
    }
}
