//! C04 families: faults x sites x handler structures x block exits x result uses x enclosing
//! constructions.

use crate::common::Tier;
use crate::kast::*;
use crate::progmc::*;
use std::rc::Rc;

#[derive(Clone)]
struct Fault {
    name: &'static str,
    /// definitions needed before use
    defs: Vec<X>,
    /// the failing expression
    e: X,
    /// type name a typed catch would need ("String" for runtime errors)
    ty: &'static str,
}

fn meta_map(entries: Vec<(MK, X)>) -> X {
    x(E::Map(entries.into_iter().map(|(k, v)| (k, Some(v))).collect()))
}

fn faults() -> Vec<Fault> {
    vec![
        Fault { name: "throw-str", defs: vec![], e: throw(s("boom")), ty: "String" },
        Fault {
            name: "throw-obj",
            defs: vec![assign(
                "mkerr",
                func_inline(
                    &[],
                    meta_map(vec![
                        (MK::Meta("type".into(), None), s("MyErr")),
                        (MK::Meta("display".into(), None), func_inline(&[], s("objerr"))),
                    ]),
                ),
            )],
            e: throw(callf("mkerr", vec![])),
            ty: "MyErr",
        },
        Fault { name: "bad-index", defs: vec![assign("lst", list(vec![int(1)]))], e: index(id("lst"), int(5)), ty: "String" },
        Fault { name: "type-mismatch", defs: vec![], e: bin(Op::Add, int(1), s("a")), ty: "String" },
        Fault { name: "assert", defs: vec![], e: callf("assert", vec![boolean(false)]), ty: "String" },
        Fault {
            name: "too-few-args",
            defs: vec![assign("need1", func_inline(&["q"], id("q")))],
            e: callf("need1", vec![]),
            ty: "String",
        },
        Fault {
            name: "too-many-args",
            defs: vec![assign("need0", func_inline(&[], int(0)))],
            e: callf("need0", vec![int(1)]),
            ty: "String",
        },
        Fault { name: "unknown-id", defs: vec![], e: id("no_such_thing"), ty: "String" },
        Fault { name: "call-null", defs: vec![assign("nul", null())], e: callf("nul", vec![]), ty: "String" },
    ]
}

/// The fault as a statement whose value is discarded (operators with an unused result are
/// executed since koto fix fd65c53).
fn as_stmt(f: &Fault) -> X {
    f.e.clone()
}

/// Sites: given the fault, returns (definitions, expression that triggers it, marker prints
/// expected before the fault are part of the definitions).
fn sites(f: &Fault, tier: Tier) -> Vec<(&'static str, Vec<X>, X)> {
    let fe = f.e.clone();
    let fs = as_stmt(f);
    let mut v: Vec<(&'static str, Vec<X>, X)> = vec![
        ("inline", vec![], fe.clone()),
        ("fn1", vec![assign("d1", func(&[], vec![print(s("in d1")), fe.clone()]))], callf("d1", vec![])),
        (
            "fn3",
            vec![
                assign("d1", func(&[], vec![print(s("in d1")), fe.clone()])),
                assign("d2", func(&[], vec![assign("loc", int(2)), bin(Op::Add, callf("d1", vec![]), id("loc"))])),
                assign("d3", func(&[], vec![list(vec![int(0), callf("d2", vec![])])])),
            ],
            callf("d3", vec![]),
        ),
        (
            "method",
            vec![assign("obj", meta_map(vec![(MK::Id("tag".into()), int(7)), (MK::Id("m".into()), func_inline(&[], fe.clone()))]))],
            method(id("obj"), "m", vec![]),
        ),
        (
            "each-callback",
            vec![assign("cb", func(&["v"], vec![print(tuple(vec![s("cb"), id("v")])), if_(cmp(id("v"), CmpOp::Eq, int(2)), vec![fs.clone()], None), id("v")]))],
            method(method(list(vec![int(1), int(2), int(3)]), "each", vec![id("cb")]), "to_list", vec![]),
        ),
        (
            "fold-callback",
            vec![assign("cb", func(&["acc", "v"], vec![if_(cmp(id("v"), CmpOp::Eq, int(2)), vec![fs.clone()], None), bin(Op::Add, id("acc"), id("v"))]))],
            method(list(vec![int(1), int(2), int(3)]), "fold", vec![int(0), id("cb")]),
        ),
        (
            "generator",
            vec![assign(
                "gn",
                x(E::Func(Rc::new(FuncDef {
                    args: vec![],
                    variadic: false,
                    body: blk(vec![x(E::Yield(int(1))), print(s("gen resumed")), fs.clone(), x(E::Yield(int(2)))]),
                    is_gen: true,
                    out_hint: None,
                    inline: false,
                }))),
            )],
            method(callf("gn", vec![]), "to_tuple", vec![]),
        ),
        (
            "meta-add",
            vec![assign("ob", meta_map(vec![(MK::Meta("+".into(), None), func(&["rhs"], vec![print(s("in @+")), fe.clone()]))]))],
            bin(Op::Add, id("ob"), int(1)),
        ),
        (
            "meta-add-rhs-has-reversed-op",
            vec![
                assign("ob", meta_map(vec![(MK::Meta("+".into(), None), func(&["rhs"], vec![print(s("in @+")), fe.clone()]))])),
                assign("rb", meta_map(vec![(MK::Meta("r+".into(), None), func(&["lhs"], vec![print(s("in @r+")), s("from r+")]))])),
            ],
            bin(Op::Add, id("ob"), id("rb")),
        ),
        (
            "meta-ne-derived",
            vec![assign("oe_", meta_map(vec![(MK::Meta("==".into(), None), func(&["rhs"], vec![print(s("in @==")), fs.clone(), boolean(true)]))]))],
            cmp(id("oe_"), CmpOp::Ne, int(1)),
        ),
        (
            "meta-ge-derived",
            vec![assign("ol_", meta_map(vec![(MK::Meta("<".into(), None), func(&["rhs"], vec![print(s("in @<")), fs.clone(), boolean(true)]))]))],
            cmp(id("ol_"), CmpOp::Ge, int(1)),
        ),
        (
            "meta-eq-direct",
            vec![assign("oe_", meta_map(vec![(MK::Meta("==".into(), None), func(&["rhs"], vec![print(s("in @==")), fs.clone(), boolean(true)]))]))],
            cmp(id("oe_"), CmpOp::Eq, int(1)),
        ),
        ("list-elem", vec![], list(vec![int(0), fe.clone(), int(2)])),
        ("str-hole", vec![], interp(vec![lit("a"), hole(int(1)), lit("b"), hole(fe.clone()), lit("c")])),
        (
            "call-arg",
            vec![assign("f3", func_inline(&["a", "b", "c"], tuple(vec![id("a"), id("c")])))],
            callf("f3", vec![int(0), fe.clone(), int(2)]),
        ),
        ("map-value", vec![], map(vec![("a", int(1)), ("b", fe.clone())])),
    ];
    // overridden operators that native code (not an instruction) invokes
    v.push((
        "meta-display",
        vec![assign("od", meta_map(vec![(MK::Meta("display".into(), None), func(&[], vec![print(s("in @display")), fs.clone(), s("shown")]))]))],
        interp(vec![hole(id("od"))]),
    ));
    v.push((
        "meta-lt-under-sort",
        vec![assign("ol_", meta_map(vec![(MK::Meta("<".into(), None), func(&["rhs"], vec![print(s("in @<")), fs.clone(), boolean(true)]))]))],
        method(list(vec![id("ol_"), id("ol_")]), "sort", vec![]),
    ));
    {
        v.push((
            "meta-display-in-list",
            vec![assign("od", meta_map(vec![(MK::Meta("display".into(), None), func(&[], vec![print(s("in @display")), fs.clone(), s("shown")]))]))],
            interp(vec![hole(list(vec![int(1), id("od")]))]),
        ));
    }
    if tier == Tier::Thorough {
        v.push((
            "meta-display-in-map-in-tuple",
            vec![assign("od", meta_map(vec![(MK::Meta("display".into(), None), func(&[], vec![print(s("in @display")), fs.clone(), s("shown")]))]))],
            interp(vec![hole(tuple(vec![map(vec![("k", id("od"))]), int(1)]))]),
        ));
        v.push((
            "keep-callback",
            vec![assign("cb", func(&["v"], vec![if_(cmp(id("v"), CmpOp::Eq, int(2)), vec![fs.clone()], None), boolean(true)]))],
            method(method(tuple(vec![int(1), int(2), int(3)]), "keep", vec![id("cb")]), "to_tuple", vec![]),
        ));
    }
    v
}

fn catch_arm(name: &str, ty: Option<&str>, body: Vec<X>) -> CatchArm {
    CatchArm {
        pat: Pat::Id(name.into(), ty.map(|t| Hint { name: t.into(), optional: false })),
        body: blk(body),
    }
}

/// Handler structures around a statement list `body` (the last statement is the fault trigger).
/// Returns (name, expression)
fn handlers(body: Vec<X>, f: &Fault, tier: Tier) -> Vec<(&'static str, X)> {
    let caught = |tag: &str| -> Vec<X> {
        // print the thrown value only for thrown strings/objects (runtime messages are not compared)
        if f.name.starts_with("throw") {
            vec![print(interp(vec![lit(tag), lit(": "), hole(id("e"))])), s("cv")]
        } else {
            vec![print(s(tag)), s("cv")]
        }
    };
    let other_ty = if f.ty == "String" { "Number" } else { "String" };
    let mut v = vec![
        ("try-catch", x(E::Try(blk(body.clone()), vec![catch_arm("e", None, caught("caught"))], None))),
        (
            "try-catch-finally",
            x(E::Try(blk(body.clone()), vec![catch_arm("e", None, caught("caught"))], Some(blk(vec![print(s("finally")), s("fv")])))),
        ),
        (
            "typed-match-first",
            x(E::Try(
                blk(body.clone()),
                vec![catch_arm("e", Some(f.ty), caught("typed")), catch_arm("e", None, caught("untyped"))],
                None,
            )),
        ),
        (
            "typed-miss-then-match",
            x(E::Try(
                blk(body.clone()),
                vec![
                    catch_arm("e", Some(other_ty), caught("wrong")),
                    catch_arm("e", Some(f.ty), caught("typed")),
                    catch_arm("e", None, caught("untyped")),
                ],
                Some(blk(vec![print(s("finally"))])),
            )),
        ),
        (
            // the argument of a catch block that does not accept the error names a live variable:
            // the variable keeps its value
            "typed-miss-shadowing-live-variable",
            x(E::Try(
                blk(body.clone()),
                vec![catch_arm("sv", Some(other_ty), vec![print(s("wrong")), s("cv")]), catch_arm("sl", Some(other_ty), vec![print(s("wrong2")), s("cv")]), catch_arm("e", None, caught("untyped"))],
                Some(blk(vec![print(s("finally"))])),
            )),
        ),
        (
            "typed-miss-untyped",
            x(E::Try(
                blk(body.clone()),
                vec![catch_arm("e", Some(other_ty), caught("wrong")), catch_arm("e", None, caught("untyped"))],
                None,
            )),
        ),
        (
            "nested-inner-catches",
            x(E::Try(
                blk(vec![
                    print(s("outer try")),
                    x(E::Try(blk(body.clone()), vec![catch_arm("e", None, caught("inner"))], Some(blk(vec![print(s("inner finally"))])))),
                    print(s("outer continues")),
                ]),
                vec![catch_arm("e", None, caught("outer"))],
                None,
            )),
        ),
        (
            "nested-inner-rethrows",
            x(E::Try(
                blk(vec![x(E::Try(
                    blk(body.clone()),
                    vec![catch_arm("e", None, vec![print(s("inner")), throw(s("second"))])],
                    Some(blk(vec![print(s("inner finally"))])),
                ))]),
                vec![catch_arm("e2", None, vec![print(interp(vec![lit("outer: "), hole(id("e2"))])), s("ov")])],
                Some(blk(vec![print(s("outer finally"))])),
            )),
        ),
    ];
    if tier == Tier::Thorough {
        v.push((
            "nested-inner-typed-miss",
            x(E::Try(
                blk(vec![x(E::Try(
                    blk(body.clone()),
                    vec![catch_arm("e", Some(other_ty), caught("inner-wrong")), catch_arm("e", Some(other_ty), caught("inner-wrong2")), catch_arm("e", None, vec![print(s("inner untyped")), throw(s("again"))])],
                    None,
                ))]),
                vec![catch_arm("e2", None, vec![print(s("outer")), s("ov")])],
                None,
            )),
        ));
    }
    v
}

fn state_print() -> X {
    print(tuple(vec![id("sv"), id("sl"), id("sm")]))
}

fn spine(defs: Vec<X>, stmt: Vec<X>) -> Vec<X> {
    let mut p = vec![assign("sv", int(1)), assign("sl", list(vec![int(1)])), assign("sm", map(vec![("k", int(1))]))];
    p.extend(defs);
    p.push(print(s("start")));
    p.extend(stmt);
    p.push(print(s("after")));
    p.push(state_print());
    p
}

pub fn generate(tier: Tier, emit: Emit) {
    let fs = faults();
    for f in &fs {
        for (site_name, site_defs, trigger) in sites(f, tier) {
            let mut defs = f.defs.clone();
            defs.extend(site_defs);
            // the try body mutates state before the fault: it must stay as it was at the throw
            let body = vec![
                x(E::OpAssign(Op::Add, Tgt::Id("sv".into()), int(1))),
                method(id("sl"), "push", vec![int(2)]),
                x(E::Assign(Tgt::Access(id("sm"), "k".into()), int(2))),
                assign("tv", trigger.clone()),
                print(s("not reached")),
            ];
            // no handler: uncaught error
            emit(Case { family: "uncaught", prog: spine(defs.clone(), body.clone()), shape: vec![] });
            for (hname, h) in handlers(body.clone(), f, tier) {
                let _ = (site_name, hname);
                for u in 0..4 {
                    let stmt = match u {
                        0 => vec![h.clone()],
                        1 => vec![assign("r", h.clone()), print(id("r"))],
                        2 => vec![assign("r", s("old")), assign("r", h.clone()), print(id("r"))],
                        _ => vec![assign("hf", func(&[], vec![assign("sv", int(10)), h.clone()])), print(callf("hf", vec![]))],
                    };
                    if tier == Tier::Quick && u == 3 && !matches!(site_name, "inline" | "fn1" | "str-hole") {
                        continue;
                    }
                    let shape = if hname == "nested-inner-rethrows" { vec!["finally-with-nonlocal-exit"] } else { vec![] };
                    emit(Case { family: "handled", prog: spine(defs.clone(), stmt), shape });
                }
            }
            // the failing expression used directly as a value in a try (result register paths)
            let h = x(E::Try(blk(vec![trigger.clone()]), vec![catch_arm("e", None, vec![s("cv")])], None));
            emit(Case { family: "try-value", prog: spine(defs.clone(), vec![assign("r", h), print(id("r"))]), shape: vec![] });
        }
    }
    gen_exits(tier, emit);
    gen_exits_nested(tier, emit);
    gen_generator_after_error(tier, emit);
    gen_enclosing(tier, emit);
    gen_no_error_paths(tier, emit);
}

/// try / catch / finally blocks left by return, break, continue, or a second throw
fn gen_exits(_tier: Tier, emit: Emit) {
    // exit statements usable inside a function-in-a-loop context
    let exits: Vec<(&'static str, Vec<X>)> = vec![
        ("fall", vec![s("fell")]),
        ("return", vec![ret(Some(s("ret")))]),
        ("break", vec![x(E::Break(None))]),
        ("continue", vec![x(E::Continue)]),
        ("throw", vec![throw(s("second"))]),
    ];
    for throws in [false, true] {
        for (tn, texit) in &exits {
            for (cn, cexit) in &exits {
                for with_finally in [false, true] {
                    for (fnm, fexit) in &exits {
                        for after_loop_throw in [false, true] {
                            if !with_finally && *fnm != "fall" {
                                continue;
                            }
                            if matches!(*fnm, "throw") {
                                continue; // a throwing finally replaces the error: not specified by the guide
                            }
                            let mut try_body = vec![print(tuple(vec![s("try"), id("i")]))];
                            if throws {
                                try_body.push(if_(cmp(id("i"), CmpOp::Eq, int(1)), vec![throw(s("first"))], None));
                            }
                            try_body.extend(texit.clone());
                            let mut catch_body = vec![print(interp(vec![lit("catch "), hole(id("e"))]))];
                            catch_body.extend(cexit.clone());
                            let fin = if with_finally {
                                let mut b = vec![print(s("finally"))];
                                b.extend(fexit.clone());
                                Some(blk(b))
                            } else {
                                None
                            };
                            let t = x(E::Try(blk(try_body), vec![catch_arm("e", None, catch_body)], fin));
                            // inside a loop inside a function; an outer handler observes escaping errors
                            let mut fbody = vec![
                                x(E::For(
                                    vec![Pat::Id("i".into(), None)],
                                    x(E::Range(Some(int(0)), Some(int(3)), false)),
                                    blk(vec![t.clone(), print(tuple(vec![s("after try"), id("i")]))]),
                                )),
                                print(s("loop done")),
                            ];
                            if after_loop_throw {
                                // an unrelated later error in the same frame must not be caught
                                // by a handler that was left through break/continue
                                fbody.push(throw(s("after loop")));
                            }
                            fbody.push(s("fn end"));
                            let p = vec![
                                assign("hf", func(&[], fbody)),
                                x(E::Try(
                                    blk(vec![print(tuple(vec![s("result"), callf("hf", vec![])]))]),
                                    vec![catch_arm("oe", None, vec![print(interp(vec![lit("escaped "), hole(id("oe"))]))])],
                                    None,
                                )),
                                print(s("end")),
                            ];
                            let mut shape = vec![];
                            let nonlocal_try = matches!(*tn, "return" | "break" | "continue");
                            let nonlocal_catch = (throws || *tn == "throw") && matches!(*cn, "return" | "break" | "continue" | "throw");
                            if with_finally && (nonlocal_try || nonlocal_catch) {
                                shape.push("finally-with-nonlocal-exit");
                            }
                            if matches!(*tn, "break" | "continue") && (after_loop_throw || throws) {
                                shape.push("loop-exit-from-try-then-later-error");
                            }
                            emit(Case { family: "exits", prog: p, shape });
                        }
                    }
                }
            }
        }
    }
}

/// loops with early exits (directly, or through an inner try) nested inside the try / catch /
/// finally block of an outer try, followed by a later error in the same block: the exit must
/// clear exactly the catch points of the try blocks it leaves
fn gen_exits_nested(_tier: Tier, emit: Emit) {
    let exits: Vec<(&'static str, X)> = vec![("break", x(E::Break(None))), ("continue", x(E::Continue)), ("return", ret(Some(s("ret"))))];
    for (_en, exit) in &exits {
        let step = |tag: &str| -> Vec<X> { vec![print(tuple(vec![s(tag), id("i")])), if_(cmp(id("i"), CmpOp::Eq, int(0)), vec![exit.clone()], None), print(tuple(vec![s("rest"), id("i")]))] };
        let for_ = |body: Vec<X>| x(E::For(vec![Pat::Id("i".into(), None)], x(E::Range(Some(int(0)), Some(int(2)), false)), blk(body)));
        let inner_catch = |n: &str| vec![catch_arm(n, None, vec![print(interp(vec![lit("inner catch "), hole(id(n))]))])];
        let structures: Vec<(&'static str, Vec<X>)> = vec![
            ("loop", vec![for_(step("loop"))]),
            ("try-loop", vec![x(E::Try(blk(vec![for_(step("try-loop"))]), inner_catch("e2"), None))]),
            ("loop-try", vec![for_(vec![x(E::Try(blk(step("loop-try")), inner_catch("e2"), None)), print(s("after inner try"))])]),
            ("loop-try-finally", vec![for_(vec![x(E::Try(blk(step("loop-try-finally")), inner_catch("e2"), Some(blk(vec![print(s("inner finally"))]))))])]),
            ("try-loop-try", vec![x(E::Try(blk(vec![for_(vec![x(E::Try(blk(step("try-loop-try")), inner_catch("e3"), None))])]), inner_catch("e2"), None))]),
            ("loop-try-throwing", vec![for_(vec![x(E::Try(blk(vec![print(tuple(vec![s("lt"), id("i")])), throw(s("in loop"))]), vec![catch_arm("e2", None, vec![print(s("inner catch")), if_(cmp(id("i"), CmpOp::Eq, int(0)), vec![exit.clone()], None)])], None))])]),
        ];
        for (_sn, st) in &structures {
            for place in ["try", "catch", "finally"] {
                for with_finally in [false, true] {
                    if place == "finally" && !with_finally {
                        continue;
                    }
                    for later_throw in [false, true] {
                        if place == "finally" && later_throw {
                            continue; // a throwing finally block is not specified
                        }
                        let mut placed = st.clone();
                        placed.push(print(s("after structure")));
                        if later_throw {
                            placed.push(throw(s("second")));
                        }
                        let mut try_body = vec![print(s("try"))];
                        let mut catch_body = vec![print(interp(vec![lit("catch "), hole(id("e"))]))];
                        let mut fin_body = vec![print(s("finally"))];
                        match place {
                            "try" => try_body.extend(placed),
                            "catch" => {
                                try_body.push(throw(s("first")));
                                catch_body.extend(placed);
                            }
                            _ => fin_body.extend(placed),
                        }
                        let t = x(E::Try(blk(try_body), vec![catch_arm("e", None, catch_body)], if with_finally { Some(blk(fin_body)) } else { None }));
                        let fbody = vec![t, print(s("after outer try")), throw(s("third"))];
                        let p = vec![
                            assign("hf", func(&[], fbody)),
                            x(E::Try(
                                blk(vec![print(tuple(vec![s("result"), callf("hf", vec![])]))]),
                                vec![catch_arm("oe", None, vec![print(interp(vec![lit("escaped "), hole(id("oe"))]))])],
                                None,
                            )),
                            print(s("end")),
                        ];
                        let mut shape = vec![];
                        if with_finally && place == "catch" && later_throw {
                            shape.push("finally-with-nonlocal-exit");
                        }
                        emit(Case { family: "exits-nested", prog: p, shape });
                    }
                }
            }
        }
    }
}

/// a generator instance that is kept after an error escaped from its body: the error ended it,
/// whoever advances it again (next, for, to_tuple; same function or an outer one) finds it finished
fn gen_generator_after_error(_tier: Tier, emit: Emit) {
    for f in faults() {
        let gen_body = vec![x(E::Yield(int(1))), print(s("gen resumed")), as_stmt(&f), print(s("after fault")), x(E::Yield(int(2)))];
        let gn = x(E::Func(Rc::new(FuncDef { args: vec![], variadic: false, body: blk(gen_body), is_gen: true, out_hint: None, inline: false })));
        let advance = |n: usize| -> Vec<X> { (0..n).map(|_| print(method(id("g"), "next", vec![]))).collect() };
        let afters: Vec<(&'static str, Vec<X>)> = vec![
            ("next", advance(2)),
            ("for", vec![x(E::For(vec![Pat::Id("v".into(), None)], id("g"), blk(vec![print(tuple(vec![s("for"), id("v")]))])))]),
            ("to_tuple", vec![print(method(id("g"), "to_tuple", vec![]))]),
        ];
        for (_an, after) in &afters {
            for catch_in in ["same-frame", "outer-function", "for-loop-in-try"] {
                let mut p = f.defs.clone();
                p.push(assign("gn", gn.clone()));
                p.push(assign("g", callf("gn", vec![])));
                match catch_in {
                    "same-frame" => {
                        p.extend(advance(1));
                        p.push(x(E::Try(blk(advance(1)), vec![catch_arm("e", None, vec![print(s("caught"))])], None)));
                    }
                    "outer-function" => {
                        p.push(assign("adv", func(&[], vec![method(id("g"), "next", vec![])])));
                        p.push(print(callf("adv", vec![])));
                        p.push(x(E::Try(blk(vec![print(callf("adv", vec![]))]), vec![catch_arm("e", None, vec![print(s("caught"))])], None)));
                    }
                    _ => {
                        p.push(x(E::Try(
                            blk(vec![x(E::For(vec![Pat::Id("v".into(), None)], id("g"), blk(vec![print(tuple(vec![s("first for"), id("v")]))])))]),
                            vec![catch_arm("e", None, vec![print(s("caught"))])],
                            None,
                        )));
                    }
                }
                p.push(print(s("advancing again")));
                p.extend(after.clone());
                p.push(print(s("end")));
                emit(Case { family: "generator-after-error", prog: p, shape: vec![] });
            }
        }
    }
}

/// errors caught inside a callee while the caller has an open string / list / call construction
fn gen_enclosing(_tier: Tier, emit: Emit) {
    let inner_constructions: Vec<(&'static str, X)> = vec![
        ("in-string", interp(vec![lit("in"), hole(throw(s("x"))), lit("out")])),
        ("in-list", list(vec![int(1), throw(s("x")), int(3)])),
        ("in-tuple", tuple(vec![int(1), throw(s("x"))])),
        ("in-map", map(vec![("a", int(1)), ("b", throw(s("x")))])),
        ("in-call", callf("three", vec![int(1), throw(s("x")), int(3)])),
        ("plain", throw(s("x"))),
        // the error leaves a nested run driven by native code before it reaches the callee's try
        ("via-each", method(method(list(vec![int(1), int(2)]), "each", vec![func_inline(&["v"], throw(s("x")))]), "to_list", vec![])),
        ("via-fold", method(tuple(vec![int(1), int(2)]), "fold", vec![int(0), func_inline(&["a", "v"], throw(s("x")))])),
        ("via-keep-in-string", interp(vec![lit("k"), hole(method(method(list(vec![int(1)]), "keep", vec![func_inline(&["v"], throw(s("x")))]), "to_tuple", vec![]))])),
        ("via-display-in-list", list(vec![int(1), interp(vec![hole(list(vec![meta_map(vec![(MK::Meta("display".into(), None), func_inline(&[], throw(s("x"))))])]))])])),
        ("via-sort-compare", tuple(vec![int(1), method(list(vec![id("cmpo"), id("cmpo")]), "sort", vec![])])),
    ];
    for (iname, inner) in &inner_constructions {
        let g = func(
            &[],
            vec![x(E::Try(blk(vec![inner.clone()]), vec![catch_arm("e", None, vec![s("c")])], None))],
        );
        let outers: Vec<(&'static str, X)> = vec![
            ("out-string", interp(vec![lit("pre-"), hole(callf("g", vec![])), lit("-post")])),
            ("out-list", list(vec![int(0), callf("g", vec![]), int(9)])),
            ("out-tuple", tuple(vec![int(0), callf("g", vec![]), int(9)])),
            ("out-map", map(vec![("p", int(0)), ("q", callf("g", vec![]))])),
            ("out-call", callf("three", vec![int(0), callf("g", vec![]), int(9)])),
            ("out-nested", list(vec![interp(vec![lit("s"), hole(callf("g", vec![]))]), tuple(vec![callf("g", vec![]), int(1)])])),
        ];
        for (oname, outer) in outers {
            let _ = (iname, oname);
            let p = vec![
                assign("three", func_inline(&["a", "b", "c"], tuple(vec![id("a"), id("b"), id("c")]))),
                assign("cmpo", meta_map(vec![(MK::Meta("<".into(), None), func_inline(&["o"], throw(s("x"))))])),
                assign("g", g.clone()),
                print(outer.clone()),
                // and the same construction once more (a leaked builder corrupts the next use)
                print(outer.clone()),
                print(s("end")),
            ];
            emit(Case { family: "enclosing", prog: p, shape: vec!["catch-inside-open-construction"] });
            // same-frame variant: try directly around the inner construction, then build again
            let p = vec![
                assign("three", func_inline(&["a", "b", "c"], tuple(vec![id("a"), id("b"), id("c")]))),
                assign("cmpo", meta_map(vec![(MK::Meta("<".into(), None), func_inline(&["o"], throw(s("x"))))])),
                x(E::Try(blk(vec![print(inner.clone())]), vec![catch_arm("e", None, vec![print(s("c"))])], None)),
                assign("g", func_inline(&[], s("ok"))),
                print(outer),
                print(s("end")),
            ];
            emit(Case { family: "enclosing-same-frame", prog: p, shape: vec!["catch-inside-open-construction"] });
        }
    }
}

/// handlers whose try block does not fail: finally still runs, values come from try/finally
fn gen_no_error_paths(_tier: Tier, emit: Emit) {
    for with_catch_value in [false, true] {
        for with_finally in [0usize, 1, 2] {
            for u in 0..3 {
                let fin = match with_finally {
                    0 => None,
                    1 => Some(blk(vec![print(s("finally"))])),
                    _ => Some(blk(vec![print(s("finally")), s("fv")])),
                };
                let t = x(E::Try(
                    blk(vec![print(s("try")), s("tv")]),
                    vec![catch_arm("e", None, if with_catch_value { vec![s("cv")] } else { vec![print(s("c"))] })],
                    fin,
                ));
                let stmt = match u {
                    0 => vec![t],
                    1 => vec![assign("r", t), print(id("r"))],
                    _ => vec![assign("hf", func(&[], vec![t])), print(callf("hf", vec![]))],
                };
                emit(Case { family: "no-error", prog: spine(vec![], stmt), shape: vec![] });
            }
        }
    }
}

pub fn classify(case: &Case, v: &Verdict, _real: &crate::run::Obs, rf: Option<&crate::kref::RefObs>) -> Option<String> {
    let has = |s: &str| case.shape.iter().any(|x| *x == s);
    if has("finally-with-nonlocal-exit") && v.class == "wrong-output" {
        // the reference prints a 'finally' marker that koto does not
        if let Some(rf) = rf {
            if rf.stdout.contains("finally") {
                return Some("finally-skipped-on-nonlocal-exit".into());
            }
        }
    }
    if has("loop-exit-from-try-then-later-error") && matches!(v.class, "wrong-output" | "internal-fault" | "spurious-error" | "non-termination") {
        return Some("stale-catch-after-loop-exit".into());
    }
    None
}

/// H1: after the run all internal stacks must be empty
pub fn state_check(_case: &Case, _src: &str, real: &crate::run::Obs) -> Option<(String, String)> {
    let st = real.state.as_ref()?;
    if st.sequence_builders != 0 || st.string_builders != 0 || st.call_stack != 0 || st.registers != 0 {
        return Some((
            "residue".to_string(),
            format!(
                "after the run the VM still holds execution state: registers={} call_stack={} sequence_builders={} string_builders={}",
                st.registers, st.call_stack, st.sequence_builders, st.string_builders
            ),
        ));
    }
    None
}
