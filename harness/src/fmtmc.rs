//! C11 — the formatter preserves meaning, keeps comments, is idempotent and total.
//!
//! Every parseable program of the input set (repository corpus + documentation examples, their
//! one-token delete / duplicate / swap neighbourhood, every generated program of the progmc
//! families, Unicode-laden snippets) x a grid of formatter options is formatted by the real
//! formatter; the output must (1) exist (no panic, no error), (2) compile to the same instruction
//! bytes and constants as the input (identical compiled behaviour), (3) contain the same comments
//! in the same order, (4) be a fixed point of the formatter under the same options.

use crate::common::*;
use crate::progmc::Case;
use koto_format::FormatOptions;
use serde_json::json;
use std::collections::{BTreeMap, BTreeSet};

pub fn option_grid(tier: Tier) -> Vec<FormatOptions> {
    let mut v = vec![];
    match tier {
        Tier::Quick => {
            v.push(FormatOptions::default());
            v.push(FormatOptions { line_length: 40, indent_width: 4, chain_break_threshold: 1, always_indent_arms: true });
            v.push(FormatOptions { line_length: 20, indent_width: 1, chain_break_threshold: 0, always_indent_arms: false });
            v.push(FormatOptions { line_length: 8, indent_width: 2, chain_break_threshold: 2, always_indent_arms: true });
        }
        Tier::Thorough => {
            // the quick tier's four combinations first (the reduced grid takes a prefix)
            v.extend(option_grid(Tier::Quick));
            for line_length in [100u8, 40, 20, 8] {
                for indent_width in [2u8, 4, 1] {
                    for chain_break_threshold in [4u8, 1, 0] {
                        for always_indent_arms in [false, true] {
                            let o = FormatOptions { line_length, indent_width, chain_break_threshold, always_indent_arms };
                            if !v.iter().any(|x| opts_text(x) == opts_text(&o)) {
                                v.push(o);
                            }
                        }
                    }
                }
            }
        }
    }
    v
}

pub fn comments_of(src: &str) -> Vec<String> {
    koto_lexer::Lexer::new(src)
        .take_while(|t| t.token != koto_lexer::Token::Error)
        .filter(|t| matches!(t.token, koto_lexer::Token::CommentSingle | koto_lexer::Token::CommentMulti))
        .map(|t| {
            // indentation inside a multi-line comment and trailing blanks are layout
            src[t.source_bytes.clone()].lines().map(|l| l.trim()).collect::<Vec<_>>().join("\n")
        })
        .collect()
}

pub fn parses(src: &str) -> Result<bool, String> {
    match std::panic::catch_unwind(|| koto_parser::Parser::parse(src).is_ok()) {
        Ok(b) => Ok(b),
        Err(_) => Err(take_last_panic()),
    }
}

/// instruction bytes + constants (positions / debug info excluded)
pub fn code_of(src: &str) -> Result<Result<(Vec<u8>, Vec<String>), String>, String> {
    match crate::codemc::compile(src, true, false) {
        Ok(Ok(c)) => Ok(Ok((c.bytes.to_vec(), c.constants.iter().map(|k| format!("{k:?}")).collect()))),
        Ok(Err(e)) => Ok(Err(e)),
        Err(p) => Err(p),
    }
}

fn opts_text(o: &FormatOptions) -> String {
    format!("line_length={} indent_width={} chain_break_threshold={} always_indent_arms={}", o.line_length, o.indent_width, o.chain_break_threshold, o.always_indent_arms)
}

pub struct Tally {
    pub evals: u64,
    pub parseable: u64,
    pub outcomes: BTreeSet<u64>,
    pub per_source: BTreeMap<String, u64>,
    pub sigs: BTreeMap<String, u64>,
    pub fails: Vec<(Option<String>, String, String)>,
    /// further cases of classes that carry a finding key (counted, not stored)
    pub extra_known: BTreeMap<String, u64>,
}

impl Tally {
    pub fn new() -> Self {
        Tally { evals: 0, parseable: 0, outcomes: BTreeSet::new(), per_source: BTreeMap::new(), sigs: BTreeMap::new(), fails: vec![], extra_known: BTreeMap::new() }
    }
    fn fail(&mut self, label: &str, class: &str, detail: String, src: &str, opts: &FormatOptions, formatted: Option<&str>) {
        let key = classify(class, src, opts);
        let sig = format!("{label}|{class}|{key:?}");
        let n = self.sigs.entry(sig).or_insert(0);
        *n += 1;
        if *n > 12 && key.is_some() {
            *self.extra_known.entry(key.clone().unwrap()).or_insert(0) += 1;
            return;
        }
        if *n <= 12 {
            let replay = if *n <= 12 {
                format!("class: {class}\noptions: {}\n{detail}\n--- formatted ---\n{}\n--- program ---\n{src}", opts_text(opts), formatted.unwrap_or("<none>"))
            } else {
                String::new()
            };
            let head: String = src.lines().next().unwrap_or("").chars().take(60).collect();
            self.fails.push((key, format!("[{label}] {class}: {detail} ({}; program starts {head:?})", opts_text(opts)), replay));
        }
    }
}

/// token-level shape predicates of the source
fn source_shapes(src: &str) -> (bool, bool) {
    use koto_lexer::Token as T;
    let toks: Vec<T> = koto_lexer::Lexer::new(src).take_while(|t| t.token != T::Error).map(|t| t.token).collect();
    let mut stray_comma = false;
    let mut range_of_range = false;
    for (i, t) in toks.iter().enumerate() {
        let mut j = i + 1;
        let mut saw_space = false;
        while j < toks.len() && matches!(toks[j], T::Whitespace | T::NewLine | T::CommentSingle | T::CommentMulti) {
            saw_space = true;
            j += 1;
        }
        let Some(next) = toks.get(j) else { continue };
        match t {
            T::Comma => {
                // a comma that is not followed by the start of an expression ends a paren-free call
                // in the middle of a larger expression
                let binary = matches!(
                    next,
                    T::Comma | T::Add | T::Multiply | T::Divide | T::Remainder | T::Power | T::Equal | T::NotEqual | T::Less | T::LessOrEqual | T::Greater | T::GreaterOrEqual | T::And | T::Or | T::Arrow | T::Assign | T::AddAssign | T::SubtractAssign | T::MultiplyAssign | T::DivideAssign | T::RemainderAssign | T::PowerAssign | T::Dot
                );
                let spaced_minus = matches!(next, T::Subtract) && toks.get(j + 1).is_some_and(|n| matches!(n, T::Whitespace | T::NewLine));
                if binary || spaced_minus {
                    stray_comma = true;
                }
            }
            T::Range | T::RangeInclusive => {
                if matches!(next, T::Range | T::RangeInclusive | T::Dot) || (saw_space && matches!(next, T::Ellipsis)) {
                    range_of_range = true;
                }
            }
            _ => {}
        }
        let _ = saw_space;
    }
    (stray_comma, range_of_range)
}

fn needs_line_breaks(src: &str, opts: &FormatOptions) -> bool {
    use unicode_width::UnicodeWidthStr;
    // the unbroken rendering: no line-length pressure and no threshold-driven chain breaking
    let wide = FormatOptions { line_length: 255, chain_break_threshold: 0, ..*opts };
    let src2 = src.to_string();
    let too_wide = match std::panic::catch_unwind(move || koto_format::format(&src2, wide)) {
        Ok(Ok(text)) => text.lines().any(|l| l.width() + 1 > opts.line_length as usize),
        _ => false,
    };
    if too_wide {
        return true;
    }
    // or the formatter demonstrably broke a line because of the line length: the output differs
    // from the output with the same options and no line-length pressure
    let relaxed = FormatOptions { line_length: 255, ..*opts };
    let (a, b) = (src.to_string(), src.to_string());
    let o = *opts;
    let with = std::panic::catch_unwind(move || koto_format::format(&a, o).ok()).ok().flatten();
    let without = std::panic::catch_unwind(move || koto_format::format(&b, relaxed).ok()).ok().flatten();
    with.is_some() && with != without
}

fn classify(class: &str, src: &str, opts: &FormatOptions) -> Option<String> {
    if !matches!(class, "not-idempotent" | "output-does-not-compile" | "output-does-not-parse" | "instructions-changed" | "constants-changed" | "comments-changed") {
        return None;
    }
    if src.contains("#[fmt:skip]") && class != "comments-changed" && class != "constants-changed" {
        return Some(format!("fmt-skip-before-compound-node:{class}"));
    }
    if src.contains("#-") && class == "not-idempotent" {
        return Some("inline-comment-moves:not-idempotent".into());
    }
    let (stray_comma, range_of_range) = source_shapes(src);
    if stray_comma {
        return Some("stray-comma-ends-paren-free-call".into());
    }
    let _ = range_of_range; // printed with a separating space since koto fix (was a known finding)
    if needs_line_breaks(src, opts) {
        return Some(format!("line-breaking:{class}"));
    }
    // chains broken because of chain_break_threshold (not because of the line length)
    if opts.chain_break_threshold != 0 {
        let relaxed = FormatOptions { chain_break_threshold: 0, ..*opts };
        let (a, b) = (src.to_string(), src.to_string());
        let o = *opts;
        let with = std::panic::catch_unwind(move || koto_format::format(&a, o).ok()).ok().flatten();
        let without = std::panic::catch_unwind(move || koto_format::format(&b, relaxed).ok()).ok().flatten();
        if with.is_some() && with != without {
            return Some(format!("chain-breaking:{class}"));
        }
    }
    // token-neighbourhood oddities
    {
        use koto_lexer::Token as T;
        let toks: Vec<T> = koto_lexer::Lexer::new(src).take_while(|t| t.token != T::Error).map(|t| t.token).filter(|t| !matches!(t, T::Whitespace)).collect();
        if toks.windows(2).any(|w| matches!(w[0], T::Dot) && matches!(w[1], T::StringStart { .. })) {
            return Some("quoted-access-in-chain".into());
        }
        // a single-line comment directly before the closing bracket of a group broken over lines
        if matches!(class, "not-idempotent" | "output-does-not-compile" | "output-does-not-parse" | "instructions-changed" | "constants-changed")
            && toks.windows(3).any(|w| matches!(w[0], T::CommentSingle) && matches!(w[1], T::NewLine) && matches!(w[2], T::RoundClose | T::SquareClose | T::CurlyClose))
        {
            return Some(format!("comment-before-closing-bracket:{class}"));
        }
        // comment line, then a line that starts with a binary operator
        if toks.windows(3).any(|w| matches!(w[0], T::CommentSingle | T::CommentMulti) && matches!(w[1], T::NewLine) && matches!(w[2], T::Add | T::Subtract | T::Multiply | T::Divide | T::Remainder | T::And | T::Or)) {
            return Some("comment-before-operator-line".into());
        }
    }
    None
}

pub fn check_one(t: &mut Tally, label: &str, src: &str, opts: &FormatOptions) {
    match parses(src) {
        Ok(true) => {}
        Ok(false) => return,
        Err(p) => return t.fail(label, "parser-panic", p, src, opts, None),
    }
    t.evals += 1;
    *t.per_source.entry(label.to_string()).or_insert(0) += 1;
    let o = *opts;
    let formatted = match std::panic::catch_unwind(move || koto_format::format(src, o)) {
        Err(_) => return t.fail(label, "formatter-panic", take_last_panic(), src, opts, None),
        Ok(Err(e)) => return t.fail(label, "formatter-refuses-a-program-that-parses", e.to_string().lines().next().unwrap_or("").to_string(), src, opts, None),
        Ok(Ok(f)) => f,
    };
    t.outcomes.insert(hash_of(&formatted));
    // (2) same compiled program
    match code_of(src) {
        Err(p) => return t.fail(label, "compiler-panic", p, src, opts, Some(&formatted)),
        Ok(Ok(code)) => match code_of(&formatted) {
            Err(p) => return t.fail(label, "compiler-panic-on-output", p, src, opts, Some(&formatted)),
            Ok(Err(e)) => return t.fail(label, "output-does-not-compile", e.lines().next().unwrap_or("").to_string(), src, opts, Some(&formatted)),
            Ok(Ok(code2)) => {
                if code.1 != code2.1 {
                    let d = code.1.iter().zip(code2.1.iter()).find(|(a, b)| a != b).map(|(a, b)| format!("{a} -> {b}")).unwrap_or_else(|| format!("{} -> {} constants", code.1.len(), code2.1.len()));
                    return t.fail(label, "constants-changed", d, src, opts, Some(&formatted));
                }
                if code.0 != code2.0 {
                    return t.fail(label, "instructions-changed", format!("{} -> {} bytes", code.0.len(), code2.0.len()), src, opts, Some(&formatted));
                }
            }
        },
        Ok(Err(_)) => match parses(&formatted) {
            Ok(true) => {}
            _ => return t.fail(label, "output-does-not-parse", String::new(), src, opts, Some(&formatted)),
        },
    }
    // (3) comments
    let (c1, c2) = (comments_of(src), comments_of(&formatted));
    if c1 != c2 {
        let d = c1.iter().zip(c2.iter()).find(|(a, b)| a != b).map(|(a, b)| format!("{a:?} -> {b:?}")).unwrap_or_else(|| format!("{} -> {} comments", c1.len(), c2.len()));
        return t.fail(label, "comments-changed", d, src, opts, Some(&formatted));
    }
    // (4) fixed point
    let f2 = formatted.clone();
    match std::panic::catch_unwind(move || koto_format::format(&f2, o)) {
        Err(_) => t.fail(label, "formatter-panic-on-own-output", take_last_panic(), src, opts, Some(&formatted)),
        Ok(Err(e)) => t.fail(label, "formatter-refuses-own-output", e.to_string().lines().next().unwrap_or("").to_string(), src, opts, Some(&formatted)),
        Ok(Ok(again)) => {
            if again != formatted {
                let d = formatted.lines().zip(again.lines()).find(|(a, b)| a != b).map(|(a, b)| format!("{a:?} -> {b:?}")).unwrap_or_else(|| "line count".into());
                t.fail(label, "not-idempotent", d, src, opts, Some(&formatted));
            }
        }
    }
}

pub fn unicode_snippets() -> Vec<String> {
    let ids = ["x", "é", "名前", "x̃y", "𝜋"];
    let vals = ["99", "1.5", "0xff", "'s'", "'é😀'", "'{x:x}'", "'{x:𝜋^8.2}'", "r'\\n'", "\"q\"", "[1, 2]", "(1,)", "{a: 1}", "|x| x + 1", "null"];
    let mut out = vec![];
    for i in ids {
        for v in vals {
            out.push(format!("x = 1\n{i} = {v}\n"));
            out.push(format!("x = 1\n{i} = {v} # コメント 😀\n"));
            out.push(format!("x = 1\n#- é -#\n{i} = ({v})\nprint {i}, {v}\n"));
            out.push(format!("x = 1\nf = |{i}|\n  # é\n  {i}\nf {v}\n"));
            out.push(format!("x = 1\n{i} = {v}\ny = '{{{i}}} é {{{i}:>6}}' + '😀'\n"));
        }
    }
    // format specs: every fill kind (ASCII, precomposed, wide, combining sequence, flag emoji,
    // ZWJ sequence) x alignment x width / precision / representation
    for fill in ["", "_", "0", "é", "字", "u\u{308}", "🇯🇵", "👩\u{200d}💻"] {
        for align in ["<", "^", ">"] {
            for rest in ["5", "8.2", "6?", "3x", ".1"] {
                out.push(format!("x = 42\ny = 1.5\nprint '{{x:{fill}{align}{rest}}}|{{y:{fill}{align}{rest}}}|{{'s':{fill}{align}{rest}}}'\n"));
            }
        }
    }
    for v in ["from m import *", "from m import a as b, c", "import m as é", "export é = 1", "x = 0b101 + 0o17 + 1e3 + 1_000", "x = 'a' 'b'", "print '''{1 + 1}'''", "x = r#'{'#", "@main = || 1", "x = 1..=2\ny = ..3\nz = 4.."] {
        out.push(format!("{v}\n"));
    }
    out
}

/// comment placement: every base program with an inline comment inserted at every token gap, an
/// end-of-line comment at every line end, and a `#[fmt:skip]` directive before every line (alone
/// and combined with the inline comments of that line)
pub fn comment_insertions() -> Vec<String> {
    let bases = [
        "x = 1 + 2 * 3\nprint x\n",
        "scale = table[0] * 10\nprint scale, 2\n",
        "f = |a, b = 2| a + b\nprint f 1\n",
        "m = {a: 1, b: [1, 2]}\nprint m.a\n",
        "if x > 1 then 2 else 3\n",
        "if x\n  y = 1\nelse\n  y = 2\n",
        "for i in 0..3\n  print i\n",
        "r = match v\n  1 then 'a'\n  (a, b) if a then b\n  else null\n",
        "try\n  f()\ncatch e\n  print e\nfinally\n  g()\n",
        "x = foo\n  .bar 1\n  .baz()\n",
        "g = ||\n  return 1\nprint g()\n",
        "s = 'a{x}b{y:>3}'\nprint s\n",
        "from m import a as b, c\nexport z = a\n",
        "x = (1, [2, {k: 3}])\ny = x[1][1].k\n",
        "w = while a < 3\n  a += 1\n  if a == 2\n    break a\n",
    ];
    let mut out = vec![];
    for b in bases {
        let toks: Vec<(usize, koto_lexer::Token)> = koto_lexer::Lexer::new(b)
            .take_while(|t| t.token != koto_lexer::Token::Error)
            .filter(|t| !matches!(t.token, koto_lexer::Token::Whitespace))
            .map(|t| (t.source_bytes.start, t.token))
            .collect();
        for (pos, tok) in &toks {
            if matches!(tok, koto_lexer::Token::NewLine) {
                // end-of-line comment
                out.push(format!("{} # eol{}", &b[..*pos], &b[*pos..]));
                out.push(format!("{}# adjacent{}", &b[..*pos], &b[*pos..]));
                out.push(format!("{}#- adjacent -#{}", &b[..*pos], &b[*pos..]));
                out.push(format!("{} #- inline at eol -#{}", &b[..*pos], &b[*pos..]));
            } else if !matches!(tok, koto_lexer::Token::StringLiteral | koto_lexer::Token::StringEnd) {
                out.push(format!("{}#- c -# {}", &b[..*pos], &b[*pos..]));
            }
        }
        // fmt:skip before every line, with the inline comments of that line
        let lines: Vec<&str> = b.lines().collect();
        for (li, line) in lines.iter().enumerate() {
            let indent: String = line.chars().take_while(|c| *c == ' ').collect();
            let with_skip = |new_line: &str| {
                let mut v: Vec<String> = lines.iter().map(|l| l.to_string()).collect();
                v[li] = format!("{indent}#[fmt:skip]\n{new_line}");
                v.join("\n") + "\n"
            };
            out.push(with_skip(line));
            out.push(with_skip(&format!("{line} # trailing")));
            // comments directly adjacent to the code (no blank in between)
            out.push(with_skip(&format!("{line}# adjacent")));
            out.push(with_skip(&format!("{line}#- adjacent -#")));
            out.push(with_skip(&format!("{line}#- adjacent -# # trailing")));
            for (k, c) in line.char_indices() {
                if c == ' ' && k > indent.len() {
                    out.push(with_skip(&format!("{} #- unit -# {} # trailing", &line[..k], &line[k + 1..])));
                    out.push(with_skip(&format!("{}   #- unit -# {}", &line[..k], &line[k + 1..])));
                }
            }
        }
    }
    // bracketed groups broken over lines, with a single-line comment after any element (so also
    // directly before the closing bracket), and code that continues after the closing bracket
    let groups: [(&str, &[&str], &str); 7] = [
        ("x = (", &["1 +", "2"], ")"),
        ("x = [", &["1,", "2"], "]"),
        ("x = (", &["1,", "2"], ")"),
        ("x = {", &["a: 1,", "b: 2"], "}"),
        ("x = f(", &["1,", "2"], ")"),
        ("x = max(", &["[1, 2][", "0"], "])"),
        ("print '{(", &["1 +", "2"], ")}'"),
    ];
    for (open, elems, close) in groups {
        for tail in ["", " * 3", ".size() + 1", ", 4"] {
            for commented in 0..=elems.len() {
                for closing_indent in ["", "  "] {
                    let mut t = format!("f = |a, b| a\n{open}\n");
                    for (i, e) in elems.iter().enumerate() {
                        t.push_str(&format!("  {e}{}\n", if i + 1 == commented { " # c" } else { "" }));
                    }
                    t.push_str(&format!("{closing_indent}{close}{tail}\n"));
                    out.push(t);
                }
            }
        }
    }
    out
}

pub fn run(args: &Args) -> i32 {
    install_quiet_panic_hook();
    let tier = args.tier;
    if let Some(path) = &args.replay {
        let text = std::fs::read_to_string(path).unwrap_or_default();
        let src = match text.split_once("--- program ---\n") {
            Some((_, p)) => p.to_string(),
            None => text,
        };
        for o in option_grid(tier) {
            let mut t = Tally::new();
            check_one(&mut t, "replay", &src, &o);
            println!("{}: {} key={:?}", opts_text(&o), if t.fails.is_empty() { "ok".to_string() } else { t.fails[0].1.clone() }, t.fails.first().and_then(|f| f.0.clone()));
            if std::env::var("KV_DEBUG").is_ok() {
                println!("--- output ---\n{}", koto_format::format(&src, o).unwrap_or_else(|e| e.to_string()));
            }
        }
        return 0;
    }
    let mut report = Report::new(args, "exploration");
    let mut grid = option_grid(tier);
    if std::env::var("KV_OPTS").is_ok_and(|v| v == "default") {
        grid.truncate(1);
    }

    // inputs
    let mut inputs: Vec<(String, String)> = vec![];
    let corpus: Vec<(String, String)> = crate::lexmc::corpus_files().into_iter().map(|(n, t)| if n.contains(".md#") { (n, crate::lexmc::strip_doc_markers(&t)) } else { (n, t) }).collect();
    for (_, t) in &corpus {
        inputs.push(("corpus".into(), t.clone()));
    }
    // the same one-token neighbourhood in both tiers (every 5th token): denser strides mostly add
    // parser-accepted oddities of the mutants themselves
    let stride = 5;
    for (_, t) in &corpus {
        if t.len() < 6000 {
            for m in crate::codemc::token_neighbourhood(t, stride) {
                inputs.push(("corpus-neighbourhood".into(), m));
            }
        }
    }
    for s in unicode_snippets() {
        inputs.push(("unicode-snippets".into(), s));
    }
    for s in comment_insertions() {
        inputs.push(("comment-insertions".into(), s));
    }
    {
        let mut n = 0usize;
        let every = tier.pick(7usize, 4usize);
        let mut emit = |c: Case| {
            n += 1;
            if n % every == 0 {
                inputs.push(("generated".into(), crate::kast::render_program(&c.prog)));
            }
        };
        crate::fam_core::generate(tier, &mut emit);
        crate::fam_fn::generate(tier, &mut emit);
        crate::fam_match::generate(tier, &mut emit);
        crate::fam_err::generate(tier, &mut emit);
        crate::fam_types::generate(tier, &mut emit);
        crate::fam_meta::generate(tier, &mut emit);
    }
    if let Ok(only) = std::env::var("KV_ONLY") {
        inputs.retain(|(l, _)| only.split(',').any(|o| o == l));
    }
    // deduplicate
    {
        let mut seen = BTreeSet::new();
        inputs.retain(|(_, s)| seen.insert(hash_of(s)));
    }

    let nshards = threads() * 8;
    let wall_cap = tier.pick(55.0, 600.0);
    let started = std::time::Instant::now();
    let results = par_shards_big_stack(nshards, 128 << 20, |shard| {
        let mut t = Tally::new();
        let mut capped = false;
        for (i, (label, src)) in inputs.iter().enumerate() {
            if i % nshards != shard {
                continue;
            }
            if started.elapsed().as_secs_f64() > wall_cap {
                capped = true;
                break;
            }
            // generated programs and neighbourhood mutants use a reduced option grid
            let reduced = label == "generated" || label == "corpus-neighbourhood";
            let g: &[FormatOptions] = if reduced { &grid[..tier.pick(2, 4).min(grid.len())] } else { &grid };
            for o in g {
                check_one(&mut t, label, src, o);
            }
        }
        (t, capped)
    });
    let mut evals = 0;
    let mut outcomes = BTreeSet::new();
    let mut per_source: BTreeMap<String, u64> = BTreeMap::new();
    let mut capped = false;
    for (t, c) in results {
        evals += t.evals;
        capped |= c;
        outcomes.extend(t.outcomes);
        for (k, n) in t.per_source {
            *per_source.entry(k).or_insert(0) += n;
        }
        for (key, what, replay) in t.fails {
            report.fail(key.as_deref(), what, replay);
        }
        for (k, n) in t.extra_known {
            *report.extra_keyed.entry(k).or_insert(0) += n;
        }
    }
    report.cov("evaluations", evals);
    report.cov("distinct_nontrivial", outcomes.len() as u64);
    report.cov("input_programs", inputs.len() as u64);
    report.cov("option_combinations", grid.len() as u64);
    report.cov("formatted_programs_per_source", json!(per_source));
    report.cov("samples", json!(["corpus file x default options: same bytes, same comments, fixed point", "é = 99 # コメント x line_length 8"]));
    report.cov("exhaustive", !capped);
    if capped {
        report.cov("cap_hit", format!("wall cap {wall_cap} s"));
    }
    report.cov("rule", "every parseable input (corpus + doc examples, one-token neighbourhood, generated programs of all progmc families, Unicode snippets) x formatter option grid: format must succeed; output compiles to identical instruction bytes and constants (or, for programs that parse but do not compile, still parses); identical comment sequence (lexer comment tokens, inner indentation ignored); format(output) == output");
    report.finish()
}
