//! C10 — layout and alternative spellings never change a program's meaning; cut-off programs are
//! reported as indentation errors exactly when they stop after a header / `=` / binary operator.
//!
//! (A) Every generated program of the progmc families is rendered in every combination of the
//!     structural layout freedoms (block vs inline forms, redundant parentheses, statement roots
//!     continued over indented lines, indent width) and, on top of the canonical rendering, with a
//!     comment line / blank line / trailing whitespace / end-of-line comment at every line
//!     position (and everywhere at once). Every variant must compile to the same instruction bytes
//!     and constants as the canonical rendering (fallback: same observable run).
//! (B) Every line-prefix of every canonical rendering is compiled: after a header line, or a line
//!     ending in `=`, the error must be an indentation error; after a complete statement it must
//!     not be. Plus a product of operator-ended lines x enclosing contexts.

use crate::common::*;
use crate::fmtmc::code_of;
use crate::kast::*;
use crate::progmc::Case;
use crate::run::*;
use koto::prelude::*;
use serde_json::json;
use std::collections::{BTreeMap, BTreeSet};

fn layouts() -> Vec<(usize, Layout)> {
    let mut v = vec![];
    for indent in [2usize, 4, 1] {
        for prefer_block in [false, true] {
            for redundant_parens in [false, true] {
                for break_lines in [false, true] {
                    for operator_at_line_end in [false, true] {
                        if operator_at_line_end && !break_lines {
                            continue;
                        }
                        for rhs_own_line in [false, true] {
                            v.push((indent, Layout { prefer_block, redundant_parens, break_lines, operator_at_line_end, rhs_own_line }));
                        }
                    }
                }
            }
        }
    }
    v
}

fn indent_of(line: &str) -> usize {
    line.len() - line.trim_start_matches(' ').len()
}

/// text-level variants of a rendering: (name, text)
fn text_variants(src: &str) -> Vec<(String, String)> {
    let lines: Vec<&str> = src.lines().collect();
    let mut out = vec![];
    let join = |v: &[String]| v.join("\n") + "\n";
    for i in 0..=lines.len() {
        let ind = " ".repeat(lines.get(i).map(|l| indent_of(l)).unwrap_or(0));
        let mut v: Vec<String> = lines.iter().map(|l| l.to_string()).collect();
        v.insert(i, format!("{ind}# a comment"));
        out.push((format!("comment-line@{i}"), join(&v)));
        let mut v: Vec<String> = lines.iter().map(|l| l.to_string()).collect();
        v.insert(i, String::new());
        out.push((format!("blank-line@{i}"), join(&v)));
        let mut v: Vec<String> = lines.iter().map(|l| l.to_string()).collect();
        v.insert(i, "   ".to_string());
        out.push((format!("whitespace-line@{i}"), join(&v)));
        let mut v: Vec<String> = lines.iter().map(|l| l.to_string()).collect();
        v.insert(i, format!("{ind}#- a\n{ind}   multi-line comment -#"));
        out.push((format!("multi-comment@{i}"), join(&v)));
    }
    for i in 0..lines.len() {
        let mut v: Vec<String> = lines.iter().map(|l| l.to_string()).collect();
        v[i] = format!("{}   ", lines[i]);
        out.push((format!("trailing-whitespace@{i}"), join(&v)));
        let mut v: Vec<String> = lines.iter().map(|l| l.to_string()).collect();
        v[i] = format!("{} # note", lines[i]);
        out.push((format!("eol-comment@{i}"), join(&v)));
        let mut v: Vec<String> = lines.iter().map(|l| l.to_string()).collect();
        v[i] = format!("{} #- inline -#", lines[i]);
        out.push((format!("eol-inline-comment@{i}"), join(&v)));
    }
    // an inline comment between the indentation and the code of a line, with awkward bodies
    for i in 0..lines.len() {
        let ind = " ".repeat(indent_of(lines[i]));
        let code = lines[i].trim_start();
        for (k, body) in ["note", "see the #- marker", "a # b", "-", "#", "- # -", "é -", "'quote", "x -# #- y"].iter().enumerate() {
            let mut v: Vec<String> = lines.iter().map(|l| l.to_string()).collect();
            v[i] = format!("{ind}#- {body} -# {code}");
            out.push((format!("inline-comment-before-code-{k}@{i}"), join(&v)));
        }
    }
    // everything everywhere
    let mut all = String::from("# header\n\n");
    for l in &lines {
        let ind = " ".repeat(indent_of(l));
        all.push_str(&format!("{ind}# c\n\n{l}  # t\n   \n"));
    }
    out.push(("everything".into(), all));
    out
}

fn is_function_header(t: &str) -> bool {
    if t.ends_with('|') && t.matches('|').count() >= 2 {
        return true;
    }
    // `|a| -> Hint`
    if let Some(pos) = t.rfind("| -> ") {
        let hint = &t[pos + 5..];
        return !hint.is_empty() && hint.chars().all(|c| c.is_alphanumeric() || c == '?' || c == '_');
    }
    t.ends_with("||")
}

#[derive(Debug, PartialEq, Clone, Copy)]
enum Expect {
    Indentation,
    NotIndentation,
    Unjudged,
}

/// what a cut after line k (0-based) of a canonical rendering must report
fn expectation(lines: &[&str], k: usize) -> Expect {
    let line = lines[k];
    let t = line.trim();
    let next_deeper = lines.get(k + 1).is_some_and(|n| indent_of(n) > indent_of(line));
    // inside the body of a try that has no catch yet the program is unfinished for another reason
    {
        let mut j = k as isize;
        let mut ind = indent_of(line);
        while j >= 0 {
            let l = lines[j as usize];
            if indent_of(l) < ind || j as usize == k {
                let tt = l.trim();
                if indent_of(l) < ind && tt == "try" {
                    return Expect::Unjudged;
                }
                if (tt.ends_with("= try") || tt == "try") && indent_of(l) < indent_of(line) {
                    return Expect::Unjudged;
                }
                ind = ind.min(indent_of(l));
            }
            j -= 1;
        }
    }
    if next_deeper {
        let kw_header = (t.starts_with("if ") && !t.contains(" then "))
            || (t.starts_with("else if ") && !t.contains(" then "))
            || t.starts_with("for ")
            || t.starts_with("while ")
            || t.starts_with("until ")
            || t == "loop"
            || t == "try"
            || t.starts_with("catch")
            || t == "finally"
            || t.starts_with("match ")
            || t == "switch";
        // a header can follow an assignment / return / export on the same line
        let tail_header = [" = if ", " = for ", " = while ", " = until ", " = match ", "return if ", "return match "].iter().any(|p| t.contains(p)) && !t.contains(" then ")
            || t.ends_with("= loop")
            || t.ends_with("= try")
            || t.ends_with("= switch")
            || t.ends_with("return switch");
        if kw_header || tail_header || t.ends_with(" =") || (is_function_header(t) && !t.contains(" then")) {
            return Expect::Indentation;
        }
        if t == "else" {
            // the else of an if/else is a header; a match / switch arm is not listed
            let ind = indent_of(line);
            for j in (0..k).rev() {
                if indent_of(lines[j]) < ind {
                    let h = lines[j].trim();
                    if h.starts_with("match ") || h == "switch" || h.contains("= match ") || h.ends_with("= switch") || h.contains("return match ") {
                        return Expect::Unjudged;
                    }
                    break;
                }
            }
            return Expect::Indentation;
        }
        return Expect::Unjudged;
    }
    // the next line is not deeper: line k ends a complete statement (single-line statements only)
    if t.ends_with(" then") || t.ends_with(':') || t.ends_with(',') || t.ends_with('(') || t.ends_with('[') || t.ends_with('{') {
        return Expect::Unjudged;
    }
    Expect::NotIndentation
}

fn compile_outcome(src: &str) -> Result<Option<bool>, String> {
    // Ok(None): compiles; Ok(Some(is_indentation_error))
    let r = std::panic::catch_unwind(|| {
        let mut koto = Koto::with_settings(KotoSettings::default());
        match koto.compile(CompileArgs::new(src)) {
            Ok(_) => None,
            Err(e) => Some(e.is_indentation_error()),
        }
    });
    r.map_err(|_| take_last_panic())
}

struct Tally {
    evals: u64,
    per_family: BTreeMap<String, u64>,
    outcomes: BTreeSet<u64>,
    sigs: BTreeMap<String, u64>,
    fails: Vec<(Option<String>, String, String)>,
    cosmetic_code_differences: u64,
    skipped_not_compiling: u64,
}

impl Tally {
    fn fail(&mut self, fam: &str, class: &str, what: String, replay: String) {
        let n = self.sigs.entry(format!("{fam}|{class}")).or_insert(0);
        *n += 1;
        if *n <= 15 {
            self.fails.push((None, format!("[{fam}] {class}: {what}"), replay));
        }
    }
    fn count(&mut self, fam: &str) {
        self.evals += 1;
        *self.per_family.entry(fam.to_string()).or_insert(0) += 1;
    }
}

fn same_behaviour(a: &str, b: &str) -> bool {
    let cfg = RunCfg { budget_ticks: 300_000, ..RunCfg::default() };
    let ra = run_script(a, &cfg);
    let rb = run_script(b, &cfg);
    ra.stdout == rb.stdout && ra.outcome.class() == rb.outcome.class()
}

fn check_variant(t: &mut Tally, fam: &str, name: &str, base_src: &str, base_code: &(Vec<u8>, Vec<String>), variant: &str) {
    t.count(fam);
    match code_of(variant) {
        Err(p) => t.fail(fam, "compiler-panic", format!("{name}: {p}"), format!("variant: {name}\n--- canonical ---\n{base_src}--- program ---\n{variant}")),
        Ok(Err(e)) if variant.lines().any(|l| l.trim_start().starts_with("..")) && !base_src.lines().any(|l| l.trim_start().starts_with("..")) => {
            // a range without a start value as the first token of a continuation line
            t.fails.push((
                Some("startless-range-on-continuation-line".into()),
                format!("[{fam}] variant-rejected: {name}: {}", e.lines().next().unwrap_or("")),
                format!("variant: {name}\nerror: {e}\n--- canonical ---\n{base_src}--- program ---\n{variant}"),
            ));
        }
        Ok(Err(e)) => t.fail(
            fam,
            "variant-rejected",
            format!("{name}: {}", e.lines().next().unwrap_or("")),
            format!("variant: {name}\nerror: {e}\n--- canonical ---\n{base_src}--- program ---\n{variant}"),
        ),
        Ok(Ok(code)) => {
            t.outcomes.insert(hash_of(&(name.split('@').next().unwrap_or(""), &code.0)));
            if &code != base_code {
                if same_behaviour(base_src, variant) {
                    t.cosmetic_code_differences += 1;
                } else {
                    t.fail(fam, "meaning-changed", format!("{name}: compiles to a different program with different behaviour"), format!("variant: {name}\n--- canonical ---\n{base_src}--- program ---\n{variant}"));
                }
            }
        }
    }
}

fn check_program(t: &mut Tally, prog: &[X], with_text_variants: bool) {
    let base_src = render_program(prog);
    let base_code = match code_of(&base_src) {
        Ok(Ok(c)) => c,
        _ => {
            t.skipped_not_compiling += 1;
            return;
        }
    };
    // (A1) structural layouts
    for (indent, layout) in layouts() {
        let v = render_program_with(prog, indent, layout);
        if v == base_src {
            continue;
        }
        let name = format!("indent={indent} block={} parens={} broken={} op-at-end={} rhs-own-line={}", layout.prefer_block, layout.redundant_parens, layout.break_lines, layout.operator_at_line_end, layout.rhs_own_line);
        check_variant(t, "structural-layouts", &name, &base_src, &base_code, &v);
    }
    if !with_text_variants {
        return;
    }
    // (A2) text-level freedoms on the canonical rendering and on the most broken-up rendering
    for (name, v) in text_variants(&base_src) {
        check_variant(t, "comments-blank-lines-whitespace", &name, &base_src, &base_code, &v);
    }
    let broken = render_program_with(prog, 2, Layout { prefer_block: true, redundant_parens: false, break_lines: true, operator_at_line_end: false, rhs_own_line: true });
    if broken != base_src && code_of(&broken).ok().and_then(|r| r.ok()).as_ref() == Some(&base_code) {
        for (name, v) in text_variants(&broken) {
            check_variant(t, "comments-blank-lines-whitespace-on-broken-layout", &name, &base_src, &base_code, &v);
        }
    }
    // (B) line prefixes
    let lines: Vec<&str> = base_src.lines().collect();
    for k in 0..lines.len().saturating_sub(1) {
        let e = expectation(&lines, k);
        if e == Expect::Unjudged {
            continue;
        }
        let prefix = lines[..=k].join("\n") + "\n";
        // the same prefix without the final line break (what a REPL hands over)
        {
            let bare = lines[..=k].join("\n");
            t.count("line-prefixes");
            if let Ok(r) = compile_outcome(&bare) {
                let is_ind = r == Some(true);
                if (e == Expect::Indentation) != is_ind {
                    t.fail("line-prefixes", if e == Expect::Indentation { "header-cut-not-an-indentation-error" } else { "complete-statement-cut-is-an-indentation-error" }, format!("after {:?} without a final line break", lines[k].trim()), format!("cut after line {k} (no trailing newline): {:?}\nresult: {r:?}\n--- full program ---\n{base_src}--- program ---\n{bare}", lines[k]));
                }
            }
        }
        t.count("line-prefixes");
        match compile_outcome(&prefix) {
            Err(p) => t.fail("line-prefixes", "compiler-panic", p, format!("--- program ---\n{prefix}")),
            Ok(r) => {
                let is_ind = r == Some(true);
                t.outcomes.insert(hash_of(&("prefix", lines[k].trim().split(' ').next().unwrap_or(""), r)));
                match (e, is_ind) {
                    (Expect::Indentation, false) => t.fail(
                        "line-prefixes",
                        "header-cut-not-an-indentation-error",
                        format!("after {:?}: {}", lines[k].trim(), if r.is_none() { "compiles" } else { "another error" }),
                        format!("cut after line {k}: {:?}\nresult: {r:?}\n--- full program ---\n{base_src}--- program ---\n{prefix}", lines[k]),
                    ),
                    (Expect::NotIndentation, true) => t.fail(
                        "line-prefixes",
                        "complete-statement-cut-is-an-indentation-error",
                        format!("after {:?}", lines[k].trim()),
                        format!("cut after line {k}: {:?}\n--- full program ---\n{base_src}--- program ---\n{prefix}", lines[k]),
                    ),
                    _ => {}
                }
            }
        }
    }
}

/// hand-written programs whose statement roots are chains, argument lists and operator trees
fn chain_programs() -> Vec<Vec<X>> {
    let data = || assign("data", list(vec![int(3), int(1), int(2)]));
    let m = |e: X, name: &str, args: Vec<X>| method(e, name, args);
    let mut out = vec![];
    let chains: Vec<X> = vec![
        m(m(id("data"), "to_tuple", vec![]), "first", vec![]),
        m(m(m(id("data"), "iter", vec![]), "skip", vec![int(1)]), "to_list", vec![]),
        m(m(id("data"), "each", vec![func_inline(&["v"], bin(Op::Mul, id("v"), int(2)))]), "to_tuple", vec![]),
        m(m(m(id("data"), "keep", vec![func_inline(&["v"], cmp(id("v"), CmpOp::Gt, int(1)))]), "each", vec![func_inline(&["v"], bin(Op::Add, id("v"), int(1)))]), "sum", vec![]),
        bin(Op::Sub, m(m(id("data"), "to_tuple", vec![]), "first", vec![]), m(id("data"), "last", vec![])),
        bin(Op::Add, bin(Op::Mul, index(id("data"), int(0)), int(2)), m(id("data"), "size", vec![])),
        callf("size", vec![m(m(id("data"), "iter", vec![]), "to_tuple", vec![])]),
        m(m(m(id("data"), "iter", vec![]), "zip", vec![m(id("data"), "iter", vec![])]), "to_list", vec![]),
    ];
    // pipes as operands / elements (the piped-into function optionally in redundant parentheses)
    {
        let defs = || {
            vec![
                assign("f", func_inline(&["v"], bin(Op::Add, id("v"), int(1)))),
                assign("g", func_inline(&["v"], bin(Op::Mul, id("v"), int(10)))),
                assign("mm", map(vec![("g", id("g"))])),
            ]
        };
        let pipe = |a: X, f: X| x(E::Pipe(a, f));
        let exprs: Vec<X> = vec![
            bin(Op::Add, pipe(int(1), id("f")), pipe(int(2), id("g"))),
            bin(Op::Add, pipe(int(1), id("f")), pipe(int(2), access(id("mm"), "g"))),
            bin(Op::Sub, pipe(int(1), access(id("mm"), "g")), pipe(int(2), id("f"))),
            list(vec![pipe(int(1), id("f")), pipe(int(2), id("g")), pipe(int(3), access(id("mm"), "g"))]),
            tuple(vec![pipe(pipe(int(1), id("f")), id("g")), pipe(int(2), id("f"))]),
            callf("size", vec![list(vec![pipe(int(1), id("f"))])]),
        ];
        for e in exprs {
            let mut p = defs();
            p.push(assign("r", e.clone()));
            p.push(print(id("r")));
            out.push(p);
            let mut p = defs();
            p.push(assign("h", func(&[], vec![assign("r", e.clone()), tuple(vec![id("r"), e.clone()])])));
            p.push(print(callf("h", vec![])));
            out.push(p);
        }
    }
    // a statement that starts with a minus sign after a statement that is continued over lines
    for op in [Op::Add, Op::Sub, Op::Mul] {
        for next in [int(-1), x(E::Neg(id("a")))] {
            out.push(vec![assign("a", int(4)), assign("f", func(&[], vec![assign("xx", bin(op, int(1), int(2))), next.clone()])), print(callf("f", vec![]))]);
            out.push(vec![assign("a", int(4)), assign("f", func(&[], vec![assign("xx", bin(op, id("a"), callf("size", vec![list(vec![int(1)])]))), next.clone()])), print(callf("f", vec![]))]);
        }
    }
    for c in &chains {
        out.push(vec![data(), assign("d", c.clone()), print(id("d"))]);
        out.push(vec![data(), assign("f", func(&[], vec![assign("d", c.clone()), ret(Some(c.clone()))])), print(callf("f", vec![]))]);
        out.push(vec![data(), x(E::If(vec![(boolean(true), blk(vec![assign("d", c.clone()), print(id("d"))]))], None))]);
        out.push(vec![data(), c.clone(), print(s("end"))]);
    }
    out
}

/// comma-separated sequences (paren-free call arguments, parenthesised arguments, list / tuple /
/// map elements, multi-assignment values) continued over lines after a comma: every split of the
/// items into lines, at every continuation indent, in several enclosing contexts
fn comma_continuation_family(t: &mut Tally) {
    let heads: [(&str, &str, &str); 8] = [
        ("r = f ", "", "paren-free call"),
        ("print f ", "", "paren-free call as argument"),
        ("r = f(", ")", "call"),
        ("r = [", "]", "list"),
        ("r = (", ")", "tuple"),
        ("a, b, c, d = ", "", "multi-assignment values"),
        ("r = 0, ", "", "tuple without parentheses"),
        ("r = obj.m ", "", "paren-free method call"),
    ];
    let items = ["1", "x", "g(2)", "'s'"];
    let contexts: [(&str, &str); 3] = [("", ""), ("h = ||\n", "  "), ("if true\n", "  ")];
    let prelude = "f = |a...| a\ng = |v| v\nx = 5\nobj = {m: |a...| a}\n";
    for (open, close, kind) in heads {
        for (ctx_head, ctx_indent) in contexts {
            let canonical = format!("{prelude}{ctx_head}{ctx_indent}{open}{}{close}\n{}", items.join(", "), if ctx_head.starts_with("h =") { "h()\n" } else { "" });
            let Ok(Ok(base_code)) = code_of(&canonical) else {
                t.skipped_not_compiling += 1;
                continue;
            };
            // every subset of the three commas gets a line break after it
            for mask in 1u32..8 {
                for extra_indent in [2usize, 4, 1] {
                    for first_on_own_line in [false, true] {
                        if first_on_own_line && close.is_empty() {
                            continue; // only inside brackets
                        }
                        let cont = format!("{ctx_indent}{}", " ".repeat(extra_indent));
                        let mut v = format!("{prelude}{ctx_head}{ctx_indent}{open}");
                        if first_on_own_line {
                            v.push_str(&format!("\n{cont}"));
                        }
                        for (i, it) in items.iter().enumerate() {
                            v.push_str(it);
                            if i + 1 < items.len() {
                                if mask & (1 << i) != 0 {
                                    v.push_str(&format!(",\n{cont}"));
                                } else {
                                    v.push_str(", ");
                                }
                            }
                        }
                        if first_on_own_line {
                            v.push_str(&format!("\n{ctx_indent}"));
                        }
                        v.push_str(close);
                        v.push('\n');
                        if ctx_head.starts_with("h =") {
                            v.push_str("h()\n");
                        }
                        check_variant(t, "comma-continuations", &format!("{kind}: breaks after commas {mask:03b}, continuation indent +{extra_indent}, first item on its own line: {first_on_own_line}"), &canonical, &base_code, &v);
                    }
                }
            }
        }
    }
}

fn operator_cut_family(t: &mut Tally) {
    let contexts = ["", "f = ||\n  ", "if a\n  ", "for i in x\n  ", "while a\n  b = 1\n  ", "g = |n|\n  if n\n    ", "try\n  a\ncatch e\n  ", "match v\n  1 then\n    "];
    let cut_lines = [
        "x = 1 +", "x = 1 -", "x = 2 *", "x = 2 /", "x = 2 %", "x = 2 ^", "x = a and", "x = a or", "x = a ==", "x = a !=", "x = a <", "x = a <=", "x = a >", "x = a >=", "x =", "x +=", "x -=", "x *=", "x /=", "x %=", "y = f(1) +", "z = [1] +", "w = 'a' +",
        "print 1 +", "x = 1 + 2 *", "x = (1 + 2) -", "a, b =", "x = y =", "export x =", "x = 1 ->",
    ];
    let mut cut_lines: Vec<String> = cut_lines.iter().map(|s| s.to_string()).collect();
    for lhs in ["1", "a", "a.b", "f(1)", "(a)", "[1]", "'s'", "a[0]", "a.b()", "f 1"] {
        for op in ["+", "-", "*", "/", "%", "^", "and", "or", "==", "!=", "<", "<=", ">", ">=", "->"] {
            cut_lines.push(format!("x = {lhs} {op}"));
        }
    }
    let complete_lines = ["x = 1 + 2", "x = a and b", "x = -1", "print 1", "x += 1", "y = f(1)", "a, b = 1, 2", "x = y = 3", "z = [1]", "f 1, 2", "x = not a"];
    for c in contexts {
        for l in &cut_lines {
            let src = format!("{c}{l}\n");
            t.count("operator-ended-lines");
            match compile_outcome(&src) {
                Err(p) => t.fail("operator-ended-lines", "compiler-panic", p, format!("--- program ---\n{src}")),
                Ok(Some(true)) => {}
                Ok(r) => t.fail("operator-ended-lines", "operator-cut-not-an-indentation-error", format!("{l:?} in context {c:?}: {}", if r.is_none() { "compiles" } else { "another error" }), format!("result: {r:?}\n--- program ---\n{src}")),
            }
            // with trailing whitespace / a comment after the operator
            for tail in ["   \n", " # c\n", "", " ", " #- c -#"] {
                let src = format!("{c}{l}{tail}");
                t.count("operator-ended-lines");
                if let Ok(r) = compile_outcome(&src)
                    && r != Some(true)
                {
                    t.fail("operator-ended-lines", "operator-cut-not-an-indentation-error", format!("{l:?} + {tail:?} in context {c:?}"), format!("result: {r:?}\n--- program ---\n{src}"));
                }
            }
        }
        for l in complete_lines {
            let src = format!("{c}{l}\n");
            t.count("operator-ended-lines");
            match compile_outcome(&src) {
                Err(p) => t.fail("operator-ended-lines", "compiler-panic", p, format!("--- program ---\n{src}")),
                Ok(Some(true)) => t.fail("operator-ended-lines", "complete-statement-cut-is-an-indentation-error", format!("{l:?} in context {c:?}"), format!("--- program ---\n{src}")),
                Ok(_) => {}
            }
        }
    }
}

pub fn run(args: &Args) -> i32 {
    install_quiet_panic_hook();
    let tier = args.tier;
    if let Some(path) = &args.replay {
        let text = std::fs::read_to_string(path).unwrap_or_default();
        let src = match text.split_once("--- program ---\n") {
            Some((_, p)) => p.to_string(),
            None => text,
        };
        println!("compile: {:?}", compile_outcome(&src));
        let a = run_script(&src, &RunCfg::default());
        println!("stdout:\n{}outcome: {:?}", a.stdout, a.outcome);
        return 0;
    }
    let mut report = Report::new(args, "exploration");
    let every = tier.pick(41usize, 23usize);
    let nshards = threads() * 8;
    let wall_cap = tier.pick(50.0, 600.0);
    let started = std::time::Instant::now();
    // the generated programs are not Send (Rc): every shard regenerates the families and takes its share
    let results = par_shards_big_stack(nshards, 64 << 20, |shard| {
        let mut t = Tally { evals: 0, per_family: BTreeMap::new(), outcomes: BTreeSet::new(), sigs: BTreeMap::new(), fails: vec![], cosmetic_code_differences: 0, skipped_not_compiling: 0 };
        let mut capped = false;
        let mut n = 0usize;
        let mut taken = 0usize;
        let mut n_programs = 0u64;
        {
            let mut emit = |c: Case| {
                n += 1;
                if n % every != 0 {
                    return;
                }
                let i = n / every;
                if i % nshards != shard || capped {
                    return;
                }
                if started.elapsed().as_secs_f64() > wall_cap {
                    capped = true;
                    return;
                }
                taken += 1;
                n_programs += 1;
                // text variants for every 3rd program (quadratic in the number of lines)
                check_program(&mut t, &c.prog, taken % 3 == 0);
            };
            crate::fam_core::generate(tier, &mut emit);
            crate::fam_fn::generate(tier, &mut emit);
            crate::fam_match::generate(tier, &mut emit);
            crate::fam_err::generate(tier, &mut emit);
            crate::fam_types::generate(tier, &mut emit);
            crate::fam_meta::generate(tier, &mut emit);
        }
        if shard == 0 {
            operator_cut_family(&mut t);
            comma_continuation_family(&mut t);
        }
        if shard == 1 % nshards {
            for p in chain_programs() {
                n_programs += 1;
                check_program(&mut t, &p, true);
            }
        }
        (t, capped, n_programs)
    });
    let mut n_programs = 0u64;
    let mut evals = 0;
    let mut per_family: BTreeMap<String, u64> = BTreeMap::new();
    let mut outcomes = BTreeSet::new();
    let mut cosmetic = 0;
    let mut skipped = 0;
    let mut capped = false;
    for (t, c, np) in results {
        n_programs += np;
        evals += t.evals;
        cosmetic += t.cosmetic_code_differences;
        skipped += t.skipped_not_compiling;
        capped |= c;
        outcomes.extend(t.outcomes);
        for (k, n) in t.per_family {
            *per_family.entry(k).or_insert(0) += n;
        }
        for (key, what, replay) in t.fails {
            report.fail(key.as_deref(), what, replay);
        }
    }
    report.cov("evaluations", evals);
    report.cov("distinct_nontrivial", outcomes.len() as u64);
    report.cov("programs", n_programs);
    report.cov("programs_skipped_canonical_rendering_does_not_compile", skipped);
    report.cov("variants_with_different_bytes_but_equal_behaviour", cosmetic);
    report.cov("evaluations_per_family", json!(per_family));
    report.cov("structural_layout_combinations", layouts().len() as u64);
    report.cov("samples", json!(["x = if a then 1 else 2  ==  x = if a / 1 / else / 2 (block form, indent 4)", "prefix 'f = |a|' -> indentation error; prefix 'f = |a|\\n  a + 1' -> compiles"]));
    report.cov("exhaustive", !capped);
    if capped {
        report.cov("cap_hit", format!("wall cap {wall_cap} s"));
    }
    report.cov("rule", "(A) every sampled program of the six generated families x 24 structural layouts (indent 2/4/1 x block-vs-inline x redundant parentheses x statement roots continued over indented lines) and, for every third program, a comment line / blank line / whitespace-only line / multi-line comment inserted at every line position, trailing whitespace / end-of-line comment / inline comment on every line, and everything at once, on the canonical and on the most broken-up rendering: each variant must compile to the same instruction bytes and constants as the canonical rendering (different bytes are accepted only if a run of both gives the same output and outcome); (B) every line prefix of every canonical rendering: cut after a header line (if / else / for / while / until / loop / try / catch / finally / match / switch / function header) or a line ending in `=` must be an indentation error, cut after a complete single-line statement must not be; 30 operator-ended lines x 8 enclosing contexts x 3 tails must be indentation errors, 11 complete lines x 8 contexts must not");
    report.finish()
}
