//! C18 — modules: exports, imports and caching.
//!
//! Bounded-exhaustive enumeration of module graphs on disk x import forms x layouts x settings x
//! import orders (one or several scripts on one runtime). Every world is executed on the real
//! runtime (real files, real loader) and on a small model of the documented import protocol
//! (resolution, run-once cache, placeholder/cycle detection, failure rollback); complete stdout,
//! the script outcomes, the host-visible exports and the module-cache census (hook H1) must agree.

use crate::common::*;
use crate::run::*;
use koto::prelude::*;
use serde::{Deserialize, Serialize};
use serde_json::json;
use std::cell::RefCell;
use std::collections::{BTreeMap, BTreeSet};

#[derive(Clone, Copy, PartialEq, Eq, Debug, Hash, Serialize, Deserialize)]
pub enum Form {
    Plain,
    As,
    From,
    FromAs,
    Star,
    StrAs,
    FromMissing,
}

const FORMS: [Form; 7] = [Form::Plain, Form::As, Form::From, Form::FromAs, Form::Star, Form::StrAs, Form::FromMissing];

#[derive(Clone, Copy, PartialEq, Eq, Debug, Hash, Serialize, Deserialize)]
pub enum Fail {
    None,
    TopEarly,
    TopLate,
    Test,
    Main,
    /// fails (late) on its first execution only
    Flaky,
    Syntax,
}

const FAILS: [Fail; 6] = [Fail::TopEarly, Fail::TopLate, Fail::Test, Fail::Main, Fail::Flaky, Fail::Syntax];

#[derive(Clone, Debug, Serialize, Deserialize)]
pub struct Imp {
    name: String,
    form: Form,
    wrapped: bool,
}

#[derive(Clone, Debug, Serialize, Deserialize)]
pub struct ModFile {
    label: String,
    imports: Vec<Imp>,
    fail: Fail,
}

#[derive(Clone, Debug, Serialize, Deserialize)]
pub struct Graph {
    /// path relative to the root (normalised) -> module
    files: BTreeMap<String, ModFile>,
    tags: Vec<String>,
}

#[derive(Clone, Debug, Serialize, Deserialize)]
pub struct Variant {
    scripts: Vec<Vec<Imp>>,
    /// second-phase statements appended to later scripts (REPL read-back), by script index
    readback: bool,
    import_tests: bool,
    export_top: bool,
}

// ------------------------------------------------------------------------------------------
// source rendering

fn is_simple(name: &str) -> bool {
    !name.is_empty() && name.chars().all(|c| c.is_ascii_alphanumeric() || c == '_') && !name.chars().next().unwrap().is_ascii_digit()
}

/// (statement, expression for the early export, expression for the late export, names bound)
fn import_stmt(imp: &Imp, label: &str) -> (String, String, String) {
    let n = &imp.name;
    let q = format!("'{n}'");
    let from_name = if is_simple(n) { n.clone() } else { q.clone() };
    match imp.form {
        Form::Plain if is_simple(n) => (format!("import {n}"), format!("{n}.v_{label}"), format!("{n}.w_{label}")),
        Form::As if is_simple(n) => (format!("import {n} as q_{label}"), format!("q_{label}.v_{label}"), format!("q_{label}.w_{label}")),
        Form::Plain | Form::As | Form::StrAs => (format!("import {q} as q_{label}"), format!("q_{label}.v_{label}"), format!("q_{label}.w_{label}")),
        Form::From => (format!("from {from_name} import v_{label}, w_{label}"), format!("v_{label}"), format!("w_{label}")),
        Form::FromAs => (format!("from {from_name} import v_{label} as p_{label}, w_{label} as r_{label}"), format!("p_{label}"), format!("r_{label}")),
        Form::Star => (format!("from {from_name} import *"), format!("v_{label}"), format!("w_{label}")),
        Form::FromMissing => (format!("from {from_name} import nope_{label}"), "0".into(), "0".into()),
    }
}

fn render_import(out: &mut String, imp: &Imp, importer: &str, label: &str) {
    let (stmt, v, w) = import_stmt(imp, label);
    let tag = format!("{importer}:{}", imp.name);
    if imp.wrapped {
        out.push_str(&format!("try\n  {stmt}\n  print 'got:{tag}:{{{v}}},{{{w}}}'\ncatch e\n  print 'caught:{tag}:' + verif_class(e)\n"));
    } else {
        out.push_str(&format!("{stmt}\nprint 'got:{tag}:{{{v}}},{{{w}}}'\n"));
    }
}

fn module_src(g: &Graph, path: &str) -> String {
    let m = &g.files[path];
    let l = &m.label;
    let mut s = String::new();
    s.push_str(&format!("print 'top:{l}'\n"));
    if m.fail == Fail::Syntax {
        s.push_str("export = = 1\n");
        return s;
    }
    s.push_str(&format!("n_{l} = verif_tick '{l}'\n"));
    s.push_str(&format!("export v_{l} = '{l}.v'\n"));
    if m.fail == Fail::TopEarly {
        s.push_str(&format!("throw 'fail:{l}'\n"));
    }
    for imp in &m.imports {
        let target = resolve(g, path, &imp.name).map(|p| g.files[&p].label.clone()).unwrap_or_else(|| "none".into());
        render_import(&mut s, imp, l, &target);
    }
    // a plain reassignment never alters the export
    s.push_str(&format!("v_{l} = 'reassigned'\n"));
    s.push_str(&format!("export w_{l} = '{l}.w'\n"));
    s.push_str(&format!("@test check_{l} = ||\n  print 'test:{l}'\n"));
    if m.fail == Fail::Test {
        s.push_str(&format!("  throw 'fail:{l}'\n"));
    }
    s.push_str(&format!("@main = ||\n  print 'main:{l}'\n"));
    if m.fail == Fail::Main {
        s.push_str(&format!("  throw 'fail:{l}'\n"));
    }
    if m.fail == Fail::TopLate {
        s.push_str(&format!("throw 'fail:{l}'\n"));
    }
    if m.fail == Fail::Flaky {
        s.push_str(&format!("if n_{l} == 1\n  throw 'fail:{l}'\n"));
    }
    s.push_str(&format!("print 'end:{l}'\n"));
    s
}

fn script_src(g: &Graph, v: &Variant, k: usize) -> String {
    let mut s = format!("print 'script:{k}'\n");
    if v.readback && k > 0 {
        // names bound by the imports of the previous entry are visible in this one (REPL mode)
        for imp in &v.scripts[k - 1] {
            if imp.form == Form::FromMissing {
                continue;
            }
            let target = resolve(g, "script.koto", &imp.name).map(|p| g.files[&p].label.clone()).unwrap_or_else(|| "none".into());
            let (_, ve, we) = import_stmt(imp, &target);
            s.push_str(&format!("try\n  print 'readback:{}:{{{ve}}},{{{we}}}'\ncatch e\n  print 'readback-failed:{}'\n", imp.name, imp.name));
        }
    }
    for imp in &v.scripts[k] {
        let target = resolve(g, "script.koto", &imp.name).map(|p| g.files[&p].label.clone()).unwrap_or_else(|| "none".into());
        render_import(&mut s, imp, "s", &target);
    }
    s.push_str(&format!("export sv = {k}\nz = 1\nz = z + {k}\n"));
    s
}

// ------------------------------------------------------------------------------------------
// the model

fn normalise(path: &str) -> Option<String> {
    let mut out: Vec<&str> = vec![];
    for c in path.split('/') {
        match c {
            "" | "." => {}
            ".." => {
                out.pop()?;
            }
            c => out.push(c),
        }
    }
    Some(out.join("/"))
}

fn dir_exists(g: &Graph, dir: &str) -> bool {
    dir.is_empty() || g.files.keys().any(|k| k.starts_with(&format!("{dir}/")))
}

/// `..` steps are only resolvable when every directory named on the way exists
fn path_walkable(g: &Graph, path: &str) -> bool {
    let mut cur: Vec<&str> = vec![];
    let comps: Vec<&str> = path.split('/').collect();
    for (i, c) in comps.iter().enumerate() {
        match *c {
            "" | "." => {}
            ".." => {
                if cur.pop().is_none() {
                    return false;
                }
            }
            c => {
                cur.push(c);
                if i + 1 < comps.len() && !dir_exists(g, &cur.join("/")) {
                    return false;
                }
            }
        }
    }
    true
}

/// documented resolution: `name.koto` first, then `name/main.koto`, relative to the importer
fn resolve(g: &Graph, importer: &str, name: &str) -> Option<String> {
    let dir = match importer.rsplit_once('/') {
        Some((d, _)) => d.to_string(),
        None => String::new(),
    };
    for cand in [format!("{dir}/{name}.koto"), format!("{dir}/{name}/main.koto")] {
        if !path_walkable(g, &cand) {
            continue;
        }
        if let Some(p) = normalise(&cand)
            && g.files.contains_key(&p)
        {
            return Some(p);
        }
    }
    None
}

struct Sim<'a> {
    g: &'a Graph,
    import_tests: bool,
    cache: BTreeMap<String, bool>,
    ticks: BTreeMap<String, u32>,
    out: String,
}

impl Sim<'_> {
    fn import(&mut self, importer: &str, name: &str) -> Result<String, String> {
        let Some(path) = resolve(self.g, importer, name) else {
            return Err(format!("missing:{name}"));
        };
        let f = &self.g.files[&path];
        if f.fail == Fail::Syntax {
            return Err("syntax".into());
        }
        match self.cache.get(&path) {
            Some(false) => Err(format!("cycle:{name}")),
            Some(true) => Ok(f.label.clone()),
            None => {
                self.cache.insert(path.clone(), false);
                match self.body(&path) {
                    Ok(()) => {
                        self.cache.insert(path, true);
                        Ok(f.label.clone())
                    }
                    Err(e) => {
                        self.cache.remove(&path);
                        Err(e)
                    }
                }
            }
        }
    }

    /// Ok(true): the import succeeded and bound its names
    fn do_import(&mut self, importer_path: &str, importer_label: &str, imp: &Imp) -> Result<bool, String> {
        let r = self.import(importer_path, &imp.name).and_then(|label| if imp.form == Form::FromMissing { Err("noname".to_string()) } else { Ok(label) });
        let tag = format!("{importer_label}:{}", imp.name);
        match r {
            Ok(label) => {
                self.out.push_str(&format!("got:{tag}:{label}.v,{label}.w\n"));
                Ok(true)
            }
            Err(e) if imp.wrapped => {
                self.out.push_str(&format!("caught:{tag}:{e}\n"));
                Ok(false)
            }
            Err(e) => Err(e),
        }
    }

    fn body(&mut self, path: &str) -> Result<(), String> {
        let m = self.g.files[path].clone();
        let l = &m.label;
        self.out.push_str(&format!("top:{l}\n"));
        let n = {
            let t = self.ticks.entry(l.clone()).or_insert(0);
            *t += 1;
            *t
        };
        if m.fail == Fail::TopEarly {
            return Err(format!("fail:{l}"));
        }
        for imp in &m.imports {
            self.do_import(path, l, imp)?;
        }
        if m.fail == Fail::TopLate || (m.fail == Fail::Flaky && n == 1) {
            return Err(format!("fail:{l}"));
        }
        self.out.push_str(&format!("end:{l}\n"));
        if self.import_tests {
            self.out.push_str(&format!("test:{l}\n"));
            if m.fail == Fail::Test {
                return Err(format!("fail:{l}"));
            }
        }
        self.out.push_str(&format!("main:{l}\n"));
        if m.fail == Fail::Main {
            return Err(format!("fail:{l}"));
        }
        Ok(())
    }
}

#[derive(Debug, Clone, PartialEq, Eq, Serialize, Deserialize)]
struct StepObs {
    stdout: String,
    outcome: String,
    exports: String,
    cache_done: usize,
    placeholders: usize,
}

fn model_run(g: &Graph, v: &Variant) -> Vec<StepObs> {
    let mut sim = Sim { g, import_tests: v.import_tests, cache: BTreeMap::new(), ticks: BTreeMap::new(), out: String::new() };
    let mut sv: Option<usize> = None;
    let mut z: Option<usize> = None;
    let mut bound: BTreeSet<String> = BTreeSet::new();
    let mut obs = vec![];
    for (k, script) in v.scripts.iter().enumerate() {
        sim.out.push_str(&format!("script:{k}\n"));
        if v.readback && k > 0 {
            for imp in &v.scripts[k - 1] {
                if imp.form == Form::FromMissing {
                    continue;
                }
                if bound.contains(&imp.name) {
                    let label = resolve(g, "script.koto", &imp.name).map(|p| g.files[&p].label.clone()).unwrap_or_default();
                    sim.out.push_str(&format!("readback:{}:{label}.v,{label}.w\n", imp.name));
                } else {
                    sim.out.push_str(&format!("readback-failed:{}\n", imp.name));
                }
            }
        }
        bound.clear();
        let mut outcome = "ok".to_string();
        for imp in script {
            match sim.do_import("script.koto", "s", imp) {
                Ok(got) => {
                    if got {
                        bound.insert(imp.name.clone());
                    }
                }
                Err(e) => {
                    outcome = e;
                    break;
                }
            }
        }
        if outcome == "ok" {
            sv = Some(k);
            z = Some(1 + k);
        }
        let exports = format!("sv={sv:?} z={:?}", if v.export_top { z } else { None });
        obs.push(StepObs {
            stdout: std::mem::take(&mut sim.out),
            outcome,
            exports,
            cache_done: sim.cache.values().filter(|d| **d).count(),
            placeholders: sim.cache.values().filter(|d| !**d).count(),
        });
    }
    obs
}

// ------------------------------------------------------------------------------------------
// the implementation side

thread_local! {
    static TICKS: RefCell<BTreeMap<String, u32>> = const { RefCell::new(BTreeMap::new()) };
}

pub fn classify_msg(text: &str) -> String {
    let pats: [(&str, &str); 4] = [("fail:", "fail"), ("recursive import of module '", "cycle"), ("unable to find module '", "missing"), ("not found in", "noname")];
    let mut best: Option<(usize, usize)> = None;
    for (i, (p, _)) in pats.iter().enumerate() {
        if let Some(pos) = text.find(p)
            && best.is_none_or(|(bp, _)| pos < bp)
        {
            best = Some((pos, i));
        }
    }
    let Some((pos, i)) = best else {
        if text.contains("export = = 1") || text.contains("xpected") {
            return "syntax".into();
        }
        return format!("other:{}", text.lines().next().unwrap_or("").chars().take(60).collect::<String>());
    };
    let rest = &text[pos + pats[i].0.len()..];
    match pats[i].1 {
        "fail" => format!("fail:{}", rest.chars().take_while(|c| c.is_ascii_alphanumeric() || *c == '_').collect::<String>()),
        "cycle" => format!("cycle:{}", rest.split('\'').next().unwrap_or("")),
        "missing" => format!("missing:{}", rest.split('\'').next().unwrap_or("")),
        _ => "noname".into(),
    }
}

fn make_instance(root: &str, v: &Variant) -> Instance {
    let cap = Capture::default();
    let mut settings = KotoSettings::default().with_stdout(cap.clone()).with_stderr(cap.clone());
    settings.run_tests = false;
    settings.vm_settings.run_import_tests = v.import_tests;
    let koto = Koto::with_settings(settings);
    koto.prelude().add_fn("verif_tick", |ctx| match ctx.args() {
        [KValue::Str(name)] => {
            let n = TICKS.with(|t| {
                let mut t = t.borrow_mut();
                let e = t.entry(name.to_string()).or_insert(0);
                *e += 1;
                *e
            });
            // a module body that keeps being re-executed (unbounded import recursion) is cut off
            // here, long after any count the protocol allows
            if n > 40 {
                return runtime_error!("runaway:{name}");
            }
            Ok(KValue::Number((n as i64).into()))
        }
        unexpected => unexpected_args("|String|", unexpected),
    });
    koto.prelude().add_fn("verif_class", |ctx| match ctx.args() {
        [KValue::Str(s)] => {
            if std::env::var("KV_DEBUG").is_ok() {
                eprintln!("verif_class raw: {s:?}");
            }
            Ok(KValue::Str(classify_msg(s).into()))
        }
        [other] => Ok(KValue::Str(format!("nonstring:{}", other.type_as_string()).into())),
        unexpected => unexpected_args("|Any|", unexpected),
    });
    let cfg = RunCfg { export_top_level: v.export_top, script_path: Some(format!("{root}/script.koto")), ..RunCfg::default() };
    Instance { koto, cap, cfg }
}

fn write_graph(root: &str, g: &Graph) {
    let _ = std::fs::remove_dir_all(root);
    std::fs::create_dir_all(root).expect("create world dir");
    std::fs::write(format!("{root}/script.koto"), "# the script under test is passed as text\n").unwrap();
    for path in g.files.keys() {
        let full = format!("{root}/{path}");
        if let Some((d, _)) = full.rsplit_once('/') {
            std::fs::create_dir_all(d).unwrap();
        }
        std::fs::write(&full, module_src(g, path)).unwrap();
    }
}

fn real_run(root: &str, g: &Graph, v: &Variant) -> Vec<StepObs> {
    TICKS.with(|t| t.borrow_mut().clear());
    let mut inst = make_instance(root, v);
    let mut out = vec![];
    for k in 0..v.scripts.len() {
        let src = script_src(g, v, k);
        let obs = inst.run(&src);
        let outcome = match &obs.outcome {
            Outcome::Ok(_) => "ok".to_string(),
            Outcome::Panic(p) => format!("PANIC {p}"),
            other => match &obs.error_text {
                Some(t) => classify_msg(t),
                None => format!("{other:?}"),
            },
        };
        let ex = inst.koto.exports().clone();
        let num = |k: &str| -> Option<usize> {
            match ex.get(k) {
                Some(KValue::Number(n)) => Some(i64::from(n) as usize),
                _ => None,
            }
        };
        let exports = format!("sv={:?} z={:?}", num("sv"), num("z"));
        let (done, ph) = match &obs.state {
            Some(st) => (st.module_cache_entries - st.module_cache_placeholders, st.module_cache_placeholders),
            None => (usize::MAX, usize::MAX),
        };
        out.push(StepObs { stdout: obs.stdout, outcome, exports, cache_done: done, placeholders: ph });
    }
    out
}

// ------------------------------------------------------------------------------------------
// world enumeration

fn plain(name: &str, wrapped: bool) -> Imp {
    Imp { name: name.into(), form: Form::Plain, wrapped }
}

fn lists_upto(n_targets: usize, max_len: usize) -> Vec<Vec<usize>> {
    let mut out = vec![vec![]];
    let mut cur = vec![vec![]];
    for _ in 0..max_len {
        let mut next = vec![];
        for l in &cur {
            for t in 0..n_targets {
                let mut n: Vec<usize> = l.clone();
                n.push(t);
                next.push(n);
            }
        }
        out.extend(next.iter().cloned());
        cur = next;
    }
    out
}

const NAMES: [&str; 3] = ["a", "b", "c"];

/// family G: all import graphs over n file modules (ordered import lists of length <= max_imports,
/// self-imports included), per-module try-wrapping, and at most one failing module of every kind
fn family_graphs(n: usize, max_imports: usize) -> Vec<Graph> {
    let lists = lists_upto(n, max_imports);
    let per_module: Vec<(Vec<usize>, bool)> = lists.iter().flat_map(|l| if l.is_empty() { vec![(l.clone(), false)] } else { vec![(l.clone(), false), (l.clone(), true)] }).collect();
    let mut fails: Vec<Vec<Fail>> = vec![vec![Fail::None; n]];
    for m in 0..n {
        for f in FAILS {
            let mut v = vec![Fail::None; n];
            v[m] = f;
            fails.push(v);
        }
    }
    let mut out = vec![];
    let mut idx = vec![0usize; n];
    loop {
        for fv in &fails {
            let mut files = BTreeMap::new();
            for m in 0..n {
                let (targets, wrapped) = &per_module[idx[m]];
                files.insert(
                    format!("{}.koto", NAMES[m]),
                    ModFile { label: NAMES[m].into(), imports: targets.iter().map(|t| plain(NAMES[*t], *wrapped)).collect(), fail: fv[m] },
                );
            }
            out.push(Graph { files, tags: vec!["G".into()] });
        }
        // next index vector
        let mut i = 0;
        loop {
            if i == n {
                return out;
            }
            idx[i] += 1;
            if idx[i] < per_module.len() {
                break;
            }
            idx[i] = 0;
            i += 1;
        }
    }
}

fn g_variants(n: usize) -> Vec<Variant> {
    let w = |s: &str| plain(s, true);
    let u = |s: &str| plain(s, false);
    let mut seqs: Vec<Vec<Vec<Imp>>> = vec![
        vec![vec![w("a")]],
        vec![vec![u("a")]],
        vec![vec![w("a"), w("a")]],
        vec![vec![w("a")], vec![w("a")]],
        vec![vec![w("a"), w("b")]],
        vec![vec![w("b"), w("a")]],
        vec![vec![u("b")], vec![u("a")], vec![u("b")]],
    ];
    if n >= 3 {
        seqs.push(vec![vec![w("c")]]);
        seqs.push(vec![vec![w("c"), w("b"), w("a")]]);
        seqs.push(vec![vec![u("a")], vec![u("c")], vec![u("b")]]);
    }
    let mut out = vec![];
    for s in seqs {
        for import_tests in [true, false] {
            out.push(Variant { scripts: s.clone(), readback: false, import_tests, export_top: false });
        }
    }
    out
}

/// family F: forms x layouts on the chain script -> a -> b (+ both layouts present, missing b)
fn family_forms() -> Vec<(Graph, Vec<Variant>)> {
    let layouts: [(&str, &[&str]); 3] = [("file", &["{}.koto"]), ("dir", &["{}/main.koto"]), ("both", &["{}.koto", "{}/main.koto"])];
    let mut out = vec![];
    for (la_name, la) in layouts {
        for (lb_name, lb) in layouts.iter().map(|(n, l)| (*n, Some(*l))).chain([("missing", None)]) {
            for fb in [Fail::None, Fail::TopLate, Fail::Flaky] {
                for form_ab in FORMS {
                    for wrap_ab in [false, true] {
                        let mut files = BTreeMap::new();
                        for (i, pat) in la.iter().enumerate() {
                            let path = pat.replace("{}", "a");
                            let label = if i == 0 { "a".to_string() } else { "aSHADOWED".to_string() };
                            files.insert(path, ModFile { label, imports: vec![Imp { name: "b".into(), form: form_ab, wrapped: wrap_ab }], fail: Fail::None });
                        }
                        // b is resolved relative to a: next to a.koto, or inside a/ for a directory module
                        let b_dir = if la_name == "dir" { "a/" } else { "" };
                        if let Some(lb) = lb {
                            for (i, pat) in lb.iter().enumerate() {
                                let path = format!("{b_dir}{}", pat.replace("{}", "b"));
                                let label = if i == 0 { "b".to_string() } else { "bSHADOWED".to_string() };
                                files.insert(path, ModFile { label, imports: vec![], fail: fb });
                            }
                        } else if fb != Fail::None {
                            continue;
                        }
                        let g = Graph { files, tags: vec!["F".into(), format!("a={la_name}"), format!("b={lb_name}")] };
                        let mut vs = vec![];
                        for form_sa in FORMS {
                            for wrap_sa in [false, true] {
                                for import_tests in [true, false] {
                                    let first = Imp { name: "a".into(), form: form_sa, wrapped: wrap_sa };
                                    // three scripts on one runtime: the import, and the same import twice more
                                    vs.push(Variant { scripts: vec![vec![first.clone()], vec![Imp { wrapped: true, ..first.clone() }], vec![Imp { wrapped: true, ..first.clone() }]], readback: false, import_tests, export_top: false });
                                }
                            }
                        }
                        out.push((g, vs));
                    }
                }
            }
        }
    }
    out
}

/// family R: REPL mode (top-level exporting): names bound by every import form in one entry are
/// readable in the next entry; every top-level assignment is exported with its final value
fn family_repl() -> Vec<(Graph, Vec<Variant>)> {
    let mut files = BTreeMap::new();
    files.insert("a.koto".to_string(), ModFile { label: "a".into(), imports: vec![plain("b", true)], fail: Fail::None });
    files.insert("b.koto".to_string(), ModFile { label: "b".into(), imports: vec![], fail: Fail::None });
    files.insert("f.koto".to_string(), ModFile { label: "f".into(), imports: vec![], fail: Fail::TopLate });
    let g = Graph { files, tags: vec!["R".into()] };
    let mut vs = vec![];
    for f1 in FORMS {
        for f2 in FORMS {
            for t2 in ["a", "b", "f", "nomod"] {
                let s0 = vec![Imp { name: "a".into(), form: f1, wrapped: true }, Imp { name: t2.into(), form: f2, wrapped: true }];
                vs.push(Variant { scripts: vec![s0.clone(), vec![], s0.clone(), vec![]], readback: true, import_tests: false, export_top: true });
            }
        }
    }
    vec![(g, vs)]
}

/// family P: path-shaped import names: directory modules with private helpers, `..`, `./`,
/// nested directories, dotted names, the same file reached under several names
fn family_paths() -> Vec<(Graph, Vec<Variant>)> {
    let names_from_root = ["a", "./a", "d/../a", "d/helper", "d", "d/e", "d/e/../../a", "a.x", "d.x", "d/../d", "./d/./helper", "d/e/../helper"];
    let names_from_d = ["../a", "helper", "./helper", "e", "e/../helper", "../d/helper", "../d", "../a.x"];
    let mut out = vec![];
    for from_d in names_from_d.iter().map(|s| Some(*s)).chain([None]) {
        for form_d in [Form::StrAs, Form::From, Form::Star] {
            if from_d.is_none() && form_d != Form::StrAs {
                continue;
            }
            let mut files = BTreeMap::new();
            files.insert("a.koto".to_string(), ModFile { label: "a".into(), imports: vec![], fail: Fail::None });
            files.insert(
                "d/main.koto".to_string(),
                ModFile { label: "d".into(), imports: from_d.iter().map(|n| Imp { name: n.to_string(), form: form_d, wrapped: true }).collect(), fail: Fail::None },
            );
            files.insert("d/helper.koto".to_string(), ModFile { label: "helper".into(), imports: vec![Imp { name: "../a".into(), form: Form::StrAs, wrapped: true }], fail: Fail::None });
            files.insert("d/e/main.koto".to_string(), ModFile { label: "e".into(), imports: vec![Imp { name: "../helper".into(), form: Form::From, wrapped: true }], fail: Fail::None });
            let dotted = from_d.is_some_and(|n| n.contains(".x"));
            let mut tags = vec!["P".to_string()];
            if dotted {
                tags.push("dotted-name".into());
            }
            let g = Graph { files, tags };
            let mut vs = vec![];
            for n1 in names_from_root {
                for n2 in names_from_root {
                    for form in [Form::StrAs, Form::From] {
                        let s = vec![Imp { name: n1.into(), form, wrapped: true }, Imp { name: n2.into(), form, wrapped: true }, Imp { name: "d".into(), form: Form::Plain, wrapped: true }];
                        vs.push(Variant { scripts: vec![s], readback: false, import_tests: false, export_top: false });
                    }
                }
            }
            out.push((g, vs));
        }
    }
    // modules with the same name in different directories, each imported by a neighbouring file
    // (and from the root) on one runtime: a name is resolved relative to the importing file
    for form_inner in [Form::Plain, Form::From, Form::StrAs] {
        let mut files = BTreeMap::new();
        files.insert("helper.koto".to_string(), ModFile { label: "helperROOT".into(), imports: vec![], fail: Fail::None });
        files.insert("p/main.koto".to_string(), ModFile { label: "p".into(), imports: vec![Imp { name: "helper".into(), form: form_inner, wrapped: true }], fail: Fail::None });
        files.insert("p/helper.koto".to_string(), ModFile { label: "helperP".into(), imports: vec![], fail: Fail::None });
        files.insert("q/main.koto".to_string(), ModFile { label: "q".into(), imports: vec![Imp { name: "helper".into(), form: form_inner, wrapped: true }], fail: Fail::None });
        files.insert("q/helper/main.koto".to_string(), ModFile { label: "helperQ".into(), imports: vec![], fail: Fail::None });
        let g = Graph { files, tags: vec!["P".to_string(), "same-name-different-directories".into()] };
        let mut vs = vec![];
        let names = ["p", "q", "helper", "p/helper", "q/helper"];
        for n1 in names {
            for n2 in names {
                for n3 in names {
                    for form in [Form::StrAs, Form::From] {
                        let s: Vec<Imp> = [n1, n2, n3].iter().map(|n| Imp { name: n.to_string(), form, wrapped: true }).collect();
                        // in one script, and spread over three scripts on the same runtime
                        vs.push(Variant { scripts: vec![s.clone()], readback: false, import_tests: false, export_top: false });
                        vs.push(Variant { scripts: s.iter().map(|i| vec![i.clone()]).collect(), readback: false, import_tests: false, export_top: false });
                    }
                }
            }
        }
        out.push((g, vs));
    }
    out
}

fn variant_has_dotted(v: &Variant) -> bool {
    v.scripts.iter().flatten().any(|i| i.name.contains(".x"))
}

// ------------------------------------------------------------------------------------------

#[derive(Serialize, Deserialize)]
struct ReplayFile {
    graph: Graph,
    variant: Variant,
}

fn scratch_root() -> String {
    let base = if std::path::Path::new("/dev/shm").is_dir() { "/dev/shm".to_string() } else { format!("{VERIF_DIR}/target/tmp") };
    format!("{base}/modmc-{}", std::process::id())
}

fn describe(root: &str, g: &Graph, v: &Variant, model: &[StepObs], real: &[StepObs]) -> String {
    let mut s = String::new();
    s.push_str(&format!("tags: {:?}\nsettings: run_import_tests={} export_top_level_ids={}\n", g.tags, v.import_tests, v.export_top));
    for path in g.files.keys() {
        s.push_str(&format!("--- {path} ---\n{}", module_src(g, path)));
    }
    for k in 0..v.scripts.len() {
        s.push_str(&format!("--- script {k} (run as {root}/script.koto) ---\n{}", script_src(g, v, k)));
    }
    for (k, (m, r)) in model.iter().zip(real.iter()).enumerate() {
        if m != r {
            s.push_str(&format!("=== step {k}: MODEL ===\n{m:#?}\n=== step {k}: KOTO ===\n{r:#?}\n"));
        }
    }
    s.push_str(&format!("--- replay-json ---\n{}\n", serde_json::to_string(&ReplayFile { graph: g.clone(), variant: v.clone() }).unwrap()));
    s
}

/// (importer label, name) pairs with two or more `import name` statements in one scope
fn reimport_pairs(g: &Graph, v: &Variant) -> Vec<(String, String)> {
    let mut out = vec![];
    let mut scan = |label: &str, imps: &[Imp]| {
        for (i, a) in imps.iter().enumerate() {
            if a.form == Form::Plain && is_simple(&a.name) && imps[..i].iter().any(|b| b.form == Form::Plain && b.name == a.name) {
                out.push((label.to_string(), a.name.clone()));
            }
        }
    };
    for f in g.files.values() {
        scan(&f.label, &f.imports);
    }
    for sc in &v.scripts {
        scan("s", sc);
    }
    out
}

fn classify(g: &Graph, v: &Variant, model: &[StepObs], real: &[StepObs]) -> Option<String> {
    let k = model.iter().zip(real.iter()).position(|(m, r)| m != r)?;
    let (real_line, model_line) = first_diff(&real[k].stdout, &model[k].stdout);
    // `import 'a.x'` resolves a.koto instead of a.x.koto
    if (g.tags.iter().any(|t| t == "dotted-name") || variant_has_dotted(v)) && (real_line.contains(".x") || model_line.contains(".x")) {
        return Some("dotted-module-name-resolves-to-stem".into());
    }
    // a second `import x` statement in the same scope after the first one failed and was caught is
    // compiled as a use of the local `x` and does nothing
    for (imp, name) in reimport_pairs(g, v) {
        if real_line == format!("caught:{imp}:{name}:noname") && model[k].stdout.contains(&format!("caught:{imp}:{name}:")) {
            return Some("second-import-statement-after-caught-failure-is-a-no-op".into());
        }
    }
    None
}

/// family N: dotted import paths into a module's exported maps bind exactly the named level
fn nested_import_family(root: &str, report: &mut Report) -> u64 {
    let dir = format!("{root}/nested");
    let _ = std::fs::remove_dir_all(&dir);
    std::fs::create_dir_all(&dir).expect("create dir");
    std::fs::write(format!("{dir}/script.koto"), "# text\n").unwrap();
    std::fs::write(
        format!("{dir}/pkg.koto"),
        "print 'top:pkg'\nexport sub = {s1: 'sub.s1', s2: 'sub.s2'}\nexport other = 'pkg.other'\nexport deep = {inner: {d1: 'd1'}, side: 'deep.side'}\nexport size = 'hijacked'\n",
    )
    .unwrap();
    let probe = |names: &[&str]| -> String {
        let mut o = String::new();
        for n in names {
            o.push_str(&format!("try\n  print '{n}=' + '{{{n}}}'\ncatch e\n  print '{n} unbound'\n"));
        }
        o.push_str("try\n  print 'size-of-list=' + '{size [1, 2]}'\ncatch e\n  print 'size-shadowed'\n");
        o
    };
    let all = ["s1", "s2", "sub", "other", "deep", "inner", "d1", "side"];
    let cases: Vec<(&str, Vec<&str>)> = vec![
        ("from pkg.sub import *", vec!["s1", "s2"]),
        ("from pkg.sub import s1", vec!["s1"]),
        ("from pkg.sub import s2 as s1", vec!["s1=sub.s2"]),
        ("from pkg.deep.inner import *", vec!["d1"]),
        ("from pkg.deep import *", vec!["inner", "side"]),
        ("from pkg.deep.inner import d1", vec!["d1"]),
        ("from pkg import sub, other", vec!["sub", "other"]),
        ("from pkg import *", vec!["sub", "other", "deep", "size"]),
        ("import pkg", vec![]),
        ("from pkg.deep import inner as sub", vec!["sub=inner"]),
    ];
    let mut n = 0;
    for (stmt, bound) in cases {
        for export_top in [false, true] {
            for in_function in [false, true] {
                n += 1;
                let body = format!("{stmt}\n{}", probe(&all));
                let src = if in_function { format!("run = ||\n{}\nrun()\n", body.lines().map(|l| format!("  {l}")).collect::<Vec<_>>().join("\n")) } else { body.clone() };
                let v = Variant { scripts: vec![], readback: false, import_tests: false, export_top };
                let mut inst = make_instance(&dir, &v);
                let obs = inst.run(&src);
                // expected: exactly the named level is bound
                let value_of = |name: &str| -> Option<String> {
                    let full = |n: &str| match n {
                        "s1" => "sub.s1".to_string(),
                        "s2" => "sub.s2".to_string(),
                        "other" => "pkg.other".to_string(),
                        "d1" => "d1".to_string(),
                        "side" => "deep.side".to_string(),
                        "sub" => "{s1: 'sub.s1', s2: 'sub.s2'}".to_string(),
                        "inner" => "{d1: 'd1'}".to_string(),
                        "deep" => "{inner: {d1: 'd1'}, side: 'deep.side'}".to_string(),
                        "size" => "hijacked".to_string(),
                        other => other.to_string(),
                    };
                    for b in &bound {
                        if let Some((alias, target)) = b.split_once('=') {
                            if alias == name {
                                return Some(full(match target {
                                    "sub.s2" => "s2",
                                    t => t,
                                }));
                            }
                        } else if *b == name {
                            return Some(full(name));
                        }
                    }
                    None
                };
                let mut want = String::from("top:pkg\n");
                for name in all {
                    match value_of(name) {
                        Some(v) => want.push_str(&format!("{name}={v}\n")),
                        None => want.push_str(&format!("{name} unbound\n")),
                    }
                }
                // a wildcard import of the whole package may shadow `size`; nothing else may
                want.push_str(if bound.contains(&"size") { "size-shadowed\n" } else { "size-of-list=2\n" });
                let got: String = obs.stdout.clone();
                if got != want || !matches!(obs.outcome, Outcome::Ok(_)) {
                    let (a, b) = first_diff(&got, &want);
                    report.fail(
                        None,
                        format!("[N] `{stmt}` (export_top_level_ids={export_top}, in function={in_function}): koto prints {a:?} where exactly the named level is bound: {b:?}"),
                        format!("statement: {stmt}\nexpected:\n{want}\nobserved:\n{}\noutcome: {:?}\n--- pkg.koto is written by the engine (family N) ---\n--- program ---\n{src}", obs.stdout, obs.outcome),
                    );
                }
            }
        }
    }
    let _ = std::fs::remove_dir_all(&dir);
    n
}

pub fn run(args: &Args) -> i32 {
    install_quiet_panic_hook();
    let tier = args.tier;
    let root = scratch_root();
    if let Some(path) = &args.replay {
        let text = std::fs::read_to_string(path).unwrap_or_default();
        let Some((_, js)) = text.split_once("--- replay-json ---\n") else {
            eprintln!("no replay-json section in {path}");
            return 2;
        };
        let rf: ReplayFile = serde_json::from_str(js.trim()).expect("replay json");
        let dir = format!("{root}/replay");
        write_graph(&dir, &rf.graph);
        let model = model_run(&rf.graph, &rf.variant);
        let real = real_run(&dir, &rf.graph, &rf.variant);
        println!("{}", describe(&dir, &rf.graph, &rf.variant, &model, &real));
        println!("agree: {}", model == real);
        let _ = std::fs::remove_dir_all(&root);
        return 0;
    }
    let mut report = Report::new(args, "model_checking");

    // (graph, variants) work list
    let mut work: Vec<(Graph, std::sync::Arc<Vec<Variant>>)> = vec![];
    let mut fam_counts: BTreeMap<&str, (u64, u64)> = BTreeMap::new();
    {
        let mut add = |name: &'static str, gs: Vec<(Graph, std::sync::Arc<Vec<Variant>>)>| {
            let e = fam_counts.entry(name).or_insert((0, 0));
            for (g, vs) in gs {
                e.0 += 1;
                e.1 += vs.len() as u64;
                work.push((g, vs));
            }
        };
        let v2 = std::sync::Arc::new(g_variants(2));
        add("G2: 2 modules, import lists <= 2", family_graphs(2, 2).into_iter().map(|g| (g, v2.clone())).collect());
        let v3 = std::sync::Arc::new(g_variants(3));
        let max3 = tier.pick(1, 2);
        add(if max3 == 1 { "G3: 3 modules, import lists <= 1" } else { "G3: 3 modules, import lists <= 2" }, family_graphs(3, max3).into_iter().map(|g| (g, v3.clone())).collect());
        add("F: forms x layouts on script -> a -> b", family_forms().into_iter().map(|(g, v)| (g, std::sync::Arc::new(v))).collect());
        add("R: REPL read-back of imported names", family_repl().into_iter().map(|(g, v)| (g, std::sync::Arc::new(v))).collect());
        add("P: path-shaped names", family_paths().into_iter().map(|(g, v)| (g, std::sync::Arc::new(v))).collect());
    }

    let nshards = threads() * 8;
    let results = par_shards_big_stack(nshards, 32 << 20, |shard| {
        let dir = format!("{root}/{shard}");
        let mut runs = 0u64;
        let mut steps = 0u64;
        let mut step_states: BTreeSet<u64> = BTreeSet::new();
        let mut samples: Vec<String> = vec![];
        let mut outcomes: BTreeSet<u64> = BTreeSet::new();
        let mut classes: BTreeMap<String, u64> = BTreeMap::new();
        let mut fails: Vec<(Option<String>, String, String)> = vec![];
        let mut per_key: BTreeMap<Option<String>, u64> = BTreeMap::new();
        for (gi, (g, vs)) in work.iter().enumerate() {
            if gi % nshards != shard {
                continue;
            }
            write_graph(&dir, g);
            for v in vs.iter() {
                runs += 1;
                let model = model_run(g, v);
                let real = real_run(&dir, g, v);
                outcomes.insert(hash_of(&format!("{model:?}")));
                if samples.len() < 2 && runs % 997 == 1 {
                    samples.push(format!("{:?} {} => {}", g.tags, serde_json::to_string(&ReplayFile { graph: g.clone(), variant: v.clone() }).unwrap(), model.iter().map(|m| format!("[{} | {} | done={}]", m.stdout.replace('\n', " "), m.outcome, m.cache_done)).collect::<Vec<_>>().join(" ")));
                }
                for st in &model {
                    steps += 1;
                    step_states.insert(hash_of(&format!("{st:?}")));
                    let c = st.outcome.split(':').next().unwrap_or("").to_string();
                    *classes.entry(c).or_insert(0) += 1;
                    for l in st.stdout.lines() {
                        if let Some(rest) = l.strip_prefix("caught:") {
                            let c = format!("caught-{}", rest.split(':').nth(2).unwrap_or(""));
                            *classes.entry(c).or_insert(0) += 1;
                        }
                    }
                }
                if model != real {
                    let k = model.iter().zip(real.iter()).position(|(m, r)| m != r).unwrap_or(0);
                    let (m, r) = (&model[k], &real[k]);
                    let what = if m.stdout != r.stdout {
                        let (a, b) = first_diff(&r.stdout, &m.stdout);
                        format!("script {k}: koto prints {a:?} where the module protocol prints {b:?}")
                    } else if m.outcome != r.outcome {
                        format!("script {k}: koto ends with {:?}, the module protocol with {:?}", r.outcome, m.outcome)
                    } else if m.exports != r.exports {
                        format!("script {k}: host-visible exports are {:?}, expected {:?}", r.exports, m.exports)
                    } else {
                        format!("script {k}: module cache census is done={} placeholders={}, expected done={} placeholders={}", r.cache_done, r.placeholders, m.cache_done, m.placeholders)
                    };
                    let key = classify(g, v, &model, &real);
                    let n = per_key.entry(key.clone()).or_insert(0u64);
                    *n += 1;
                    // full replay text for the first few of every class; unclassified cases are capped
                    if *n <= 3 {
                        fails.push((key, format!("[{}] {what}", g.tags.join(",")), describe(&dir, g, v, &model, &real)));
                    } else if key.is_some() || *n <= 200 {
                        fails.push((key, format!("[{}] {what}", g.tags.join(",")), String::new()));
                    }
                }
            }
        }
        let _ = std::fs::remove_dir_all(&dir);
        (runs, outcomes, classes, fails, steps, step_states, samples)
    });
    let _ = std::fs::remove_dir_all(&root);
    let mut runs = 0;
    let mut outcomes = BTreeSet::new();
    let mut classes: BTreeMap<String, u64> = BTreeMap::new();
    let mut steps = 0u64;
    let mut step_states: BTreeSet<u64> = BTreeSet::new();
    let mut samples: Vec<String> = vec![];
    for (r, o, c, f, st, ss, sm) in results {
        steps += st;
        step_states.extend(ss);
        if samples.len() < 6 {
            samples.extend(sm);
        }
        runs += r;
        outcomes.extend(o);
        for (k, n) in c {
            *classes.entry(k).or_insert(0) += n;
        }
        for (key, what, replay) in f {
            report.fail(key.as_deref(), what, replay);
        }
    }
    let nested = nested_import_family(&root, &mut report);
    let _ = std::fs::remove_dir_all(&root);
    report.cov("nested_import_cases", nested);
    report.cov("worlds_executed", runs);
    report.cov("states", step_states.len() as u64);
    report.cov("transitions", steps);
    report.cov("traces_validated_against_impl", runs);
    report.cov("samples", json!(samples));
    report.cov("states_transitions_meaning", "state = distinct model observation after a script step (output, outcome, exports, cache census); transition = one script executed on the live runtime; trace = one world (files + script sequence) replayed on the real runtime and compared in full");
    report.cov("graphs_on_disk", work.len() as u64);
    report.cov("families", json!(fam_counts.iter().map(|(k, (g, v))| json!({"family": k, "graphs": g, "graph_x_variant_runs": v})).collect::<Vec<_>>()));
    report.cov("distinct_model_observations", outcomes.len() as u64);
    report.cov("model_outcome_and_caught_classes", json!(classes));
    report.cov("exhaustive", true);
    report.cov("rule", "every world = module files written to disk + 1..4 scripts run in sequence on one fresh runtime; oracle = model of the documented import protocol (name.koto before name/main.koto relative to the importer, canonical-path identity, run-once cache, in-progress placeholder => cycle error, rollback of the failed module only, tests-then-@main when run_import_tests) compared on complete stdout (top/test/main/end markers, values seen through every import form, caught error classes), script outcome class, Koto::exports() (sv, z) and the module-cache census from hook H1 after every script");
    report.finish()
}

fn first_diff(a: &str, b: &str) -> (String, String) {
    let mut ai = a.lines();
    let mut bi = b.lines();
    loop {
        match (ai.next(), bi.next()) {
            (Some(x), Some(y)) if x == y => continue,
            (x, y) => return (x.unwrap_or("<end>").to_string(), y.unwrap_or("<end>").to_string()),
        }
    }
}
