//! C19 — rc and arc runtimes behave identically; shared containers are atomic under arc.
//!
//! (a) differential: programs of the progmc families and the re-entrancy product run on the rc
//!     build and on the arc build, both in worker processes under the same harness-owned limits
//!     (tick budget, native stack, allocation cap); observations must be identical.
//! (b) CHESS-style preemption-bounded exploration of real threads: k arc-built runtimes share one
//!     list/map; a cooperative scheduler owns every scheduling decision at lock acquisitions of
//!     the shared container (hook H2); linearizability is decided by brute force against all
//!     sequential orders.

use crate::common::*;
use serde_json::json;
use std::collections::{BTreeSet, HashSet};

pub const ARC_EXE: &str = "/verif/target/arc/release/kv";

// ---------------------------------------------------------------------------------------------
// operation alphabets

#[derive(Clone, Debug)]
pub struct OpDef {
    /// operations that iterate over the live container are compound by construction (the
    /// iterator takes the lock once per element): only panics and deadlocks are judged
    pub compound: bool,
    pub name: &'static str,
    /// statement(s) executing the operation; `{r}` is the export name for the result
    pub code: &'static str,
}

pub fn list_ops() -> Vec<OpDef> {
    let o = |name: &'static str, code| OpDef { compound: matches!(name, "iterate" | "keys" | "destructure-arg" | "destructure-match" | "destructure-for"), name, code };
    vec![
        o("push", "shared.push 7\nexport {r} = 'done'"),
        o("pop", "export {r} = '{shared.pop()}'"),
        o("index0", "export {r} = '{shared[0]}'"),
        o("index-last", "export {r} = '{shared[1]}'"),
        o("last", "export {r} = '{shared.last()}'"),
        o("set-last", "shared[1] = 8\nexport {r} = 'done'"),
        o("remove-last", "export {r} = '{shared.remove 1}'"),
        o("insert-end", "shared.insert 2, 9\nexport {r} = 'done'"),
        o("set0", "shared[0] = 8\nexport {r} = 'done'"),
        o("insert0", "shared.insert 0, 9\nexport {r} = 'done'"),
        o("remove0", "export {r} = '{shared.remove 0}'"),
        o("size", "export {r} = '{size shared}'"),
        o("first", "export {r} = '{shared.first()}'"),
        o("contains", "export {r} = '{shared.contains 2}'"),
        o("to_tuple", "export {r} = '{shared.to_tuple()}'"),
        o("extend", "shared.extend (5, 6)\nexport {r} = 'done'"),
        o("fill", "shared.fill 0\nexport {r} = 'done'"),
        o("reverse", "shared.reverse()\nexport {r} = 'done'"),
        o("sort", "shared.sort()\nexport {r} = 'done'"),
        o("clear", "shared.clear()\nexport {r} = 'done'"),
        o("resize", "shared.resize 3, 4\nexport {r} = 'done'"),
        o("plus", "export {r} = '{(shared + [3]).to_tuple()}'"),
        o("copy", "export {r} = '{(koto.copy shared).to_tuple()}'"),
        o("get1", "export {r} = '{shared.get 1}'"),
        o("slice", "export {r} = '{shared[0..2].to_tuple()}'"),
        o("iterate", "t = 0\nfor x in shared\n  t += x\nexport {r} = '{t}'"),
        o("swap-with-private", "other = [40, 41, 42]\nshared.swap other\nexport {r} = '{other.to_tuple()}'"),
        // element-wise unpacking (several container accesses: compound; must not panic or deadlock)
        o("destructure-arg", "f = |(a, rest...)| a\nexport {r} = '{f shared}'"),
        o("destructure-match", "export {r} = match shared\n  (a, ...) then '{a}'\n  else 'none'"),
        o("destructure-for", "t = 0\nfor (a, ...) in (shared,)\n  t += a\nexport {r} = '{t}'"),
    ]
}

pub fn map_ops() -> Vec<OpDef> {
    let o = |name: &'static str, code| OpDef { compound: matches!(name, "iterate" | "keys"), name, code };
    vec![
        o("insert-new", "shared.insert 'c', 3\nexport {r} = 'done'"),
        o("insert-existing", "export {r} = '{shared.insert 'a', 10}'"),
        o("remove", "export {r} = '{shared.remove 'a'}'"),
        o("get", "export {r} = '{shared.get 'a'}'"),
        o("access", "export {r} = '{shared.b}'"),
        o("access-assign", "shared.a = 11\nexport {r} = 'done'"),
        o("index0", "export {r} = '{shared[0]}'"),
        o("index-assign", "shared[0] = ('z', 26)\nexport {r} = 'done'"),
        o("contains_key", "export {r} = '{shared.contains_key 'b'}'"),
        o("size", "export {r} = '{size shared}'"),
        o("extend", "shared.extend {x: 1, y: 2}\nexport {r} = 'done'"),
        o("sort", "shared.sort()\nexport {r} = 'done'"),
        o("clear", "shared.clear()\nexport {r} = 'done'"),
        o("copy", "export {r} = '{koto.copy shared}'"),
        o("plus", "export {r} = '{shared + {q: 5}}'"),
        o("keys", "export {r} = '{shared.keys().to_tuple()}'"),
        o("get_index", "export {r} = '{shared.get_index 1}'"),
        o("index-last", "export {r} = '{shared[1]}'"),
        o("index-assign-last", "shared[1] = ('y', 25)\nexport {r} = 'done'"),
        o("iterate", "t = 0\nfor k, v in shared\n  t += v\nexport {r} = '{t}'"),
    ]
}

/// program spec sent to an arc worker: kind;threads where each thread is a '+'-joined op list
pub fn spec(kind: &str, threads: &[Vec<&str>], bound: usize) -> String {
    let t: Vec<String> = threads.iter().map(|ops| ops.join("+")).collect();
    format!("{kind};{bound};{}", t.join("|"))
}

// ---------------------------------------------------------------------------------------------
// the scheduler and explorer (arc build only)

#[cfg(feature = "arc")]
pub mod arc_side {
    use super::*;
    use koto::prelude::*;
    use std::cell::Cell;
    use std::sync::{Arc, Condvar, Mutex};

    thread_local! {
        static TID: Cell<Option<usize>> = const { Cell::new(None) };
    }

    struct SchedAbort;

    #[derive(Clone, Debug, PartialEq)]
    enum Status {
        NotStarted,
        Ready,
        Blocked { since_progress: u64, addr: usize, write: bool },
        Finished,
    }

    #[derive(Default, Clone, Debug)]
    pub struct Point {
        pub enabled: Vec<usize>,
        pub chosen: usize, // index into enabled
        pub running_still_enabled: bool,
    }

    struct State {
        status: Vec<Status>,
        current: usize,
        progress: u64,
        prefix: Vec<usize>,
        points: Vec<Point>,
        shared: Vec<usize>,
        abort: bool,
        deadlock: bool,
        divergence: Option<String>,
        steps: u64,
        /// read locks currently held per thread: (addr, count)
        held_reads: Vec<Vec<(usize, usize)>>,
        writer_preference_deadlock: bool,
    }

    pub struct Sched {
        st: Mutex<State>,
        cv: Condvar,
    }

    static CURRENT: Mutex<Option<Arc<Sched>>> = Mutex::new(None);

    fn hook(kind: u8, addr: usize) {
        // guards dropped while a thread unwinds report their release: never panic again there
        if std::thread::panicking() {
            return;
        }
        let Some(tid) = TID.with(|t| t.get()) else { return };
        let sched = { CURRENT.lock().unwrap().clone() };
        let Some(sched) = sched else { return };
        sched.point(tid, kind, addr);
    }

    impl Sched {
        fn enabled(st: &State) -> Vec<usize> {
            // canonical order: the running thread first if still enabled, then ascending ids
            let mut v = vec![];
            let is_enabled = |i: usize| match &st.status[i] {
                Status::Ready => true,
                Status::Blocked { since_progress, .. } => st.progress > *since_progress,
                _ => false,
            };
            if is_enabled(st.current) {
                v.push(st.current);
            }
            for i in 0..st.status.len() {
                if i != st.current && is_enabled(i) {
                    v.push(i);
                }
            }
            v
        }

        /// called with the state locked by thread `tid`, which is the running thread
        fn decide_and_switch<'a>(&'a self, mut st: std::sync::MutexGuard<'a, State>, tid: usize, i_am_enabled: bool) -> std::sync::MutexGuard<'a, State> {
            st.steps += 1;
            if st.steps > 5000 {
                st.abort = true;
                st.divergence = Some("step limit exceeded (livelock?)".into());
                self.cv.notify_all();
                drop(st);
                std::panic::panic_any(SchedAbort);
            }
            let enabled = Self::enabled(&st);
            if enabled.is_empty() {
                // nobody can run: deadlock (or everything finished)
                if st.status.iter().any(|s| !matches!(s, Status::Finished)) {
                    st.deadlock = true;
                    st.abort = true;
                    self.cv.notify_all();
                    drop(st);
                    std::panic::panic_any(SchedAbort);
                }
                return st;
            }
            let idx = st.points.len();
            let choice = if idx < st.prefix.len() {
                let c = st.prefix[idx];
                if c >= enabled.len() {
                    st.divergence = Some(format!("replayed choice {c} out of range ({} enabled) at point {idx}", enabled.len()));
                    st.abort = true;
                    self.cv.notify_all();
                    drop(st);
                    std::panic::panic_any(SchedAbort);
                }
                c
            } else {
                0
            };
            let running_still_enabled = i_am_enabled && enabled.first() == Some(&tid);
            st.points.push(Point { enabled: enabled.clone(), chosen: choice, running_still_enabled });
            let next = enabled[choice];
            if let Status::Blocked { .. } = st.status[next] {
                st.status[next] = Status::Ready;
            }
            st.current = next;
            if next != tid {
                self.cv.notify_all();
                // wait for my turn
                loop {
                    st = self.cv.wait(st).unwrap();
                    if st.abort {
                        drop(st);
                        std::panic::panic_any(SchedAbort);
                    }
                    if st.current == tid && matches!(st.status[tid], Status::Ready) {
                        break;
                    }
                }
            }
            st
        }

        fn point(&self, tid: usize, kind: u8, addr: usize) {
            let mut st = self.st.lock().unwrap();
            if st.abort {
                drop(st);
                std::panic::panic_any(SchedAbort);
            }
            if !st.shared.contains(&addr) {
                return;
            }
            use koto_memory::verif_sched as vs;
            // bookkeeping events: which read locks does the thread hold
            match kind {
                vs::ACQUIRED_READ => {
                    match st.held_reads[tid].iter_mut().find(|(a, _)| *a == addr) {
                        Some(e) => e.1 += 1,
                        None => st.held_reads[tid].push((addr, 1)),
                    }
                    return;
                }
                vs::RELEASED_READ => {
                    if let Some(e) = st.held_reads[tid].iter_mut().find(|(a, _)| *a == addr) {
                        e.1 = e.1.saturating_sub(1);
                    }
                    return;
                }
                vs::ACQUIRED_WRITE | vs::RELEASED_WRITE => return,
                _ => {}
            }
            // parking_lot's RwLock prefers writers: a read acquisition waits while a writer is
            // parked. A thread that already holds a read lock on the cell and asks for another one
            // while a writer is waiting deadlocks with that writer (the try-loop twins alone never
            // show this, so it is modelled here).
            if matches!(kind, vs::READ | vs::TRY_READ) && kind == vs::READ {
                let holds = st.held_reads[tid].iter().any(|(a, c)| *a == addr && *c > 0);
                let writer_waiting = st.status.iter().enumerate().any(|(i, s)| {
                    i != tid && matches!(s, Status::Blocked { addr: a, write: true, .. } if *a == addr)
                });
                if holds && writer_waiting {
                    st.deadlock = true;
                    st.writer_preference_deadlock = true;
                    st.abort = true;
                    self.cv.notify_all();
                    drop(st);
                    std::panic::panic_any(SchedAbort);
                }
            }
            let blocked = kind == vs::BLOCKED_READ || kind == vs::BLOCKED_WRITE;
            if blocked {
                let p = st.progress;
                st.status[tid] = Status::Blocked { since_progress: p, addr, write: kind == vs::BLOCKED_WRITE };
                let _st = self.decide_and_switch(st, tid, false);
            } else {
                // arriving at a new scheduling point is progress
                st.progress += 1;
                st.status[tid] = Status::Ready;
                let mut st = self.decide_and_switch(st, tid, true);
                // about to really acquire: the writer-preference rule once more (a writer may
                // have started waiting while this thread was switched out)
                if kind == vs::READ {
                    let holds = st.held_reads[tid].iter().any(|(a, c)| *a == addr && *c > 0);
                    let writer_waiting = st.status.iter().enumerate().any(|(i, s)| {
                        i != tid && matches!(s, Status::Blocked { addr: a, write: true, .. } if *a == addr)
                    });
                    if holds && writer_waiting {
                        st.deadlock = true;
                        st.writer_preference_deadlock = true;
                        st.abort = true;
                        self.cv.notify_all();
                        drop(st);
                        std::panic::panic_any(SchedAbort);
                    }
                }
            }
        }

        fn start(&self, tid: usize) {
            let mut st = self.st.lock().unwrap();
            st.status[tid] = Status::Ready;
            self.cv.notify_all();
            // wait until every thread is ready and it is my turn
            loop {
                if st.abort {
                    drop(st);
                    std::panic::panic_any(SchedAbort);
                }
                let all_started = st.status.iter().all(|s| !matches!(s, Status::NotStarted));
                if all_started && st.current == tid {
                    break;
                }
                st = self.cv.wait(st).unwrap();
            }
        }

        fn finish(&self, tid: usize) {
            let mut st = self.st.lock().unwrap();
            st.status[tid] = Status::Finished;
            st.progress += 1;
            if st.abort {
                self.cv.notify_all();
                return;
            }
            let enabled = Self::enabled(&st);
            if enabled.is_empty() {
                if st.status.iter().any(|s| !matches!(s, Status::Finished)) {
                    st.deadlock = true;
                    st.abort = true;
                }
                self.cv.notify_all();
                return;
            }
            // thread end is a scheduling point too (choice among the remaining threads)
            let idx = st.points.len();
            let choice = if idx < st.prefix.len() { st.prefix[idx].min(enabled.len() - 1) } else { 0 };
            st.points.push(Point { enabled: enabled.clone(), chosen: choice, running_still_enabled: false });
            let next = enabled[choice];
            if let Status::Blocked { .. } = st.status[next] {
                st.status[next] = Status::Ready;
            }
            st.current = next;
            self.cv.notify_all();
        }
    }

    #[derive(Debug, Clone)]
    pub struct Execution {
        pub points: Vec<Point>,
        pub outcome: String,
        pub deadlock: bool,
        pub writer_preference_deadlock: bool,
        pub panics: Vec<String>,
        pub divergence: Option<String>,
    }

    fn initial_container(kind: &str) -> KValue {
        if kind == "list" {
            KValue::List(KList::from_slice(&[KValue::Number(1.into()), KValue::Number(2.into())]))
        } else {
            let m = KMap::default();
            m.insert("a", 1);
            m.insert("b", 2);
            KValue::Map(m)
        }
    }

    fn shared_addr(v: &KValue) -> Vec<usize> {
        match v {
            KValue::List(l) => {
                let a = {
                    let g = l.data();
                    &*g as *const _ as *const () as usize
                };
                vec![a]
            }
            KValue::Map(m) => {
                let a = {
                    let g = m.data();
                    &*g as *const _ as *const () as usize
                };
                vec![a]
            }
            _ => vec![],
        }
    }

    fn render_container(v: &KValue) -> String {
        let mut koto = Koto::with_settings(KotoSettings::default());
        koto.value_to_string(v.clone()).unwrap_or_else(|e| format!("<error {e}>"))
    }

    fn thread_script(ops: &[&OpDef], tid: usize) -> String {
        let mut s = String::new();
        for (i, op) in ops.iter().enumerate() {
            s.push_str(&op.code.replace("{r}", &format!("r{tid}_{i}")));
            s.push('\n');
        }
        s
    }

    fn collect_results(koto: &Koto, n_ops: usize, tid: usize) -> Vec<String> {
        (0..n_ops)
            .map(|i| match koto.exports().get(format!("r{tid}_{i}").as_str()) {
                Some(KValue::Str(s)) => s.to_string(),
                Some(_) => "<non-string>".into(),
                None => "<missing>".into(),
            })
            .collect()
    }

    /// one controlled execution
    pub fn run_once(kind: &str, threads: &[Vec<OpDef>], prefix: &[usize]) -> Execution {
        let shared = initial_container(kind);
        let n = threads.len();
        let sched = Arc::new(Sched {
            st: Mutex::new(State {
                status: vec![Status::NotStarted; n],
                current: 0,
                progress: 0,
                prefix: prefix.to_vec(),
                points: vec![],
                shared: shared_addr(&shared),
                abort: false,
                deadlock: false,
                divergence: None,
                steps: 0,
                held_reads: vec![vec![]; n],
                writer_preference_deadlock: false,
            }),
            cv: Condvar::new(),
        });
        *CURRENT.lock().unwrap() = Some(sched.clone());
        koto_memory::verif_sched::set_hook(Some(hook));
        let mut handles = vec![];
        for (tid, ops) in threads.iter().enumerate() {
            let ops = ops.clone();
            let shared = shared.clone();
            let sched = sched.clone();
            handles.push(std::thread::spawn(move || {
                let r = std::panic::catch_unwind(std::panic::AssertUnwindSafe(|| {
                    let mut koto = Koto::with_settings(KotoSettings::default());
                    koto.prelude().insert("shared", shared);
                    let refs: Vec<&OpDef> = ops.iter().collect();
                    let script = thread_script(&refs, tid);
                    let chunk = koto.compile(script.as_str());
                    TID.with(|t| t.set(Some(tid)));
                    sched.start(tid);
                    let res = match chunk {
                        Ok(c) => match koto.run(c) {
                            Ok(_) => collect_results(&koto, ops.len(), tid),
                            Err(e) => {
                                let mut r = collect_results(&koto, ops.len(), tid);
                                r.push(format!("error: {}", e.to_string().lines().next().unwrap_or("")));
                                r
                            }
                        },
                        Err(e) => vec![format!("compile error: {e}")],
                    };
                    TID.with(|t| t.set(None));
                    res
                }));
                TID.with(|t| t.set(None));
                let out = match r {
                    Ok(res) => Ok(res),
                    Err(p) => {
                        if p.downcast_ref::<SchedAbort>().is_some() {
                            Err("aborted".to_string())
                        } else {
                            Err(format!("panic: {}", take_last_panic()))
                        }
                    }
                };
                sched.finish(tid);
                out
            }));
        }
        let mut results = vec![];
        let mut panics = vec![];
        for h in handles {
            match h.join() {
                Ok(Ok(r)) => results.push(r.join(",")),
                Ok(Err(e)) => {
                    if e.starts_with("panic") {
                        panics.push(e.clone());
                    }
                    results.push(e);
                }
                Err(_) => results.push("join failed".into()),
            }
        }
        koto_memory::verif_sched::set_hook(None);
        *CURRENT.lock().unwrap() = None;
        let st = sched.st.lock().unwrap();
        let final_contents = render_container(&shared);
        Execution {
            points: st.points.clone(),
            outcome: format!("[{}] final={}", results.join(" | "), final_contents),
            deadlock: st.deadlock,
            writer_preference_deadlock: st.writer_preference_deadlock,
            panics,
            divergence: st.divergence.clone(),
        }
    }

    /// sequential reference: every merge order of the threads' programs on a fresh container
    pub fn sequential_outcomes(kind: &str, threads: &[Vec<OpDef>]) -> BTreeSet<String> {
        let mut orders: Vec<Vec<usize>> = vec![];
        fn gen_orders(remaining: &mut Vec<usize>, cur: &mut Vec<usize>, out: &mut Vec<Vec<usize>>) {
            if remaining.iter().all(|r| *r == 0) {
                out.push(cur.clone());
                return;
            }
            for t in 0..remaining.len() {
                if remaining[t] > 0 {
                    remaining[t] -= 1;
                    cur.push(t);
                    gen_orders(remaining, cur, out);
                    cur.pop();
                    remaining[t] += 1;
                }
            }
        }
        let mut remaining: Vec<usize> = threads.iter().map(|t| t.len()).collect();
        gen_orders(&mut remaining, &mut vec![], &mut orders);
        let mut outs = BTreeSet::new();
        for order in orders {
            let shared = initial_container(kind);
            let mut kotos: Vec<Koto> = threads
                .iter()
                .map(|_| {
                    let k = Koto::with_settings(KotoSettings::default());
                    k.prelude().insert("shared", shared.clone());
                    k
                })
                .collect();
            let mut next_op = vec![0usize; threads.len()];
            let mut errors: Vec<Option<String>> = vec![None; threads.len()];
            for t in order {
                let i = next_op[t];
                next_op[t] += 1;
                if errors[t].is_some() {
                    continue; // the thread's script stopped at its first error
                }
                let code = threads[t][i].code.replace("{r}", &format!("r{t}_{i}"));
                let r = std::panic::catch_unwind(std::panic::AssertUnwindSafe(|| kotos[t].compile_and_run(code.as_str())));
                match r {
                    Ok(Err(e)) => errors[t] = Some(format!("error: {}", e.to_string().lines().next().unwrap_or(""))),
                    Err(_) => errors[t] = Some(format!("panic in the sequential reference: {}", take_last_panic())),
                    _ => {}
                }
            }
            let mut results = vec![];
            for (t, ops) in threads.iter().enumerate() {
                let mut r = collect_results(&kotos[t], ops.len(), t);
                if let Some(e) = &errors[t] {
                    r.push(e.clone());
                }
                results.push(r.join(","));
            }
            outs.insert(format!("[{}] final={}", results.join(" | "), render_container(&shared)));
        }
        outs
    }

    pub struct Explored {
        pub schedules: u64,
        pub points: u64,
        pub outcomes: BTreeSet<String>,
        pub violations: Vec<(String, String)>, // (what, schedule)
    }

    /// iterative context bounding: all schedules with <= bound preemptions
    pub fn explore(kind: &str, threads: &[Vec<OpDef>], bound: usize) -> Explored {
        let allowed = sequential_outcomes(kind, threads);
        let mut ex = Explored { schedules: 0, points: 0, outcomes: BTreeSet::new(), violations: vec![] };
        let mut stack: Vec<Vec<usize>> = vec![vec![]];
        let mut seen_prefixes: HashSet<Vec<usize>> = HashSet::new();
        while let Some(prefix) = stack.pop() {
            if ex.schedules > 3000 {
                ex.violations.push(("machinery: schedule cap (3000) reached".into(), format!("{prefix:?}")));
                break;
            }
            let x = run_once(kind, threads, &prefix);
            ex.schedules += 1;
            ex.points += x.points.len() as u64;
            let choices: Vec<usize> = x.points.iter().map(|p| p.chosen).collect();
            if let Some(d) = &x.divergence {
                ex.violations.push((format!("machinery: {d}"), format!("{choices:?}")));
                continue;
            }
            if x.deadlock {
                let how = if x.writer_preference_deadlock {
                    "deadlock: a thread asks for a second read lock on the container while holding one and a writer is waiting (parking_lot prefers writers: both wait forever)"
                } else {
                    "deadlock: no thread can make progress"
                };
                ex.violations.push((format!("{how}; outcome so far {}", x.outcome), format!("{choices:?}")));
            } else if !x.panics.is_empty() {
                ex.violations.push((format!("panic in a thread: {}", x.panics.join(" / ")), format!("{choices:?}")));
            } else {
                ex.outcomes.insert(x.outcome.clone());
                let compound = threads.iter().any(|t| t.iter().any(|o| o.compound));
                if !compound && !allowed.contains(&x.outcome) {
                    ex.violations.push((
                        format!("not linearizable: observed {} which no sequential order produces (sequential outcomes: {:?})", x.outcome, allowed),
                        format!("{choices:?}"),
                    ));
                }
            }
            // branch on alternatives beyond the prefix
            let mut preemptions = 0usize;
            for i in 0..x.points.len() {
                let p = &x.points[i];
                if i >= prefix.len() {
                    for alt in 1..p.enabled.len() {
                        let cost = preemptions + if p.running_still_enabled { 1 } else { 0 };
                        if cost > bound {
                            continue;
                        }
                        let mut np: Vec<usize> = choices[..i].to_vec();
                        np.push(alt);
                        if seen_prefixes.insert(np.clone()) {
                            stack.push(np);
                        }
                    }
                }
                if p.chosen != 0 && p.running_still_enabled {
                    preemptions += 1;
                }
            }
        }
        ex
    }

    /// worker: explores one program spec, answers a summary line
    pub fn worker_explore(req: &str) -> String {
        let parts: Vec<&str> = req.splitn(3, ';').collect();
        if parts.len() < 3 {
            return "bad request".into();
        }
        let kind = parts[0];
        let bound: usize = parts[1].parse().unwrap_or(2);
        let all_ops = if kind == "list" { list_ops() } else { map_ops() };
        let threads: Vec<Vec<OpDef>> = parts[2]
            .split('|')
            .map(|t| t.split('+').filter_map(|n| all_ops.iter().find(|o| o.name == n).cloned()).collect())
            .collect();
        // determinism: the default schedule twice
        let a = run_once(kind, &threads, &[]);
        let b = run_once(kind, &threads, &[]);
        if a.outcome != b.outcome || a.points.len() != b.points.len() {
            return format!("nondeterministic\t0\t0\t0\t{} vs {}", a.outcome, b.outcome);
        }
        let ex = explore(kind, &threads, bound);
        let viol: Vec<String> = ex.violations.iter().take(3).map(|(w, s)| format!("{w} @schedule {s}")).collect();
        format!("ok\t{}\t{}\t{}\t{}", ex.schedules, ex.points, ex.outcomes.len(), viol.join(" ## "))
    }

    /// worker for the rc/arc differential: runs a script under arc (single thread; a lock that
    /// would block is a self-deadlock)
    pub fn worker_arc_run(src: &str) -> String {
        fn single_hook(kind: u8, _addr: usize) {
            if kind == koto_memory::verif_sched::BLOCKED_READ || kind == koto_memory::verif_sched::BLOCKED_WRITE {
                std::panic::panic_any(SelfDeadlock);
            }
        }
        struct SelfDeadlock;
        koto_memory::verif_sched::set_hook(Some(single_hook));
        let (cfg, src) = super::differential_request(src);
        let r = std::panic::catch_unwind(|| crate::run::run_script(src, &cfg));
        koto_memory::verif_sched::set_hook(None);
        match r {
            Ok(obs) => super::differential_answer(&obs),
            Err(p) => {
                if p.downcast_ref::<SelfDeadlock>().is_some() {
                    "\u{1}self-deadlock\u{3}0".into()
                } else {
                    "\u{1}panic\u{3}0".into()
                }
            }
        }
    }
}

/// the rc side of the differential for programs that may exhaust memory (worker mode `rc-run`)
pub fn worker_rc_run(src: &str) -> String {
    let (cfg, src) = differential_request(src);
    match std::panic::catch_unwind(|| crate::run::run_script(src, &cfg)) {
        Ok(obs) => differential_answer(&obs),
        Err(_) => "\u{1}panic\u{3}0".to_string(),
    }
}

// The differential's resource limits are owned by the harness and identical on both builds:
// an instruction (tick) budget per program, a fixed native stack, and a cap on allocated bytes.
// The supervisor's address-space and wall limits are backstops that no program of the unchanged
// tree comes near.

/// native stack of the thread that runs the programs (the main thread's depends on `ulimit -s`)
pub const DIFF_STACK_BYTES: usize = 64 << 20;
/// allocation cap per program (see memcap.rs); unbounded growth aborts the worker here
pub const DIFF_MEM_CAP_BYTES: usize = 512 << 20;
/// tick budget of the generated-family programs
pub const DIFF_TICKS_FAMILIES: u64 = 2_000_000;
/// tick budget of the re-entrancy product (3-element containers; a callback that inserts at the
/// front of the list it is called for makes each tick cost O(size): quadratic native work)
pub const DIFF_TICKS_REENTRANT: u64 = 50_000;
const DIFF_WALL: std::time::Duration = std::time::Duration::from_secs(120);
const DIFF_ADDRESS_SPACE_KB: u64 = 4_000_000;

/// worker side of the rc/arc differential (modes `rc-run`, `arc-run`)
pub fn differential_worker(handle: fn(&str) -> String) -> i32 {
    std::thread::Builder::new()
        .stack_size(DIFF_STACK_BYTES)
        .spawn(move || {
            crate::memcap::arm(DIFF_MEM_CAP_BYTES);
            crate::workers::worker_loop(&mut |req| {
                crate::memcap::rebase();
                handle(req)
            })
        })
        .expect("spawn worker thread")
        .join()
        .unwrap_or(2)
}

fn differential_request(req: &str) -> (crate::run::RunCfg, &str) {
    let (budget_ticks, src) = match req.split_once('\n') {
        Some((head, src)) if head.starts_with("ticks=") => (head[6..].parse().unwrap_or(DIFF_TICKS_FAMILIES), src),
        _ => (DIFF_TICKS_FAMILIES, req),
    };
    (crate::run::RunCfg { budget_ticks, ..crate::run::RunCfg::default() }, src)
}

/// `<stdout>\u{1}<outcome>\u{3}<ticks>`: ticks are reported for the evidence, not compared
fn differential_answer(obs: &crate::run::Obs) -> String {
    format!("{}\u{1}{}\u{3}{}", obs.stdout.replace('\n', "\u{2}"), outcome_text(&obs.outcome), obs.ticks)
}

/// One side's observation of one program
#[derive(Clone, Debug, PartialEq, Eq)]
enum DiffObs {
    /// `<stdout>\u{1}<outcome>`
    Observed(String),
    /// the program exhausted the memory cap / native stack (worker died) or gave no answer
    /// within the supervisor's wall limit: it has neither a result nor a complete output
    Exhausted(&'static str),
}

fn differential_side(exe: &str, mode: &str, requests: &[String]) -> (Vec<DiffObs>, Vec<u64>) {
    let answers = crate::workers::run_pool_exe(exe, mode, requests, threads(), DIFF_WALL, DIFF_ADDRESS_SPACE_KB);
    let mut obs = vec![];
    let mut ticks = vec![];
    for a in answers {
        match a {
            crate::workers::WorkerAnswer::Line(l) => {
                let l = l.replace("\\n", "\n");
                let (o, t) = l.rsplit_once('\u{3}').unwrap_or((l.as_str(), "0"));
                ticks.push(t.parse().unwrap_or(0));
                obs.push(DiffObs::Observed(o.to_string()));
            }
            crate::workers::WorkerAnswer::Died => {
                ticks.push(0);
                obs.push(DiffObs::Exhausted("worker died (memory cap / native stack)"));
            }
            crate::workers::WorkerAnswer::Hung => {
                ticks.push(0);
                obs.push(DiffObs::Exhausted("no answer within the wall limit"));
            }
        }
    }
    (obs, ticks)
}

pub fn outcome_text(o: &crate::run::Outcome) -> String {
    use crate::run::Outcome::*;
    match o {
        Ok(s) => format!("ok:{s}"),
        Thrown(s) => format!("thrown:{}", s.lines().next().unwrap_or("")),
        Runtime { kind, .. } => format!("runtime:{kind}"),
        CompileErr { .. } => "compile-error".into(),
        Timeout => "timeout".into(),
        Panic(_) => "panic".into(),
        Budget => "budget".into(),
    }
}

// ---------------------------------------------------------------------------------------------
// orchestration (rc build)

/// callbacks (and overloaded comparison operators) that read or mutate the container whose
/// core-library function is running them: product of callback-taking functions x effects
pub fn reentrant_programs() -> Vec<String> {
    let mut out = vec![];
    let list_effects = ["size l", "l.push 9", "l.pop()", "l.clear()", "l.sort()", "l.extend l", "l.to_tuple()", "l[0] = 5", "l.insert 0, 7", "l.iter().next()", "koto.copy l", "l == l", "'{l}'", "l.reverse()", "l.resize 1, 0"];
    let list_calls = [
        "l.sort cb", "l.transform cb", "l.retain pb", "l.each(cb).to_list()", "l.keep(pb).to_list()", "l.fold 0, fb", "l.find pb", "l.any pb", "l.all pb", "l.position pb", "l.consume cb", "l.min cb", "l.max cb", "l.min_max cb",
        "l.iter().each(cb).count()", "l.each(cb).reversed().to_list()", "l.chunks(2).each(cb).to_list()", "l.zip(l.each cb).to_list()", "l.fill cb", "l.sort(cb).to_tuple()",
    ];
    for e in list_effects {
        for c in list_calls {
            out.push(format!("l = [3, 1, 2]\ncb = |x|\n  {e}\n  x\npb = |x|\n  {e}\n  true\nfb = |a, x|\n  {e}\n  a\ntry\n  r = {c}\n  print r\ncatch err\n  print 'error'\nprint l\n"));
        }
        // overloaded comparison operators running under sort / min / max
        for c in ["l.sort()", "l.min()", "l.max()", "l.min_max()", "l.sort |x| x", "l.contains l[0]", "l == [l[0], l[1]]", "l == [l[0], l[1], l[2]]", "[l[2], l[1], l[0]] == l", "(l, 1) == (koto.copy(l), 1)", "l != koto.copy(l)", "{k: l} == {k: koto.copy(l)}"] {
            out.push(format!(
                "l = []\nmk = |n|\n  n: n\n  @<: |o|\n    {e}\n    self.n < o.n\n  @==: |o|\n    {e}\n    self.n == o.n\n  @display: || 'o{{self.n}}'\nl.push mk 2\nl.push mk 1\nl.push mk 3\ntry\n  r = {c}\n  print r\ncatch err\n  print 'error'\nprint l\n"
            ));
        }
    }
    // the same with the objects wrapped in tuples / lists (comparisons recurse into the wrappers)
    for e in list_effects {
        for (open, close) in [("(", ",)"), ("[", "]"), ("{k: ", "}")] {
            for c in ["l.sort()", "l.contains l[0]", "l.retain l[0]", "l.retain WRAP(mk 1)", "l.contains WRAP(mk 1)", "l == [l[0], l[1], l[2]]", "l.min()", "l.position |x| x == l[1]"] {
                let c = c.replace("WRAP(mk 1)", &format!("{open}mk(1){close}"));
                out.push(format!(
                    "l = []\nmk = |n|\n  n: n\n  @<: |o|\n    {e}\n    self.n < o.n\n  @==: |o|\n    {e}\n    self.n == o.n\n  @display: || 'o{{self.n}}'\nl.push {open}mk(2){close}\nl.push {open}mk(1){close}\nl.push {open}mk(3){close}\ntry\n  r = {c}\n  print r\ncatch err\n  print 'error'\nprint size l\n"
                ));
            }
        }
    }
    // @display of an element running under the display of its container
    for e in list_effects {
        for c in ["'{l}'", "'{l:?}'", "'{(l, 1)}'", "'{[l]}'", "l.to_string()"] {
            out.push(format!(
                "l = []\nmk = |n|\n  n: n\n  @display: ||\n    {e}\n    'o{{self.n}}'\nl.push mk 2\nl.push mk 1\nl.push mk 3\ntry\n  r = {c}\n  print r\ncatch err\n  print 'error'\nprint size l\n"
            ));
        }
    }
    let map_effects = ["size m", "m.insert 'z', 1", "m.remove 'a'", "m.clear()", "m.sort()", "m.extend m", "m.keys().to_list()", "m.a = 5", "'{m}'", "koto.copy m", "m == m", "m.get 'a'", "m[0] = ('q', 1)"];
    let map_calls = ["m.sort kb", "m.update 'a', cb", "m.update 'n', 0, cb", "m.each(pairb).to_list()", "m.keep(pairp).to_map()", "m.fold 0, fb", "m.find pairp", "m.any pairp", "m.keys().each(cb).to_list()", "m.values().each(cb).to_list()", "m.consume pairb", "m.min pairb"];
    for e in map_effects {
        for c in map_calls {
            out.push(format!(
                "m = {{a: 1, b: 2}}\ncb = |x|\n  {e}\n  x\nkb = |k, v|\n  {e}\n  v\npairb = |p|\n  {e}\n  p\npairp = |p|\n  {e}\n  true\nfb = |a, x|\n  {e}\n  a\ntry\n  r = {c}\n  print r\ncatch err\n  print 'error'\nprint m\n"
            ));
        }
    }
    for e in map_effects {
        for c in ["'{m}'", "'{m:?}'", "'{(m, 1)}'", "'{[m]}'", "m.to_string()"] {
            out.push(format!(
                "m = {{a: 1, b: 2}}\nmk = |n|\n  n: n\n  @display: ||\n    {e}\n    'o{{self.n}}'\nm.c = mk 1\nm.d = mk 2\ntry\n  r = {c}\n  print r\ncatch err\n  print 'error'\nprint size m\n"
            ));
        }
    }
    out
}

pub fn run(args: &Args) -> i32 {
    install_quiet_panic_hook();
    let tier = args.tier;
    if !std::path::Path::new(ARC_EXE).exists() {
        eprintln!("machinery failure: {ARC_EXE} missing (run setup)");
        return 2;
    }
    if let Some(path) = &args.replay {
        let text = std::fs::read_to_string(path).unwrap_or_default();
        if let Some(sp) = text.lines().find_map(|l| l.strip_prefix("spec: ")) {
            let ans = crate::workers::run_pool_exe(ARC_EXE, "sched-explore", &[sp.to_string()], 1, std::time::Duration::from_secs(120), 4_000_000);
            println!("{ans:?}");
            let bad = matches!(&ans[0], crate::workers::WorkerAnswer::Line(l) if l.split('\t').nth(4).map(|v| !v.is_empty()).unwrap_or(true));
            if bad {
                println!("VIOLATION property={} replay={}", args.property, path);
                return 1;
            }
            return 0;
        }
        if let Some((_, src)) = text.split_once("--- program ---\n") {
            // a program of the rc/arc differential: both builds again, same limits
            let ticks = if reentrant_programs().iter().any(|p| p == src) { DIFF_TICKS_REENTRANT } else { DIFF_TICKS_FAMILIES };
            let requests = vec![format!("ticks={ticks}\n{src}")];
            let rc_exe = std::env::current_exe().expect("current exe").display().to_string();
            let (r, _) = differential_side(&rc_exe, "rc-run", &requests);
            let (a, _) = differential_side(ARC_EXE, "arc-run", &requests);
            println!("rc  observes {:?}\narc observes {:?}", r[0], a[0]);
            let same = match (&r[0], &a[0]) {
                (DiffObs::Observed(r), DiffObs::Observed(a)) => r == a && !r.contains("panic"),
                (DiffObs::Exhausted(_), DiffObs::Exhausted(_)) => true,
                _ => false,
            };
            if !same {
                println!("VIOLATION property={} replay={}", args.property, path);
                return 1;
            }
            return 0;
        }
        return 2;
    }
    let mut report = Report::new(args, "model_checking");
    let bound = tier.pick(2usize, 3usize);
    // (b) interleavings
    let mut specs: Vec<String> = vec![];
    for (kind, ops) in [("list", list_ops()), ("map", map_ops())] {
        let names: Vec<&str> = ops.iter().map(|o| o.name).collect();
        for a in &names {
            for b in &names {
                specs.push(spec(kind, &[vec![a], vec![b]], bound));
            }
        }
        // two operations per thread / three threads: a reduced alphabet in quick
        let core: Vec<&str> = if kind == "list" {
            vec!["push", "pop", "index-last", "remove0", "insert-end", "extend", "to_tuple", "clear", "size", "sort"]
        } else {
            vec!["insert-new", "remove", "get", "index-last", "index-assign-last", "extend", "clear", "keys", "size"]
        };
        let step = tier.pick(3usize, 1usize);
        let mut n = 0usize;
        for a in &core {
            for b in &core {
                for c in &core {
                    n += 1;
                    if n % step != 0 {
                        continue;
                    }
                    specs.push(spec(kind, &[vec![a, b], vec![c]], bound));
                    specs.push(spec(kind, &[vec![a], vec![b], vec![c]], bound.min(2)));
                }
            }
        }
        if tier == Tier::Thorough {
            for a in &core {
                for b in &core {
                    for c in &core {
                        for d in core.iter().step_by(2) {
                            specs.push(spec(kind, &[vec![a, b], vec![c, d]], 2));
                        }
                    }
                }
            }
        }
    }
    let answers = crate::workers::run_pool_exe(ARC_EXE, "sched-explore", &specs, threads(), std::time::Duration::from_secs(120), 4_000_000);
    let mut schedules = 0u64;
    let mut points = 0u64;
    let mut distinct_outcomes = 0u64;
    let mut multi_outcome_programs = 0u64;
    let mut samples = vec![];
    for (sp, a) in specs.iter().zip(answers.iter()) {
        match a {
            crate::workers::WorkerAnswer::Line(l) => {
                let f: Vec<&str> = l.split('\t').collect();
                if f.len() < 5 || f[0] != "ok" {
                    report.fail(None, format!("[machinery] {sp}: {l}"), format!("spec: {sp}\n{l}\n"));
                    continue;
                }
                let s: u64 = f[1].parse().unwrap_or(0);
                schedules += s;
                points += f[2].parse::<u64>().unwrap_or(0);
                let o: u64 = f[3].parse().unwrap_or(0);
                distinct_outcomes += o;
                if o > 1 {
                    multi_outcome_programs += 1;
                }
                if samples.len() < 5 && s > 3 {
                    samples.push(format!("{sp}: {s} schedules, {o} distinct outcomes"));
                }
                if !f[4].is_empty() {
                    let what = f[4].replace("\\n", " ");
                    report.fail(
                        sched_key(sp, &what).as_deref(),
                        format!("[interleaving] {sp}: {}", what.chars().take(400).collect::<String>()),
                        format!("spec: {sp}\n{what}\n"),
                    );
                }
            }
            other => report.fail(None, format!("[machinery] {sp}: worker {other:?}"), format!("spec: {sp}\nworker {other:?}\n")),
        }
    }
    // (a) rc vs arc differential
    let mut sources: Vec<String> = vec![];
    let gens: Vec<&(dyn Fn(Tier, crate::progmc::Emit) + Sync)> = vec![
        &crate::fam_core::generate,
        &crate::fam_fn::generate,
        &crate::fam_match::generate,
        &crate::fam_err::generate,
        &crate::fam_types::generate,
        &crate::fam_meta::generate,
    ];
    for (gi, g) in gens.iter().enumerate() {
        let stride = match (tier, gi) {
            (Tier::Quick, 0) => 29,
            (Tier::Quick, _) => 3,
            (Tier::Thorough, 0) => 5,
            (Tier::Thorough, _) => 1,
        };
        let mut idx = 0usize;
        g(Tier::Quick, &mut |case| {
            idx += 1;
            if idx % stride == 0 {
                sources.push(crate::kast::render_program(&case.prog));
            }
        });
    }
    // aliasing shapes that panic under rc would deadlock under arc
    for s in [
        "l = [1, 2]\nl.extend l\nprint l\n",
        "m = {a: 1}\nm.extend m\nprint m\n",
        "l = [3, 1, 2]\nl.sort |x| l.size() - x\nprint l\n",
        "l = [1, 2]\nl.transform |x| l.size() + x\nprint l\n",
        "l = [1, 2]\nl.swap l\nprint l\n",
        "l = [1, 2, 3]\nl.retain |x| l.size() > x\nprint l\n",
        "m = {a: 1}\nm.update 'a', |v| size m\nprint m\n",
        "l = [1, 2]\nprint l.contains l\n",
        "l = [[1], [2]]\nl[0].push l\nprint l\n",
    ] {
        sources.push(s.to_string());
    }
    sources.sort();
    sources.dedup();
    let n_family = sources.len();
    // re-entrant callbacks can grow a container without bound
    let reentrant = reentrant_programs();
    sources.extend(reentrant.iter().cloned());
    // both sides run in worker processes under the same harness-owned limits
    let requests: Vec<String> = sources
        .iter()
        .enumerate()
        .map(|(i, src)| format!("ticks={}\n{src}", if i < n_family { DIFF_TICKS_FAMILIES } else { DIFF_TICKS_REENTRANT }))
        .collect();
    let rc_exe = std::env::current_exe().expect("current exe").display().to_string();
    let (rc_obs, rc_ticks) = differential_side(&rc_exe, "rc-run", &requests);
    let (arc_obs, _) = differential_side(ARC_EXE, "arc-run", &requests);
    let mut differential = 0u64;
    let mut diff_distinct: HashSet<u64> = HashSet::new();
    let mut exhausted_both = 0u64;
    let mut exhausted_samples: Vec<String> = vec![];
    let mut exhausted_effects: HashSet<String> = HashSet::new();
    let mut budget_both = 0u64;
    let mut max_ticks_completed = [0u64; 2];
    for (i, ((src, r), a)) in sources.iter().zip(rc_obs.iter()).zip(arc_obs.iter()).enumerate() {
        differential += 1;
        let (r_text, a_text) = match (r, a) {
            (DiffObs::Observed(r), DiffObs::Observed(a)) => (r.clone(), a.clone()),
            (DiffObs::Exhausted(rw), DiffObs::Exhausted(aw)) => {
                // no result and no complete output on either build: nothing to compare
                exhausted_both += 1;
                let call = src.lines().find(|l| l.starts_with("  r = ")).unwrap_or("").trim();
                let eff = callback_effect(src);
                if exhausted_samples.len() < 8 && exhausted_effects.insert(eff.clone()) {
                    exhausted_samples.push(format!("`{call}` with callback / operator effect `{eff}`: rc {rw}, arc {aw}"));
                }
                diff_distinct.insert(hash_of("exhausted"));
                continue;
            }
            (DiffObs::Observed(r), DiffObs::Exhausted(aw)) => (r.clone(), format!("no observation: {aw}")),
            (DiffObs::Exhausted(rw), DiffObs::Observed(a)) => (format!("no observation: {rw}"), a.clone()),
        };
        diff_distinct.insert(hash_of(&r_text));
        if r_text.ends_with("\u{1}budget") && a_text.ends_with("\u{1}budget") {
            budget_both += 1;
        } else {
            let k = usize::from(i >= n_family);
            max_ticks_completed[k] = max_ticks_completed[k].max(rc_ticks[i]);
        }
        if r_text.contains("Panic") || r_text.contains("panic") {
            let call = src.lines().find(|l| l.starts_with("  r = ")).unwrap_or("").trim().to_string();
            let eff = callback_effect(src);
            report.fail(None, format!("[reentrancy] the rc build panics: `{call}` while its callback / comparison does `{eff}`"), format!("rc observes {:?}\n--- program ---\n{src}", readable(&r_text)));
        }
        if r_text != a_text {
            report.fail(
                None,
                format!("[rc-vs-arc] rc observes {:?} but arc observes {:?}", readable(&r_text), readable(&a_text)),
                format!("rc observes {:?}\narc observes {:?}\n--- program ---\n{src}", readable(&r_text), readable(&a_text)),
            );
        }
    }
    report.cov("states", points);
    report.cov("transitions", points);
    report.cov("traces_validated_against_impl", schedules);
    report.cov("schedules", schedules);
    report.cov("programs", specs.len() as u64);
    report.cov("programs_with_more_than_one_outcome", multi_outcome_programs);
    report.cov("distinct_outcomes_summed_over_programs", distinct_outcomes);
    report.cov("evaluations", schedules + differential);
    report.cov("distinct_nontrivial", distinct_outcomes + diff_distinct.len() as u64);
    report.cov("rc_vs_arc_programs", differential);
    report.cov("rc_vs_arc_programs_exhausting_resources_on_both_builds", exhausted_both);
    report.cov("rc_vs_arc_exhausted_samples", json!(exhausted_samples));
    report.cov("rc_vs_arc_programs_cut_by_the_tick_budget_on_both_builds", budget_both);
    report.cov("rc_vs_arc_max_ticks_of_a_completed_program", json!({"families": max_ticks_completed[0], "reentrancy_product": max_ticks_completed[1], "budgets": [DIFF_TICKS_FAMILIES, DIFF_TICKS_REENTRANT]}));
    report.cov("preemption_bound", bound as u64);
    report.cov("exhaustive", true);
    report.cov("rule", format!("(b) every ordered pair of single operations from a {}-operation list alphabet and a {}-operation map alphabet on 2 threads, plus 2+1 operation and 3-thread programs over a core alphabet; each program: every schedule with <= {bound} preemptions of real OS threads running real arc-built runtimes, scheduling points = every lock acquisition on the shared container (hook H2), executions always run to completion; oracle: no panic, no deadlock, (results, final contents) equals some sequential order (brute force over all merge orders on the real runtime). states = scheduling points visited, transitions = scheduling decisions. (a) {} generated programs + aliasing shapes + the re-entrancy product run on the rc build and on the arc build (a blocked acquisition in single-thread arc = self-deadlock), both in worker processes under the same harness-owned limits (tick budget {DIFF_TICKS_FAMILIES} / {DIFF_TICKS_REENTRANT} instructions, {} MiB native stack, {} MiB allocation cap counted by the harness' allocator); (stdout, outcome) must be identical; a program that exhausts memory or native stack on BOTH builds has no result on either and is counted, not compared; exhaustion on one build only is a violation", list_ops().len(), map_ops().len(), differential, DIFF_STACK_BYTES >> 20, DIFF_MEM_CAP_BYTES >> 20));
    if samples.is_empty() {
        samples.push(specs[0].clone());
    }
    report.cov("samples", json!(samples));
    report.assume("sequentially consistent interleavings at lock operations; parking_lot and Arc are trusted to provide the ordering they document (weak-memory effects are not explored)");
    report.assume("rc/arc differential: programs that exhaust the allocation cap or the native stack (unbounded growth / unbounded recursion through nested VM entries driven by a re-entrant callback) on both builds are outside the comparison (no result, no complete output); which of the two limits or the supervisor's wall limit stops such a program is not compared");
    report.assume("operations that call back into scripts (update, transform, retain, sort with key) are compound by construction and excluded from the atomicity alphabet");
    report.assume("parking_lot's writer preference is modelled in the scheduler (a recursive read with a waiting writer is a deadlock) from the acquire/release events of hook H2; other fairness effects are not modelled");
    report.finish()
}

fn callback_effect(src: &str) -> String {
    let lines: Vec<&str> = src.lines().collect();
    lines
        .iter()
        .position(|l| l.starts_with("cb = |x|") || l.trim_start().starts_with("@<: |o|") || l.trim() == "@display: ||")
        .and_then(|i| lines.get(i + 1))
        .map(|l| l.trim().to_string())
        .unwrap_or_default()
}

fn readable(s: &str) -> String {
    s.replace('\u{1}', " => ").replace('\u{2}', "\\n")
}

fn sched_key(_spec: &str, _what: &str) -> Option<String> {
    None
}
