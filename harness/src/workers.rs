//! A pool of persistent worker subprocesses for untrusted inputs: each worker runs under an
//! address-space limit; a hang (native loop that never ticks) or an allocation-failure abort kills
//! only the worker, is classified as out-of-scope resource exhaustion, and the worker restarts.

use std::io::{BufRead, BufReader, Read, Write};
use std::process::{Child, Command, Stdio};
use std::sync::mpsc;
use std::time::Duration;

#[derive(Clone, Debug)]
pub enum WorkerAnswer {
    /// the worker's one-line answer
    Line(String),
    /// the worker died (abort / killed by the memory limit)
    Died,
    /// no answer within the wall limit
    Hung,
}

struct Worker {
    child: Child,
    rx: mpsc::Receiver<String>,
}

fn spawn_worker(exe: &str, mode: &str, mem_kb: u64) -> Worker {
    let cmd = format!("ulimit -v {mem_kb}; exec \"{exe}\" worker {mode}");
    let mut child = Command::new("sh")
        .arg("-c")
        .arg(cmd)
        .stdin(Stdio::piped())
        .stdout(Stdio::piped())
        .stderr(Stdio::null())
        .spawn()
        .expect("spawn worker");
    let stdout = child.stdout.take().unwrap();
    let (tx, rx) = mpsc::channel();
    std::thread::spawn(move || {
        let mut r = BufReader::new(stdout);
        loop {
            let mut line = String::new();
            match r.read_line(&mut line) {
                Ok(0) | Err(_) => break,
                Ok(_) => {
                    if tx.send(line.trim_end_matches('\n').to_string()).is_err() {
                        break;
                    }
                }
            }
        }
    });
    Worker { child, rx }
}

/// Sends every input to a worker and collects one answer per input (in input order).
pub fn run_pool(mode: &str, inputs: &[String], n_workers: usize, wall: Duration, mem_kb: u64) -> Vec<WorkerAnswer> {
    let exe = std::env::current_exe().expect("current exe").display().to_string();
    run_pool_exe(&exe, mode, inputs, n_workers, wall, mem_kb)
}

pub fn run_pool_exe(exe: &str, mode: &str, inputs: &[String], n_workers: usize, wall: Duration, mem_kb: u64) -> Vec<WorkerAnswer> {
    let next = std::sync::atomic::AtomicUsize::new(0);
    let results: std::sync::Mutex<Vec<(usize, WorkerAnswer)>> = std::sync::Mutex::new(Vec::new());
    std::thread::scope(|s| {
        for _ in 0..n_workers.min(inputs.len().max(1)) {
            s.spawn(|| {
                let mut w = spawn_worker(exe, mode, mem_kb);
                loop {
                    let i = next.fetch_add(1, std::sync::atomic::Ordering::SeqCst);
                    if i >= inputs.len() {
                        break;
                    }
                    let payload = inputs[i].as_bytes();
                    let ok = {
                        let stdin = w.child.stdin.as_mut().unwrap();
                        stdin.write_all(&(payload.len() as u32).to_le_bytes()).is_ok()
                            && stdin.write_all(payload).is_ok()
                            && stdin.flush().is_ok()
                    };
                    let ans = if !ok {
                        WorkerAnswer::Died
                    } else {
                        match w.rx.recv_timeout(wall) {
                            Ok(line) => WorkerAnswer::Line(line),
                            Err(mpsc::RecvTimeoutError::Timeout) => WorkerAnswer::Hung,
                            Err(mpsc::RecvTimeoutError::Disconnected) => WorkerAnswer::Died,
                        }
                    };
                    if !matches!(ans, WorkerAnswer::Line(_)) {
                        let _ = w.child.kill();
                        let _ = w.child.wait();
                        w = spawn_worker(exe, mode, mem_kb);
                    }
                    results.lock().unwrap().push((i, ans));
                }
                let _ = w.child.kill();
                let _ = w.child.wait();
            });
        }
    });
    let mut v = results.into_inner().unwrap();
    v.sort_by_key(|(i, _)| *i);
    v.into_iter().map(|(_, a)| a).collect()
}

/// The worker side: reads length-prefixed requests from stdin, answers one line each.
pub fn worker_loop(handle: &mut dyn FnMut(&str) -> String) -> i32 {
    let stdin = std::io::stdin();
    let mut stdin = stdin.lock();
    let stdout = std::io::stdout();
    loop {
        let mut len = [0u8; 4];
        if stdin.read_exact(&mut len).is_err() {
            return 0;
        }
        let n = u32::from_le_bytes(len) as usize;
        let mut buf = vec![0u8; n];
        if stdin.read_exact(&mut buf).is_err() {
            return 0;
        }
        let req = String::from_utf8_lossy(&buf).to_string();
        let ans = handle(&req).replace('\n', "\\n");
        let mut o = stdout.lock();
        let _ = writeln!(o, "{ans}");
        let _ = o.flush();
    }
}
