//! C05 — accepted programs compile to well-formed code; limits are compile errors; determinism.
//!
//! Style D: every function body of every compiled chunk is a finite transition system; the
//! checker explores the abstract machine (ip, sequence-builder depth, string-builder depth,
//! try stack) over all control-flow successors and checks decode / jump-target / register /
//! constant / balance invariants in every reachable state.

use crate::common::*;
use crate::run::*;
use koto::prelude::*;
use koto::Ptr;
use koto_bytecode::{Chunk, Instruction, InstructionReader};
use serde_json::json;
use std::collections::{BTreeSet, HashMap, HashSet, VecDeque};

#[derive(Default)]
pub struct ChunkStats {
    pub functions: u64,
    pub states: u64,
    pub transitions: u64,
    pub instructions: u64,
}

#[derive(Clone, Debug, PartialEq, Eq, Hash)]
struct AState {
    ip: usize,
    seq: i32,
    strd: i32,
    /// open try blocks: (catch ip, seq depth at TryStart, str depth at TryStart)
    tries: Vec<(usize, i32, i32)>,
}

struct Decoded {
    /// ip -> (instruction, next ip)
    at: HashMap<usize, (Instruction, usize)>,
}

fn decode_linear(chunk: &Ptr<Chunk>) -> Result<Decoded, String> {
    let mut reader = InstructionReader::new(chunk.clone());
    let mut at = HashMap::new();
    let n = chunk.bytes.len();
    loop {
        let ip = reader.ip;
        if ip >= n {
            break;
        }
        match reader.next() {
            Some(Instruction::Error { message }) => {
                return Err(format!("instruction at byte {ip} does not decode: {message}"));
            }
            Some(i) => {
                let next = reader.ip;
                if next <= ip || next > n {
                    return Err(format!("instruction at byte {ip} decodes to a bad length (next ip {next}, chunk size {n})"));
                }
                at.insert(ip, (i, next));
            }
            None => break,
        }
    }
    Ok(Decoded { at })
}

#[derive(Clone, Copy, PartialEq)]
enum CK {
    Str,
    Int,
    Float,
}

/// registers referenced by the instruction (as inclusive index values that must be < count)
fn operands(i: &Instruction) -> (Vec<usize>, Vec<(u32, CK)>) {
    use Instruction::*;
    let r = |v: &[u8]| -> Vec<usize> { v.iter().map(|x| *x as usize).collect() };
    let mut consts = vec![];
    let regs = match i {
        Error { .. } | NewFrame { .. } | TryEnd | Jump { .. } | JumpBack { .. } | SequenceStart { .. } | StringStart { .. } => vec![],
        Copy { target, source } => r(&[*target, *source]),
        SetNull { register } | SetBool { register, .. } | SetNumber { register, .. } => r(&[*register]),
        LoadFloat { register, constant } => {
            consts.push((u32::from(*constant), CK::Float));
            r(&[*register])
        }
        LoadInt { register, constant } => {
            consts.push((u32::from(*constant), CK::Int));
            r(&[*register])
        }
        LoadString { register, constant } | LoadNonLocal { register, constant } | Debug { register, constant } => {
            consts.push((u32::from(*constant), CK::Str));
            r(&[*register])
        }
        ExportValue { key, value } => r(&[*key, *value]),
        ExportEntry { entry } => r(&[*entry]),
        Import { register } | ImportAll { register } => r(&[*register]),
        MakeTempTuple { register, start, count } => {
            let mut v = r(&[*register]);
            if *count > 0 {
                v.push(*start as usize + *count as usize - 1);
            }
            v
        }
        TempTupleToTuple { register, source } => r(&[*register, *source]),
        MakeMap { register, .. } => r(&[*register]),
        SequencePush { value } => r(&[*value]),
        SequencePushN { start, count } => {
            if *count > 0 {
                vec![*start as usize + *count as usize - 1]
            } else {
                vec![]
            }
        }
        SequenceToList { register } | SequenceToTuple { register } | RangeFull { register } | StringFinish { register } => r(&[*register]),
        Range { register, start, end } | RangeInclusive { register, start, end } => r(&[*register, *start, *end]),
        RangeTo { register, end } | RangeToInclusive { register, end } => r(&[*register, *end]),
        RangeFrom { register, start } => r(&[*register, *start]),
        MakeIterator { register, iterable } => r(&[*register, *iterable]),
        Function { register, .. } => r(&[*register]),
        Capture { function, source, .. } => r(&[*function, *source]),
        Negate { register, value } | Not { register, value } | Size { register, value } => r(&[*register, *value]),
        Add { register, lhs, rhs }
        | Subtract { register, lhs, rhs }
        | Multiply { register, lhs, rhs }
        | Divide { register, lhs, rhs }
        | Remainder { register, lhs, rhs }
        | Power { register, lhs, rhs }
        | Less { register, lhs, rhs }
        | LessOrEqual { register, lhs, rhs }
        | Greater { register, lhs, rhs }
        | GreaterOrEqual { register, lhs, rhs }
        | Equal { register, lhs, rhs }
        | NotEqual { register, lhs, rhs } => r(&[*register, *lhs, *rhs]),
        AddAssign { lhs, rhs }
        | SubtractAssign { lhs, rhs }
        | MultiplyAssign { lhs, rhs }
        | DivideAssign { lhs, rhs }
        | RemainderAssign { lhs, rhs }
        | PowerAssign { lhs, rhs } => r(&[*lhs, *rhs]),
        JumpIfTrue { register, .. } | JumpIfFalse { register, .. } | JumpIfNull { register, .. } => r(&[*register]),
        Call { result, function, frame_base, arg_count, .. } => {
            vec![*result as usize, *function as usize, *frame_base as usize + *arg_count as usize]
        }
        CallInstance { result, function, instance, frame_base, arg_count, .. } => {
            vec![*result as usize, *function as usize, *instance as usize, *frame_base as usize + *arg_count as usize]
        }
        Return { register } | Yield { register } | Throw { register } => r(&[*register]),
        IterNext { result, iterator, .. } => {
            let mut v = r(&[*iterator]);
            if let Some(x) = result {
                v.push(*x as usize);
            }
            v
        }
        TempIndex { register, value, .. } | SliceFrom { register, value, .. } | SliceTo { register, value, .. } => r(&[*register, *value]),
        Index { register, value, index } => r(&[*register, *value, *index]),
        IndexMut { register, index, value } => r(&[*register, *index, *value]),
        MetaInsert { register, value, .. } => r(&[*register, *value]),
        MetaInsertNamed { register, value, name, .. } => r(&[*register, *value, *name]),
        MetaExport { value, .. } => r(&[*value]),
        MetaExportNamed { name, value, .. } => r(&[*name, *value]),
        Access { register, value, key } => {
            consts.push((u32::from(*key), CK::Str));
            r(&[*register, *value])
        }
        TryAccess { register, value, key, .. } => {
            consts.push((u32::from(*key), CK::Str));
            r(&[*register, *value])
        }
        AccessString { register, value, key } | TryAccessString { register, value, key, .. } => r(&[*register, *value, *key]),
        AccessAssign { register, key, value } => r(&[*register, *key, *value]),
        TryStart { arg_register, .. } => r(&[*arg_register]),
        CheckSizeEqual { register, .. } | CheckSizeMin { register, .. } => r(&[*register]),
        AssertType { value, type_string, .. } => {
            consts.push((u32::from(*type_string), CK::Str));
            r(&[*value])
        }
        CheckType { value, type_string, .. } => {
            consts.push((u32::from(*type_string), CK::Str));
            r(&[*value])
        }
        StringPush { value, .. } => r(&[*value]),
        #[allow(unreachable_patterns)]
        _ => vec![],
    };
    (regs, consts)
}

fn can_raise(i: &Instruction) -> bool {
    use Instruction::*;
    !matches!(
        i,
        NewFrame { .. }
            | Copy { .. }
            | SetNull { .. }
            | SetBool { .. }
            | SetNumber { .. }
            | LoadFloat { .. }
            | LoadInt { .. }
            | LoadString { .. }
            | Jump { .. }
            | JumpBack { .. }
            | JumpIfTrue { .. }
            | JumpIfFalse { .. }
            | JumpIfNull { .. }
            | TryStart { .. }
            | TryEnd
            | SequenceStart { .. }
            | StringStart { .. }
            | MakeMap { .. }
            | Function { .. }
    )
}

/// Explores one chunk. Returns violations (description strings).
pub fn check_chunk(chunk: &Ptr<Chunk>, stats: &mut ChunkStats) -> Vec<String> {
    let mut viols = vec![];
    let decoded = match decode_linear(chunk) {
        Ok(d) => d,
        Err(e) => return vec![e],
    };
    stats.instructions += decoded.at.len() as u64;
    let n = chunk.bytes.len();
    let n_consts = chunk.constants.size();
    // function bodies to explore: (start, end)
    let mut bodies: VecDeque<(usize, usize, bool)> = VecDeque::new();
    bodies.push_back((0, n, true));
    let mut seen_bodies: HashSet<usize> = HashSet::new();
    while let Some((start, end, is_main)) = bodies.pop_front() {
        if !seen_bodies.insert(start) {
            continue;
        }
        stats.functions += 1;
        if start >= end {
            if !is_main {
                viols.push(format!("empty function body at byte {start}"));
            }
            continue;
        }
        let register_count = match decoded.at.get(&start) {
            Some((Instruction::NewFrame { register_count }, _)) => *register_count as usize,
            Some(_) => {
                viols.push(format!("function body at byte {start} does not start with NewFrame"));
                continue;
            }
            None => {
                viols.push(format!("function body start {start} is not an instruction boundary"));
                continue;
            }
        };
        let mut seen: HashSet<AState> = HashSet::new();
        let mut depth_at: HashMap<usize, (i32, i32)> = HashMap::new();
        let mut queue: VecDeque<AState> = VecDeque::new();
        let init = AState { ip: start, seq: 0, strd: 0, tries: vec![] };
        seen.insert(init.clone());
        queue.push_back(init);
        let mut local_viols: BTreeSet<String> = BTreeSet::new();
        while let Some(st) = queue.pop_front() {
            stats.states += 1;
            if seen.len() > 400_000 {
                local_viols.insert(format!("state explosion in function at byte {start} (cap 400000)"));
                break;
            }
            let Some((ins, next)) = decoded.at.get(&st.ip) else {
                local_viols.insert(format!("control reaches byte {} which is not an instruction boundary (function at {start})", st.ip));
                continue;
            };
            match depth_at.get(&st.ip) {
                Some(d) if *d != (st.seq, st.strd) => {
                    local_viols.insert(format!(
                        "builder depths differ between paths reaching byte {}: (seq {}, str {}) vs (seq {}, str {})",
                        st.ip, d.0, d.1, st.seq, st.strd
                    ));
                }
                None => {
                    depth_at.insert(st.ip, (st.seq, st.strd));
                }
                _ => {}
            }
            // operand checks
            let (regs, consts) = operands(ins);
            for r in regs {
                if r >= register_count {
                    local_viols.insert(format!(
                        "instruction at byte {} references register {} but its frame declares {} registers",
                        st.ip, r, register_count
                    ));
                }
            }
            for (c, kind) in consts {
                if c as usize >= n_consts {
                    local_viols.insert(format!("instruction at byte {} references constant {} of {}", st.ip, c, n_consts));
                } else {
                    use koto::parser::Constant;
                    let ok = match (chunk.constants.get(c as usize), kind) {
                        (Some(Constant::Str(_)), CK::Str) => true,
                        (Some(Constant::I64(_)), CK::Int) => true,
                        (Some(Constant::F64(_)), CK::Float) => true,
                        _ => false,
                    };
                    if !ok {
                        local_viols.insert(format!("instruction at byte {} references constant {} of the wrong kind", st.ip, c));
                    }
                }
            }
            // successors
            let mut succ: Vec<AState> = vec![];
            let mut push = |ip: usize, seq: i32, strd: i32, tries: Vec<(usize, i32, i32)>, lv: &mut BTreeSet<String>| {
                if ip < start || ip > end {
                    lv.insert(format!("jump from byte {} leaves its function [{start}, {end}) (target {ip})", st.ip));
                    return;
                }
                if ip == end {
                    lv.insert(format!("control falls off the end of the function body [{start}, {end}) after byte {}", st.ip));
                    return;
                }
                succ.push(AState { ip, seq, strd, tries });
            };
            use Instruction::*;
            let (seq, strd) = (st.seq, st.strd);
            match ins {
                Jump { offset } => push(next + *offset as usize, seq, strd, st.tries.clone(), &mut local_viols),
                JumpBack { offset } => {
                    if (*offset as usize) > *next {
                        local_viols.insert(format!("backward jump at byte {} before the chunk start", st.ip));
                    } else {
                        push(next - *offset as usize, seq, strd, st.tries.clone(), &mut local_viols)
                    }
                }
                JumpIfTrue { offset, .. } | JumpIfFalse { offset, .. } | JumpIfNull { offset, .. } => {
                    push(*next, seq, strd, st.tries.clone(), &mut local_viols);
                    push(next + *offset as usize, seq, strd, st.tries.clone(), &mut local_viols);
                }
                IterNext { jump_offset, .. } => {
                    push(*next, seq, strd, st.tries.clone(), &mut local_viols);
                    push(next + *jump_offset as usize, seq, strd, st.tries.clone(), &mut local_viols);
                }
                TryAccess { jump_offset, .. } | TryAccessString { jump_offset, .. } | CheckType { jump_offset, .. } => {
                    push(*next, seq, strd, st.tries.clone(), &mut local_viols);
                    push(next + *jump_offset as usize, seq, strd, st.tries.clone(), &mut local_viols);
                }
                TryStart { catch_offset, .. } => {
                    let mut t = st.tries.clone();
                    t.push((next + *catch_offset as usize, seq, strd));
                    if t.len() > 64 {
                        local_viols.insert(format!("try depth grows without bound at byte {}", st.ip));
                    } else {
                        push(*next, seq, strd, t, &mut local_viols);
                    }
                }
                TryEnd => {
                    let mut t = st.tries.clone();
                    if t.pop().is_none() {
                        local_viols.insert(format!("TryEnd at byte {} without an open try", st.ip));
                    }
                    push(*next, seq, strd, t, &mut local_viols);
                }
                SequenceStart { .. } => push(*next, seq + 1, strd, st.tries.clone(), &mut local_viols),
                SequencePush { .. } | SequencePushN { .. } => {
                    if seq <= 0 {
                        local_viols.insert(format!("SequencePush at byte {} without an open sequence", st.ip));
                    }
                    push(*next, seq, strd, st.tries.clone(), &mut local_viols)
                }
                SequenceToList { .. } | SequenceToTuple { .. } => {
                    if seq <= 0 {
                        local_viols.insert(format!("sequence finished at byte {} without an open sequence", st.ip));
                    }
                    push(*next, seq - 1, strd, st.tries.clone(), &mut local_viols)
                }
                StringStart { .. } => push(*next, seq, strd + 1, st.tries.clone(), &mut local_viols),
                StringPush { .. } => {
                    if strd <= 0 {
                        local_viols.insert(format!("StringPush at byte {} without an open string", st.ip));
                    }
                    push(*next, seq, strd, st.tries.clone(), &mut local_viols)
                }
                StringFinish { .. } => {
                    if strd <= 0 {
                        local_viols.insert(format!("StringFinish at byte {} without an open string", st.ip));
                    }
                    push(*next, seq, strd - 1, st.tries.clone(), &mut local_viols)
                }
                Return { .. } => {
                    if seq != 0 || strd != 0 {
                        local_viols.insert(format!(
                            "Return at byte {} with open builders (sequences {}, strings {})",
                            st.ip, seq, strd
                        ));
                    }
                }
                Throw { .. } => {}
                Function { size, .. } => {
                    let body_start = *next;
                    let body_end = next + *size as usize;
                    if body_end > end {
                        local_viols.insert(format!("function at byte {} extends past its enclosing body", st.ip));
                    } else {
                        bodies.push_back((body_start, body_end, false));
                        // the enclosing code continues after the body
                        if body_end == end {
                            local_viols.insert(format!("control falls off the end after the function literal at byte {}", st.ip));
                        } else {
                            succ.push(AState { ip: body_end, seq, strd, tries: st.tries.clone() });
                        }
                    }
                }
                NewFrame { .. } => {
                    if st.ip != start {
                        local_viols.insert(format!("NewFrame in the middle of a function body at byte {} (body entered by fall-through?)", st.ip));
                    }
                    push(*next, seq, strd, st.tries.clone(), &mut local_viols)
                }
                _ => push(*next, seq, strd, st.tries.clone(), &mut local_viols),
            }
            // exception edge to the innermost handler
            if can_raise(ins) {
                if let Some((catch_ip, s0, t0)) = st.tries.last().cloned() {
                    let t = st.tries.clone();
                    if catch_ip < start || catch_ip >= end {
                        local_viols.insert(format!("catch target {catch_ip} outside the function [{start}, {end})"));
                    } else {
                        succ.push(AState { ip: catch_ip, seq: s0, strd: t0, tries: t });
                    }
                }
            }
            for s in succ {
                stats.transitions += 1;
                if seen.insert(s.clone()) {
                    queue.push_back(s);
                }
            }
        }
        viols.extend(local_viols.into_iter().take(5));
    }
    viols
}

/// compiles through the real loader; Ok(chunk) or Err(message)
pub fn compile(src: &str, type_checks: bool, export_top_level: bool) -> Result<Result<Ptr<Chunk>, String>, String> {
    let r = std::panic::catch_unwind(|| {
        let mut koto = Koto::with_settings(KotoSettings::default());
        let args = CompileArgs::new(src).enable_type_checks(type_checks).export_top_level_ids(export_top_level);
        koto.compile(args).map_err(|e| e.to_string())
    });
    match r {
        Ok(x) => Ok(x),
        Err(_) => Err(take_last_panic()),
    }
}

pub fn chunk_digest(c: &Chunk) -> u64 {
    let consts: Vec<String> = c.constants.iter().map(|k| format!("{k:?}")).collect();
    hash_of(&(&c.bytes, consts, format!("{:?}", c.debug_info)))
}

struct Out {
    stats: ChunkStats,
    chunks: u64,
    rejected: u64,
    failures: Vec<(Option<String>, String, String)>,
    samples: Vec<String>,
    distinct: HashSet<u64>,
    digests: Vec<(String, u64)>,
    run_queue: Vec<String>,
    ladder_outcomes: Vec<(String, String)>,
}

impl Out {
    fn new() -> Self {
        Out { stats: ChunkStats::default(), chunks: 0, rejected: 0, failures: vec![], samples: vec![], distinct: HashSet::new(), digests: vec![], run_queue: vec![], ladder_outcomes: vec![] }
    }
}

fn check_source(src: &str, label: &str, out: &mut Out, run_it: bool, classify: &dyn Fn(&str, &str) -> Option<String>) {
    for (tc, ex) in [(true, false), (false, false), (true, true)] {
        let first = compile(src, tc, ex);
        match first {
            Err(p) => {
                if out.failures.len() < 300 {
                    out.failures.push((classify(src, "panic"), format!("[{label}] compiler panicked: {p}"), format!("{label}\ncompiler panicked: {p}\n--- program ---\n{src}")));
                }
                return;
            }
            Ok(Err(_)) => {
                out.rejected += 1;
                return;
            }
            Ok(Ok(chunk)) => {
                out.chunks += 1;
                let v = check_chunk(&chunk, &mut out.stats);
                out.distinct.insert(hash_of(&chunk.bytes));
                for msg in v {
                    if out.failures.len() < 300 {
                        out.failures.push((classify(src, &msg), format!("[{label}] {msg}"), format!("{label}\n{msg}\nsettings: type_checks={tc} export_top_level_ids={ex}\n--- program ---\n{src}")));
                    }
                }
                // determinism within the process
                if let Ok(Ok(chunk2)) = compile(src, tc, ex) {
                    if chunk_digest(&chunk) != chunk_digest(&chunk2) {
                        if out.failures.len() < 300 {
                            out.failures.push((
                                classify(src, "nondeterministic"),
                                format!("[{label}] two compilations of the same text differ"),
                                format!("{label}\ntwo compilations of the same source text produced different code\n--- program ---\n{src}"),
                            ));
                        }
                    }
                }
                if tc && !ex {
                    out.digests.push((src.to_string(), chunk_digest(&chunk)));
                }
            }
        }
    }
    if run_it && safe_to_run(src) {
        out.run_queue.push(src.to_string());
    }
    if out.samples.len() < 2 && out.chunks % 503 == 1 {
        out.samples.push(src.chars().take(300).collect());
    }
}

/// Generated / mutated programs are only executed when they cannot touch the host (no io / os /
/// import / tempfile access): the corpus contains examples that run shell commands and remove files.
pub fn safe_to_run(src: &str) -> bool {
    !["io.", "os.", "import", "tempfile", "koto.load", "koto.run", "koto.script", "read_to_string", "remove_file", "command"]
        .iter()
        .any(|k| src.contains(k))
}

pub fn worker_run(src: &str) -> String {
    let cfg = RunCfg { budget_ticks: 300_000, ..RunCfg::default() };
    let obs = run_script(src, &cfg);
    match &obs.outcome {
        Outcome::Panic(m) => format!("panic:{m}"),
        o => match o.is_internal_fault() {
            Some(k) => format!("fault:{k}"),
            None => format!("ok:{}", o.class()),
        },
    }
}

/// the corpus' single-token delete / duplicate / swap neighbourhood
pub fn token_neighbourhood(src: &str, stride: usize) -> Vec<String> {
    let toks: Vec<(usize, usize)> = koto_lexer::Lexer::new(src)
        .take_while(|t| t.token != koto_lexer::Token::Error)
        .filter(|t| !matches!(t.token, koto_lexer::Token::Whitespace))
        .map(|t| (t.source_bytes.start, t.source_bytes.end))
        .collect();
    let mut out = vec![];
    for (i, (a, b)) in toks.iter().enumerate() {
        if i % stride != 0 {
            continue;
        }
        // delete
        out.push(format!("{}{}", &src[..*a], &src[*b..]));
        // duplicate
        out.push(format!("{}{} {}", &src[..*b], "", &src[*a..]));
        // swap with the next token
        if let Some((c, d)) = toks.get(i + 1) {
            out.push(format!("{}{}{}{}{}", &src[..*a], &src[*c..*d], &src[*b..*c], &src[*a..*b], &src[*d..]));
        }
    }
    out
}

/// shape: a return / break / continue token inside an open bracket or string template
fn early_exit_inside_construction(src: &str) -> bool {
    use koto_lexer::Token as T;
    let mut depth = 0i32;
    for t in koto_lexer::Lexer::new(src) {
        match t.token {
            T::Error => break,
            T::RoundOpen | T::SquareOpen | T::CurlyOpen | T::StringStart { .. } => depth += 1,
            T::RoundClose | T::SquareClose | T::CurlyClose | T::StringEnd => depth -= 1,
            T::Return | T::Break | T::Continue if depth > 0 => return true,
            _ => {}
        }
    }
    false
}

fn classify(src: &str, msg: &str) -> Option<String> {
    if ((msg.contains("Return at byte") && msg.contains("open builders")) || msg.contains("builder depths differ between paths")) && early_exit_inside_construction(src) {
        return Some("early-exit-inside-open-construction".into());
    }
    if msg.contains("try depth grows without bound") {
        return Some("stale-catch-after-loop-exit".into());
    }
    if msg.contains("two compilations") || msg == "nondeterministic" {
        return Some("capture-order-nondeterministic".into());
    }
    let _ = src;
    None
}

pub fn size_ladders(tier: Tier) -> Vec<(String, String)> {
    let mut v = vec![];
    let range = |lo: usize, hi: usize| (lo..=hi).collect::<Vec<_>>();
    // locals per frame
    for n in range(248, 258) {
        let mut s = String::new();
        for i in 0..n {
            s.push_str(&format!("v{i} = {i}\n"));
        }
        s.push_str("print v0 + v1\n");
        v.push((format!("locals-{n}"), s));
        // inside a function
        let mut s = String::from("f = ||\n");
        for i in 0..n {
            s.push_str(&format!("  v{i} = {i}\n"));
        }
        s.push_str("  v0 + v1\nprint f()\n");
        v.push((format!("fn-locals-{n}"), s));
    }
    // call arguments / function parameters
    for n in range(250, 258) {
        let args: Vec<String> = (0..n).map(|i| format!("a{i}")).collect();
        let vals: Vec<String> = (0..n).map(|i| format!("{i}")).collect();
        v.push((format!("params-{n}"), format!("f = |{}| a0 + a1\nprint f({})\n", args.join(", "), vals.join(", "))));
        v.push((format!("variadic-call-{n}"), format!("f = |a...| size a\nprint f({})\n", vals.join(", "))));
        v.push((format!("call-in-fn-{n}"), format!("g = |a...| size a\nh = || g({})\nprint h()\n", vals.join(", "))));
        v.push((format!("list-literal-{n}"), format!("x = [{}]\nprint size x\n", vals.join(", "))));
        v.push((format!("tuple-literal-{n}"), format!("x = ({})\nprint size x\n", vals.join(", "))));
        let targets: Vec<String> = (0..n).map(|i| format!("t{i}")).collect();
        v.push((format!("multi-assign-{n}"), format!("{} = {}\nprint t0 + t1\n", targets.join(", "), vals.join(", "))));
        let entries: Vec<String> = (0..n).map(|i| format!("k{i}: {i}")).collect();
        v.push((format!("map-literal-{n}"), format!("x = {{{}}}\nprint size x\n", entries.join(", "))));
        // captures
        let mut s = String::new();
        for i in 0..n.min(254) {
            s.push_str(&format!("c{i} = {i}\n"));
        }
        let uses: Vec<String> = (0..n.min(254)).map(|i| format!("c{i}")).collect();
        s.push_str(&format!("f = || ({}).sum()\nprint f()\n", uses.join(" , ").replace(" , ", ", ")));
        let _ = s;
    }
    // element counts around the signed 8 bit index limit of unpacking patterns
    for n in range(tier.pick(124, 118), tier.pick(131, 140)) {
        let names: Vec<String> = (0..n).map(|i| format!("a{i}")).collect();
        let vals: Vec<String> = (0..n).map(|i| format!("{i}")).collect();
        let probe = format!("(a0, a{}, a{})", n / 2, n - 1);
        v.push((format!("nested-args-{n}"), format!("f = |({})| {probe}\nprint f(({}))\n", names.join(", "), vals.join(", "))));
        v.push((format!("nested-args-ellipsis-{n}"), format!("f = |(first..., {})| {probe}\nprint f((99, 98, {}))\n", names.join(", "), vals.join(", "))));
        v.push((format!("nested-args-trailing-ellipsis-{n}"), format!("f = |({}, rest...)| {probe}\nprint f(({}, 98, 99))\n", names.join(", "), vals.join(", "))));
        v.push((format!("match-tuple-{n}"), format!("x = match ({})\n  ({}) then {probe}\n  else 'no match'\nprint x\n", vals.join(", "), names.join(", "))));
        v.push((format!("match-tuple-ellipsis-{n}"), format!("x = match (99, 98, {})\n  (..., {}) then {probe}\n  else 'no match'\nprint x\n", vals.join(", "), names.join(", "))));
        v.push((format!("for-nested-args-{n}"), format!("for ({}) in (({}),)\n  print {probe}\n", names.join(", "), vals.join(", "))));
    }
    // literals larger than the register window (elements are pushed in batches), alone and with many live locals
    for n in [100usize, 253, 254, 255, 256, 257, 300, 506, 507, 508, 509, 510, 520, 777] {
        let vals: Vec<String> = (0..n).map(|_| "1".to_string()).collect();
        // built inside a function of its own, so that the full frame is not the one that prints
        v.push((format!("list-literal-sum-{n}"), format!("mk = ||\n  [{}]\nprint mk().sum()\n", vals.join(", "))));
    }
    for n in [5usize, 9, 10, 11, 12, 13, 20, 40] {
        let mut s = String::new();
        for i in 0..240 {
            s.push_str(&format!("v{i} = {i}\n"));
        }
        let vals: Vec<String> = (0..n).map(|_| "1".to_string()).collect();
        s.push_str(&format!("x = ({})\nx\n", vals.join(", ")));
        let body: String = s.lines().map(|l| format!("  {l}\n")).collect();
        v.push((format!("tuple-literal-under-pressure-{n}"), format!("mk = ||\n{body}print mk().sum()\n")));
    }
    // many constants before the first use of further constants: every constant operand is a
    // variable-length integer (1 byte up to 127, 2 bytes up to 16383)
    for n in tier.pick(vec![120usize, 126, 127, 128, 129, 130, 200], vec![120, 126, 127, 128, 129, 130, 200, 16380, 16383, 16384, 16385, 16390]) {
        let mut s = String::new();
        for i in 0..n {
            s.push_str(&format!("q = 'c{i}'\n"));
        }
        s.push_str("m = {ka: 1, kb: 2}\nr1 = match m\n  {ka, kb} then (ka, kb)\n  else 'nomatch'\nobj = {fld: 'v', @meta mk: 'meta', @type: 'Ty'}\nr2 = try\n  throw {ck: 'ck'}\ncatch {ck}\n  ck\nf = |arg: Number| -> Number\n  arg + 4\nn3 = 3\nprint (r1[0], r1[1], obj.fld, r2, obj.mk, 'x{n3}y', f(3))\n");
        v.push((format!("constants-before-uses-{n}"), s));
    }
    // import item counts and multi-assignment target counts around the 7 bit / signed 8 bit limits
    for n in range(tier.pick(124, 118), tier.pick(131, 140)) {
        let names: Vec<String> = (0..n).map(|i| format!("a{i}")).collect();
        let vals: Vec<String> = (0..n).map(|i| format!("{i}")).collect();
        v.push((format!("import-items-{n}"), format!("try\n  x = from no_such_module_anywhere import {}\n  print size x\ncatch e\n  print 'caught'\n", names.join(", "))));
        let mut targets: Vec<String> = (0..n - 1).map(|_| "_".to_string()).collect();
        targets.push("last".into());
        v.push((format!("multi-assign-last-{n}"), format!("{} = {}\nprint last\n", targets.join(", "), vals.join(", "))));
        v.push((format!("multi-assign-last-in-fn-{n}"), format!("f = ||\n  {} = {}\n  last\nprint f()\n", targets.join(", "), vals.join(", "))));
    }
    // small known-answer programs for register / builder bookkeeping in the compiler
    v.push(("map-unpack-self-1".to_string(), "x = {x: 1, y: 2}\n{x, y} = x\nprint (x, y)\n".to_string()));
    v.push(("map-unpack-self-2".to_string(), "f = ||\n  m = {m: 5, n: 6}\n  {n, m} = m\n  (m, n)\nprint f()\n".to_string()));
    v.push(("return-in-string-3".to_string(), "f = |a| '{a} {if a > 0 then return 7 else 0}'\nprint 'x{f 1}y'\nprint 'x{f 0}y'\n".to_string()));
    v.push(("continue-in-string-4".to_string(), "f = |n|\n  out = []\n  for i in 0..n\n    out.push 'b{if i == 0 then continue else i}c'\n  out\nprint 'x{f 2}y'\n".to_string()));
    v.push(("fill-without-width-5".to_string(), "x = 42\nprint '{x:_<}'\nprint '{x:*^}|{x:0>}'\nprint 'done'\n".to_string()));
    // nested temporaries: deep nesting of calls
    for n in [60usize, 120, 200, 250, 254, 255, 256, 300] {
        let mut s = String::from("id = |x| x\nprint ");
        for _ in 0..n {
            s.push_str("id(");
        }
        s.push('1');
        for _ in 0..n {
            s.push(')');
        }
        s.push('\n');
        v.push((format!("nested-calls-{n}"), s));
        let mut s = String::from("print ");
        for _ in 0..n {
            s.push_str("[1, ");
        }
        s.push('0');
        for _ in 0..n {
            s.push(']');
        }
        s.push('\n');
        v.push((format!("nested-lists-{n}"), s));
    }
    // jump distances around the u16 limit: bodies of k statements of known shape
    let body_sizes: Vec<usize> = match tier {
        Tier::Quick => vec![8000, 13000, 13100, 13104, 13105, 13106, 13107, 13108, 13110, 13120, 13200, 16300, 22000],
        Tier::Thorough => (13080..13130).chain([8000, 13000, 13200, 16300, 16383, 16384, 21800, 22000, 26300, 33000].into_iter()).collect(),
    };
    for k in body_sizes {
        let body = |indent: &str| -> String {
            let mut s = String::new();
            for _ in 0..k {
                s.push_str(indent);
                s.push_str("x += 1\n");
            }
            s
        };
        v.push((format!("if-body-{k}"), format!("x = 0\nif x == 0\n{}print x\n", body("  "))));
        v.push((format!("if-else-body-{k}"), format!("x = 0\nif x == 1\n  x = 5\nelse\n{}print x\n", body("  "))));
        v.push((format!("while-body-{k}"), format!("x = 0\nn = 0\nwhile n < 2\n  n += 1\n{}print x\n", body("  "))));
        v.push((format!("for-body-{k}"), format!("x = 0\nfor i in 0..2\n{}print x\n", body("  "))));
        v.push((format!("loop-body-{k}"), format!("x = 0\nn = 0\nloop\n  n += 1\n  if n > 2 then break\n{}print x\n", body("  "))));
        v.push((format!("loop-tail-break-{k}"), format!("x = 0\nn = 0\nloop\n{}  n += 1\n  if n >= 2 then break\nprint x\n", body("  "))));
        v.push((format!("fn-body-{k}"), format!("f = ||\n  x = 0\n{}  x\nprint f()\n", body("  "))));
        v.push((format!("try-body-{k}"), format!("x = 0\ntry\n{}catch e\n  print 'caught'\nprint x\n", body("  "))));
        v.push((format!("and-rhs-{k}"), format!("x = 0\nf = ||\n{}  true\ny = true and f()\nprint x, y\n", body("  "))));
        v.push((format!("match-arm-{k}"), format!("x = 0\nmatch x\n  0 then\n{}  else\n    x = -1\nprint x\n", body("    "))));
        v.push((format!("switch-arm-{k}"), format!("x = 0\nswitch\n  x == 0 then\n{}  else\n    x = -1\nprint x\n", body("    "))));
    }
    v
}

fn expected_ladder_output(name: &str) -> Option<String> {
    // for the statement-count ladders the arithmetic result is known
    let k: usize = name.rsplit('-').next()?.parse().ok()?;
    let kind = &name[..name.rfind('-')?];
    Some(match kind {
        "if-body" | "if-else-body" | "fn-body" | "try-body" | "match-arm" | "switch-arm" => format!("{k}\n"),
        "while-body" | "for-body" | "loop-body" | "loop-tail-break" => format!("{}\n", 2 * k),
        "and-rhs" => format!("({k}, true)\n").replace(&format!("({k}"), "(0"),
        "import-items" => "caught\n".to_string(),
        "map-unpack-self" => if k == 1 { "(1, 2)\n".to_string() } else { "(5, 6)\n".to_string() },
        "return-in-string" => "x7y\nx0 0y\n".to_string(),
        "fill-without-width" => "42\n42|42\ndone\n".to_string(),
        "continue-in-string" => "x['b1c']y\n".to_string(),
        "list-literal" | "tuple-literal" | "map-literal" | "list-literal-sum" | "tuple-literal-under-pressure" => format!("{k}\n"),
        "constants-before-uses" => "(1, 2, 'v', 'ck', 'meta', 'x3y', 7)\n".to_string(),
        "multi-assign-last" | "multi-assign-last-in-fn" => format!("{}\n", k - 1),
        "nested-args" | "nested-args-ellipsis" | "nested-args-trailing-ellipsis" | "match-tuple" | "match-tuple-ellipsis" | "for-nested-args" => format!("(0, {}, {})\n", k / 2, k - 1),
        _ => return None,
    })
}

pub fn run(args: &Args) -> i32 {
    if let Some(path) = &args.replay {
        let text = std::fs::read_to_string(path).unwrap_or_default();
        let src = match text.split_once("--- program ---\n") {
            Some((_, p)) => p.to_string(),
            None => text,
        };
        install_quiet_panic_hook();
        let mut out = Out::new();
        check_source(&src, "replay", &mut out, true, &classify);
        for (_, what, _) in &out.failures {
            println!("VIOLATION property={} replay={}\n  what: {}", args.property, path, what);
        }
        return if out.failures.is_empty() { 0 } else { 1 };
    }
    if args.has_flag("--digest-worker") {
        // second-process determinism: read sources from stdin (NUL separated), print digests
        let mut input = String::new();
        use std::io::Read;
        std::io::stdin().read_to_string(&mut input).ok();
        install_quiet_panic_hook();
        for src in input.split('\0') {
            if src.is_empty() {
                continue;
            }
            match compile(src, true, false) {
                Ok(Ok(c)) => println!("{}", chunk_digest(&c)),
                _ => println!("-"),
            }
        }
        return 0;
    }
    install_quiet_panic_hook();
    let mut report = Report::new(args, "model_checking");
    let tier = args.tier;
    let nshards = threads() * 4;

    // (1) generated programs of every progmc profile
    let gens: Vec<(&str, &(dyn Fn(Tier, crate::progmc::Emit) + Sync))> = vec![
        ("core", &crate::fam_core::generate),
        ("fn", &crate::fam_fn::generate),
        ("match", &crate::fam_match::generate),
        ("err", &crate::fam_err::generate),
        ("types", &crate::fam_types::generate),
        ("meta", &crate::fam_meta::generate),
    ];
    // quick: every 7th generated program of the big profile (the complete families are compiled
    // and run by C01..C04, C16, C17 themselves); thorough: all
    let mut outs: Vec<Out> = vec![];
    for (gname, g) in &gens {
        let stride = match (tier, *gname) {
            (Tier::Quick, "core") => 11,
            (Tier::Quick, _) => 2,
            (Tier::Thorough, _) => 1,
        };
        let res = par_shards_big_stack(nshards, 64 << 20, |shard| {
            let mut out = Out::new();
            let mut idx = 0usize;
            g(tier, &mut |case| {
                let i = idx;
                idx += 1;
                if i % stride != 0 || (i / stride) % nshards != shard {
                    return;
                }
                let src = crate::kast::render_program(&case.prog);
                check_source(&src, case.family, &mut out, false, &classify);
            });
            out
        });
        outs.extend(res);
    }
    // (2) corpus and (3) its one-token neighbourhood (compiled, explored and run)
    let corpus: Vec<(String, String)> = crate::lexmc::corpus_files()
        .into_iter()
        .map(|(n, t)| if n.contains(".md#") { (n, crate::lexmc::strip_doc_markers(&t)) } else { (n, t) })
        .collect();
    let stride = tier.pick(5, 1);
    let res = par_shards_big_stack(corpus.len(), 64 << 20, |i| {
        let mut out = Out::new();
        let (name, text) = &corpus[i];
        let is_script = name.ends_with(".koto");
        check_source(text, "corpus", &mut out, !is_script || text.len() < 4000, &classify);
        if text.len() < 6000 {
            for m in token_neighbourhood(text, stride) {
                check_source(&m, "corpus-neighbourhood", &mut out, true, &classify);
            }
        }
        out
    });
    outs.extend(res);
    // dynamic corollary for the corpus and its neighbourhood, in memory-limited worker processes
    let mut run_queue: Vec<String> = vec![];
    for o in &mut outs {
        run_queue.append(&mut o.run_queue);
    }
    run_queue.sort();
    run_queue.dedup();
    let answers = crate::workers::run_pool("code-run", &run_queue, threads(), std::time::Duration::from_secs(10), 4_000_000);
    let mut ran = 0u64;
    let mut out_of_scope = 0u64;
    let mut dyn_out = Out::new();
    for (src, a) in run_queue.iter().zip(answers.iter()) {
        match a {
            crate::workers::WorkerAnswer::Line(l) => {
                ran += 1;
                if let Some(m) = l.strip_prefix("panic:") {
                    dyn_out.failures.push((classify(src, "panic"), format!("[run] running the compiled code panicked: {m}"), format!("running the compiled code panicked: {m}\n--- program ---\n{src}")));
                } else if let Some(k) = l.strip_prefix("fault:") {
                    dyn_out.failures.push((classify(src, "fault"), format!("[run] running the compiled code raised internal fault {k}"), format!("running the compiled code raised internal fault {k}\n--- program ---\n{src}")));
                }
            }
            _ => out_of_scope += 1,
        }
    }
    outs.push(dyn_out);
    // (4) size-scaled programs
    let ladders = size_ladders(tier);
    let res = par_shards_big_stack(ladders.len(), 256 << 20, |i| {
        let mut out = Out::new();
        let (name, src) = &ladders[i];
        check_source(src, "size-ladder", &mut out, false, &classify);
        // dynamic corollary with the arithmetic expectation
        let cfg = RunCfg { budget_ticks: 5_000_000, ..RunCfg::default() };
        let obs = run_script(src, &cfg);
        let label = format!("size-ladder {name}");
        out.ladder_outcomes.push((name.clone(), format!("{} ({} ticks)", obs.outcome.class(), obs.ticks)));
        match &obs.outcome {
            Outcome::Panic(m) => out.failures.push((
                Some(ladder_key(name, "panic")),
                format!("[{label}] panicked: {}", crate::progmc::first_line(m)),
                format!("{label}\npanicked: {m}\n--- program ---\n{}", head(src)),
            )),
            Outcome::CompileErr { .. } => {}
            Outcome::Ok(_) => {
                if let Some(exp) = expected_ladder_output(name) {
                    if obs.stdout != exp {
                        out.failures.push((
                            Some(ladder_key(name, "wrong-result")),
                            format!("[{label}] compiled without error but computed {:?} instead of {:?}", obs.stdout, exp),
                            format!("{label}\ncompiled without error but computed {:?} instead of {:?}\n--- program ---\n{}", obs.stdout, exp, head(src)),
                        ));
                    }
                }
            }
            other => {
                let m = match other.is_internal_fault() {
                    Some(k) => format!("internal fault {k}"),
                    None => format!("{other:?}"),
                };
                out.failures.push((
                    Some(if m.contains("Overflow of the current frame's register stack") {
                        "full-frame-register-overflow-at-runtime".to_string()
                    } else {
                        ladder_key(name, "runtime-failure")
                    }),
                    format!("[{label}] accepted by the compiler but failed at run time: {}", crate::progmc::first_line(&m)),
                    format!("{label}\naccepted by the compiler but failed at run time: {m}\n--- program ---\n{}", head(src)),
                ));
            }
        }
        out
    });
    outs.extend(res);

    // cross-process determinism on the corpus + ladders + a sample of generated programs
    let mut all_digests: Vec<(String, u64)> = vec![];
    for o in &mut outs {
        all_digests.append(&mut o.digests);
    }
    all_digests.sort();
    all_digests.dedup();
    let sample: Vec<&(String, u64)> = all_digests.iter().step_by(tier.pick(23, 3)).collect();
    let mut cross_checked = 0u64;
    if !sample.is_empty() {
        use std::io::Write;
        let exe = std::env::current_exe().unwrap();
        let mut child = std::process::Command::new(exe)
            .args(["codemc", "--property", "C05", "--digest-worker"])
            .stdin(std::process::Stdio::piped())
            .stdout(std::process::Stdio::piped())
            .spawn()
            .expect("spawn digest worker");
        {
            let mut stdin = child.stdin.take().unwrap();
            let payload: Vec<&str> = sample.iter().map(|(s, _)| s.as_str()).collect();
            stdin.write_all(payload.join("\0").as_bytes()).ok();
        }
        let outp = child.wait_with_output().expect("digest worker");
        let lines: Vec<&str> = std::str::from_utf8(&outp.stdout).unwrap_or("").lines().collect();
        for ((src, d), line) in sample.iter().zip(lines.iter()) {
            cross_checked += 1;
            if *line != d.to_string() {
                report.fail(
                    Some("capture-order-nondeterministic").filter(|_| src.contains('|')),
                    "compiling the same text in a second process yields different code".to_string(),
                    format!("compiling the same text in a second process yields different code\n--- program ---\n{}", head(src)),
                );
            }
        }
    }

    let mut ladder_outcomes = std::collections::BTreeMap::new();
    for o in &mut outs {
        for (k, v) in o.ladder_outcomes.drain(..) {
            ladder_outcomes.insert(k, v);
        }
    }
    report.cov("size_ladder_outcomes", json!(ladder_outcomes));
    let mut total = ChunkStats::default();
    let mut chunks = 0;
    let mut rejected = 0;
    let mut distinct: HashSet<u64> = HashSet::new();
    let mut samples = vec![];
    for o in outs {
        total.functions += o.stats.functions;
        total.states += o.stats.states;
        total.transitions += o.stats.transitions;
        total.instructions += o.stats.instructions;
        chunks += o.chunks;
        rejected += o.rejected;
        distinct.extend(o.distinct);
        for s in o.samples {
            if samples.len() < 5 {
                samples.push(s);
            }
        }
        for (k, w, r) in o.failures {
            report.fail(k.as_deref(), w, r);
        }
    }
    report.cov("states", total.states);
    report.cov("transitions", total.transitions);
    report.cov("traces_validated_against_impl", chunks);
    report.cov("evaluations", chunks);
    report.cov("distinct_nontrivial", distinct.len() as u64);
    report.cov("functions_explored", total.functions);
    report.cov("instructions_decoded", total.instructions);
    report.cov("chunks", chunks);
    report.cov("programs_rejected_by_compiler", rejected);
    report.cov("cross_process_digests_compared", cross_checked);
    report.cov("size_ladder_programs", ladders.len() as u64);
    report.cov("programs_run_in_workers", ran);
    report.cov("runs_out_of_scope_resource_exhaustion", out_of_scope);
    report.cov("corpus_files", corpus.len() as u64);
    report.cov("exhaustive", true);
    report.cov("rule", "chunks = real compiler output for (1) generated programs of the six progmc profiles, (2) repository scripts and doc examples, (3) their single-token delete/duplicate/swap neighbourhood, (4) size ladders crossing each encoding limit; each compiled under 3 settings. Per function body the abstract machine (ip, sequence depth, string depth, try stack) is explored exhaustively over all control-flow successors incl. exception edges; states/transitions are summed over all functions; distinct_nontrivial = distinct bytecode byte strings");
    if samples.is_empty() {
        samples.push("x = 1".into());
    }
    report.cov("samples", json!(samples));
    report.assume("the exception edge resets builder depths to their value at TryStart (what unwinding must achieve; the VM's behaviour is checked dynamically by C04/C07)");
    report.assume("register operands are required to be < NewFrame.register_count of the enclosing function");
    report.finish()
}

fn head(s: &str) -> String {
    if s.len() > 1500 { format!("{}\n... ({} bytes)", &s[..s.char_indices().nth(1500).map(|(i, _)| i).unwrap_or(s.len())], s.len()) } else { s.to_string() }
}

fn ladder_key(name: &str, class: &str) -> String {
    let kind = match name.rfind('-') {
        Some(i) => &name[..i],
        None => name,
    };
    format!("limit-{kind}-{class}")
}
