//! Shared plumbing: arguments, evidence, known findings, violation reports, parallel sharding.

use serde_json::{Value, json};
use std::{
    collections::{BTreeMap, BTreeSet},
    fs,
    hash::{Hash, Hasher},
    io::Write,
    path::PathBuf,
    sync::Mutex,
    time::Instant,
};

pub const VERIF_DIR: &str = "/verif";

#[derive(Clone, Copy, PartialEq, Eq, Debug)]
pub enum Tier {
    Quick,
    Thorough,
}

impl Tier {
    pub fn name(&self) -> &'static str {
        match self {
            Tier::Quick => "quick",
            Tier::Thorough => "thorough",
        }
    }
    pub fn pick<T>(&self, quick: T, thorough: T) -> T {
        match self {
            Tier::Quick => quick,
            Tier::Thorough => thorough,
        }
    }
}

#[derive(Clone, Debug)]
pub struct Args {
    pub property: String,
    pub tier: Tier,
    pub replay: Option<String>,
    pub seed: i64,
    pub extra: Vec<String>,
}

impl Args {
    pub fn parse(mut argv: Vec<String>) -> Args {
        let mut tier = match std::env::var("VERIF_TIER").ok().as_deref() {
            Some("thorough") => Tier::Thorough,
            _ => Tier::Quick,
        };
        let seed = std::env::var("VERIF_SEED")
            .ok()
            .and_then(|s| s.parse::<i64>().ok())
            .unwrap_or(0);
        let mut replay = None;
        let mut property = String::new();
        let mut extra = vec![];
        let mut i = 0;
        while i < argv.len() {
            match argv[i].as_str() {
                "--tier" => {
                    i += 1;
                    tier = match argv.get(i).map(|s| s.as_str()) {
                        Some("thorough") => Tier::Thorough,
                        _ => Tier::Quick,
                    };
                }
                "--replay" => {
                    i += 1;
                    replay = argv.get(i).cloned();
                }
                "--property" => {
                    i += 1;
                    property = argv.get(i).cloned().unwrap_or_default();
                }
                _ => extra.push(std::mem::take(&mut argv[i])),
            }
            i += 1;
        }
        Args {
            property,
            tier,
            replay,
            seed,
            extra,
        }
    }

    pub fn has_flag(&self, f: &str) -> bool {
        self.extra.iter().any(|e| e == f)
    }
}

pub fn threads() -> usize {
    std::env::var("KV_THREADS")
        .ok()
        .and_then(|s| s.parse().ok())
        .unwrap_or_else(|| {
            std::thread::available_parallelism()
                .map(|n| n.get())
                .unwrap_or(8)
        })
}

/// Runs `f(shard_index)` for every shard on a pool of worker threads, results in shard order.
pub fn par_shards<R: Send>(shards: usize, f: impl Fn(usize) -> R + Sync) -> Vec<R> {
    let next = std::sync::atomic::AtomicUsize::new(0);
    let results: Mutex<Vec<(usize, R)>> = Mutex::new(Vec::new());
    let n_threads = threads().min(shards.max(1));
    std::thread::scope(|s| {
        for _ in 0..n_threads {
            s.spawn(|| {
                loop {
                    let i = next.fetch_add(1, std::sync::atomic::Ordering::SeqCst);
                    if i >= shards {
                        break;
                    }
                    let r = f(i);
                    results.lock().unwrap().push((i, r));
                }
            });
        }
    });
    let mut v = results.into_inner().unwrap();
    v.sort_by_key(|(i, _)| *i);
    v.into_iter().map(|(_, r)| r).collect()
}

/// Like par_shards, but threads get a larger stack (deeply recursive subjects).
pub fn par_shards_big_stack<R: Send>(
    shards: usize,
    stack: usize,
    f: impl Fn(usize) -> R + Sync,
) -> Vec<R> {
    let next = std::sync::atomic::AtomicUsize::new(0);
    let results: Mutex<Vec<(usize, R)>> = Mutex::new(Vec::new());
    let n_threads = threads().min(shards.max(1));
    std::thread::scope(|s| {
        for _ in 0..n_threads {
            std::thread::Builder::new()
                .stack_size(stack)
                .spawn_scoped(s, || {
                    loop {
                        let i = next.fetch_add(1, std::sync::atomic::Ordering::SeqCst);
                        if i >= shards {
                            break;
                        }
                        let r = f(i);
                        results.lock().unwrap().push((i, r));
                    }
                })
                .unwrap();
        }
    });
    let mut v = results.into_inner().unwrap();
    v.sort_by_key(|(i, _)| *i);
    v.into_iter().map(|(_, r)| r).collect()
}

pub fn hash_of<T: Hash + ?Sized>(t: &T) -> u64 {
    // Deterministic across runs (no RandomState).
    let mut h = Fnv(0xcbf29ce484222325);
    t.hash(&mut h);
    h.0
}

pub struct Fnv(pub u64);
impl Hasher for Fnv {
    fn finish(&self) -> u64 {
        self.0
    }
    fn write(&mut self, bytes: &[u8]) {
        for b in bytes {
            self.0 ^= *b as u64;
            self.0 = self.0.wrapping_mul(0x100000001b3);
        }
    }
}

// ---------------------------------------------------------------------------------------------
// Known findings

#[derive(Clone, Debug)]
pub struct Finding {
    pub property: String,
    pub key: String,
    pub text: String,
}

#[derive(Default, Debug)]
pub struct KnownFindings {
    pub findings: Vec<Finding>,
    pub fixed: Vec<String>,
}

impl KnownFindings {
    pub fn load() -> Self {
        let path = format!("{VERIF_DIR}/KNOWN_FINDINGS.txt");
        let mut out = KnownFindings::default();
        let Ok(text) = fs::read_to_string(&path) else {
            return out;
        };
        for line in text.lines() {
            let line = line.trim();
            if let Some(rest) = line.strip_prefix("finding:") {
                let (head, text) = match rest.split_once("::") {
                    Some((h, t)) => (h, t.trim().to_string()),
                    None => (rest, String::new()),
                };
                let mut property = String::new();
                let mut key = String::new();
                for w in head.split_whitespace() {
                    if let Some(p) = w.strip_prefix("property=") {
                        property = p.to_string();
                    } else if let Some(k) = w.strip_prefix("key=") {
                        key = k.to_string();
                    }
                }
                if !property.is_empty() && !key.is_empty() {
                    out.findings.push(Finding {
                        property,
                        key,
                        text,
                    });
                }
            } else if let Some(rest) = line.strip_prefix("fixed:") {
                out.fixed.push(rest.trim().to_string());
            }
        }
        out
    }

    pub fn lookup(&self, property: &str, key: &str) -> Option<&Finding> {
        self.findings
            .iter()
            .find(|f| f.property == property && f.key == key)
    }
}

// ---------------------------------------------------------------------------------------------
pub static PROCESS_START: std::sync::OnceLock<std::time::Instant> = std::sync::OnceLock::new();

// Report: collects failing cases, decides KNOWN-FINDING vs VIOLATION, writes evidence.

#[derive(Clone, Debug)]
pub struct Failure {
    /// Finding key computed by the engine's predicate over the *input shape* (None: no predicate
    /// applies, always a violation).
    pub key: Option<String>,
    /// Short description of what failed (class + symptom)
    pub what: String,
    /// Replay file content (the minimal input and expected/observed)
    pub replay: String,
}

pub struct Report {
    pub property: String,
    pub tier: Tier,
    pub seed: i64,
    pub level: &'static str,
    pub started: Instant,
    pub coverage: BTreeMap<String, Value>,
    pub assumptions: Vec<String>,
    pub failures: Vec<Failure>,
    pub notes: Vec<String>,
    /// further failing cases per finding key that an engine counted without storing them; they
    /// count like stored ones (known finding if the key is listed, violations otherwise)
    pub extra_keyed: BTreeMap<String, u64>,
}

impl Report {
    pub fn new(args: &Args, level: &'static str) -> Self {
        Report {
            property: args.property.clone(),
            tier: args.tier,
            seed: args.seed,
            level,
            started: Instant::now(),
            coverage: BTreeMap::new(),
            assumptions: vec![],
            failures: vec![],
            notes: vec![],
            extra_keyed: BTreeMap::new(),
        }
    }

    pub fn cov(&mut self, key: &str, v: impl Into<Value>) {
        self.coverage.insert(key.to_string(), v.into());
    }

    pub fn cov_add(&mut self, key: &str, n: u64) {
        let cur = self.coverage.get(key).and_then(|v| v.as_u64()).unwrap_or(0);
        self.coverage.insert(key.to_string(), json!(cur + n));
    }

    pub fn assume(&mut self, s: &str) {
        self.assumptions.push(s.to_string());
    }

    pub fn fail(&mut self, key: Option<&str>, what: impl Into<String>, replay: impl Into<String>) {
        self.failures.push(Failure {
            key: key.map(|s| s.to_string()),
            what: what.into(),
            replay: replay.into(),
        });
    }

    /// Prints KNOWN-FINDING / VIOLATION lines, writes replay files and the evidence file and
    /// returns the process exit code.
    pub fn finish(mut self) -> i32 {
        let known = KnownFindings::load();
        let replay_dir = PathBuf::from(format!("{VERIF_DIR}/replays/{}", self.property));
        let _ = fs::create_dir_all(&replay_dir);

        let mut by_known: BTreeMap<String, Vec<&Failure>> = BTreeMap::new();
        let mut violations: Vec<&Failure> = vec![];
        for f in &self.failures {
            match &f.key {
                Some(k) if known.lookup(&self.property, k).is_some() => {
                    by_known.entry(k.clone()).or_default().push(f)
                }
                _ => violations.push(f),
            }
        }

        let stdout = std::io::stdout();
        let mut out = stdout.lock();

        let mut known_summary = serde_json::Map::new();
        for (k, fs_) in &by_known {
            let first = fs_.iter().find(|f| !f.replay.is_empty()).copied().unwrap_or(fs_[0]);
            let path = replay_dir.join(format!("known-{}.txt", sanitize(k)));
            let _ = fs::write(&path, &first.replay);
            let text = known.lookup(&self.property, k).unwrap().text.clone();
            let _ = writeln!(
                out,
                "KNOWN-FINDING: property={} {} :: {} ({} cases, first: {})",
                self.property,
                k,
                text,
                fs_.len(),
                path.display()
            );
            let extra = self.extra_keyed.get(k).copied().unwrap_or(0);
            known_summary.insert(k.clone(), json!(fs_.len() as u64 + extra));
        }
        // Findings that have gone quiet are noted (not an error).
        for f in &known.findings {
            if f.property == self.property && !by_known.contains_key(&f.key) {
                let _ = writeln!(
                    out,
                    "note: known finding {} of {} produced no failing case in this run",
                    f.key, self.property
                );
            }
        }

        // Distinct violations: group by (key, what) so the output stays readable.
        let mut seen: BTreeSet<(Option<String>, String)> = BTreeSet::new();
        let mut n_files = 0;
        let any_replay = violations.iter().any(|v| !v.replay.is_empty());
        for v in &violations {
            // engines may keep the full replay text only for the first cases of a class
            if v.replay.is_empty() && any_replay {
                continue;
            }
            let sig = (v.key.clone(), v.what.clone());
            if !seen.insert(sig) {
                continue;
            }
            if n_files >= 40 {
                continue;
            }
            let name = format!(
                "viol-{:03}-{}.txt",
                n_files,
                sanitize(v.key.as_deref().unwrap_or("unkeyed"))
            );
            let path = replay_dir.join(name);
            let _ = fs::write(&path, format!("# {}\n{}", v.what, v.replay));
            let _ = writeln!(
                out,
                "VIOLATION property={} replay={}",
                self.property,
                path.display()
            );
            let _ = writeln!(out, "  what: {}", v.what.replace('\n', " | "));
            n_files += 1;
        }

        if let Ok(path) = std::env::var("KV_DUMP_FAILURES") {
            let mut text = String::new();
            for f in &self.failures {
                text.push_str(&format!("{:?}\t{}\n", f.key, f.what.replace('\n', " ")));
            }
            let _ = fs::write(path, text);
        }
        // summary of failures by panic location (triage aid, also kept in the evidence)
        let mut by_loc: BTreeMap<String, u64> = BTreeMap::new();
        for f in &self.failures {
            if let Some(i) = f.what.rfind(" @ ") {
                let loc = f.what[i + 3..].split_whitespace().next().unwrap_or("").to_string();
                *by_loc.entry(loc).or_default() += 1;
            }
        }
        if !by_loc.is_empty() {
            for (l, n) in &by_loc {
                let _ = writeln!(out, "  panic-location {l}: {n} failing cases");
            }
            self.coverage.insert("failing_cases_by_panic_location".into(), json!(by_loc));
        }
        // counted-only cases of keys that are not listed are violations like their stored siblings
        let extra_viol: u64 = self.extra_keyed.iter().filter(|(k, _)| known.lookup(&self.property, k).is_none()).map(|(_, n)| *n).sum();
        let n_viol = violations.len() + extra_viol as usize;
        let wall = self.started.elapsed().as_secs_f64();
        self.coverage
            .insert("known_findings_cases".into(), Value::Object(known_summary));
        if !self.notes.is_empty() {
            self.coverage.insert("notes".into(), json!(self.notes));
        }
        let ev = json!({
            "property_id": self.property,
            "tier": self.tier.name(),
            "seed": self.seed,
            "level": self.level,
            "coverage": Value::Object(self.coverage.clone().into_iter().collect()),
            "assumptions": self.assumptions,
            "wall_s": wall,
            "process_wall_s": PROCESS_START.get().map(|t| t.elapsed().as_secs_f64()).unwrap_or(wall),
            "violations": n_viol as i64,
        });
        let ev_dir = format!("{VERIF_DIR}/evidence");
        let _ = fs::create_dir_all(&ev_dir);
        let ev_path = format!("{ev_dir}/{}.json", self.property);
        if let Err(e) = fs::write(&ev_path, serde_json::to_string_pretty(&ev).unwrap()) {
            eprintln!("machinery failure: cannot write evidence {ev_path}: {e}");
            return 2;
        }
        // a per-tier copy, so that the record of the last thorough run survives quick runs
        let tier_dir = format!("{VERIF_DIR}/evidence-by-tier");
        let _ = fs::create_dir_all(&tier_dir);
        let _ = fs::write(format!("{tier_dir}/{}.{}.json", self.property, self.tier.name()), serde_json::to_string_pretty(&ev).unwrap());
        let _ = writeln!(
            out,
            "{} tier={} wall={:.1}s violations={} known_finding_cases={} evidence={}",
            self.property,
            self.tier.name(),
            wall,
            n_viol,
            by_known.values().map(|v| v.len()).sum::<usize>(),
            ev_path
        );
        if n_viol > 0 { 1 } else { 0 }
    }
}

pub fn sanitize(s: &str) -> String {
    s.chars()
        .map(|c| {
            if c.is_ascii_alphanumeric() || c == '-' || c == '_' {
                c
            } else {
                '_'
            }
        })
        .take(60)
        .collect()
}

/// Keeps the first `cap` samples offered.
#[derive(Default)]
pub struct Samples {
    pub items: Vec<Value>,
    pub cap: usize,
}

impl Samples {
    pub fn new(cap: usize) -> Self {
        Samples { items: vec![], cap }
    }
    pub fn offer(&mut self, v: impl FnOnce() -> Value) {
        if self.items.len() < self.cap {
            self.items.push(v());
        }
    }
    pub fn merge(&mut self, other: Samples) {
        for i in other.items {
            if self.items.len() < self.cap {
                self.items.push(i);
            }
        }
    }
}

/// Silences the default panic printer; panics are captured by the engines through catch_unwind.
pub fn install_quiet_panic_hook() {
    std::panic::set_hook(Box::new(|info| {
        let msg = panic_message_from_info(info);
        // panics raised by the harness's own code are machinery faults: always visible
        if info.location().is_some_and(|l| l.file().starts_with("src/")) || msg.contains("unsafe precondition") || std::env::var("KV_LOUD").is_ok() {
            eprintln!("harness panic: {msg}");
        }
        LAST_PANIC.with(|c| *c.borrow_mut() = Some(msg));
    }));
}

thread_local! {
    pub static LAST_PANIC: std::cell::RefCell<Option<String>> = const { std::cell::RefCell::new(None) };
}

fn panic_message_from_info(info: &std::panic::PanicHookInfo) -> String {
    let payload = info.payload();
    let msg = if let Some(s) = payload.downcast_ref::<&str>() {
        s.to_string()
    } else if let Some(s) = payload.downcast_ref::<String>() {
        s.clone()
    } else {
        "<non-string panic payload>".to_string()
    };
    match info.location() {
        Some(l) => format!("{msg} @ {}:{}", l.file(), l.line()),
        None => msg,
    }
}

pub fn take_last_panic() -> String {
    LAST_PANIC
        .with(|c| c.borrow_mut().take())
        .unwrap_or_else(|| "<unknown panic>".into())
}
