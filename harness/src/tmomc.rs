//! C08 — the execution limit stops runaway scripts (virtual clock, hook H3).
//!
//! spin shapes x placements x try/catch wrappings x limits, plus terminating controls; every run
//! is deterministic: virtual time advances 100 ns per executed instruction.

use crate::common::*;
use crate::run::*;
use serde_json::json;
use std::collections::HashSet;
use std::time::Duration;

const QUANTUM_NS: u64 = 100;

fn indent(lines: &[String], n: usize) -> Vec<String> {
    let pad = "  ".repeat(n);
    lines.iter().map(|l| format!("{pad}{l}")).collect()
}

/// (name, definitions, spinning statement lines)
fn spins() -> Vec<(&'static str, Vec<String>, Vec<String>)> {
    let v = |s: &[&str]| s.iter().map(|x| x.to_string()).collect::<Vec<_>>();
    vec![
        ("loop", v(&[]), v(&["sx = 0", "loop", "  sx += 1"])),
        ("while-true", v(&[]), v(&["sx = 0", "while true", "  sx += 1"])),
        ("until-false", v(&[]), v(&["sx = 0", "until false", "  sx += 1"])),
        ("for-endless-generator", v(&["gen_endless = ||", "  loop", "    yield 1"]), v(&["sx = 0", "for gi in gen_endless()", "  sx += 1"])),
        ("for-iterator-repeat", v(&[]), v(&["sx = 0", "for gi in iterator.repeat(1)", "  sx += 1"])),
        ("for-iterator-generate", v(&[]), v(&["sx = 0", "for gi in iterator.generate(|| 1)", "  sx += 1"])),
        ("recursion", v(&["rec = |n| rec(n + 1)"]), v(&["rec 0"])),
        ("mutual-recursion", v(&["mutual = {}", "ra = |n| mutual.rb(n + 1)", "mutual.rb = |n| ra(n + 1)"]), v(&["ra 0"])),
        (
            "generator-never-yields",
            v(&["gen_stuck = ||", "  gs = 0", "  loop", "    gs += 1", "  yield gs"]),
            v(&["for gv in gen_stuck()", "  print 'unreachable'"]),
        ),
        (
            "next-metakey-loops",
            v(&["nexter =", "  @next: ||", "    nn = 0", "    loop", "      nn += 1"]),
            v(&["for nv in nexter", "  print 'unreachable'"]),
        ),
        ("callback-spins", v(&[]), v(&["(1,).each(|cv| ", "  cs = 0", "  loop", "    cs += 1", ").to_list()"])),
        ("outer-loop-nested-entries", v(&[]), v(&["sx = 0", "loop", "  sx += (1, 2, 3).each(|cv| cv + 1).to_tuple().sum()"])),
        (
            "outer-loop-heavy-nested-entries",
            v(&["heavy = |hv|", "  ht = 0", "  for hi in 0..200", "    ht += hi", "  ht"]),
            v(&["sx = 0", "loop", "  sx += (1, 2, 3, 4).each(heavy).to_tuple().sum()"]),
        ),
        ("while-with-call", v(&["step = |n| n + 1"]), v(&["sx = 0", "while sx >= 0", "  sx = step sx"])),
        // recursion whose every edge is an overloaded operator (no call / backward jump instruction)
        ("mutual-compare-metakeys", v(&["mcmp =", "  @<: |o| self > o", "  @>: |o| self < o"]), v(&["mres = mcmp < 1"])),
        ("negate-metakey-recursion", v(&["mneg =", "  @negate: || -self"]), v(&["nres = -mneg"])),
        ("index-metakey-recursion", v(&["midx =", "  @index: |i| self[i]"]), v(&["ires = midx[0]"])),
        ("access-metakey-recursion", v(&["macc =", "  @access: |k| self.other"]), v(&["ares = macc.thing"])),
        ("display-metakey-recursion", v(&["mdis =", "  @display: || 'd{self}'"]), v(&["dres = '{mdis}'"])),
    ]
}

/// placements: returns (definitions, trigger statement lines) given the spin statement lines
fn placements(spin: &[String]) -> Vec<(&'static str, Vec<String>, Vec<String>)> {
    let mut out = vec![];
    let s = |x: &str| x.to_string();
    out.push(("top-level", vec![], spin.to_vec()));
    // function depth 1..3
    let mut d1 = vec![s("pf1 = ||")];
    d1.extend(indent(spin, 1));
    out.push(("fn-depth-1", d1.clone(), vec![s("pf1()")]));
    let mut d3 = d1.clone();
    d3.push(s("pf2 = || 1 + pf1()"));
    d3.push(s("pf3 = || [pf2()]"));
    out.push(("fn-depth-3", d3, vec![s("pf3()")]));
    // method
    let mut m = vec![s("pobj ="), s("  tag: 1"), s("  run: ||")];
    m.extend(indent(spin, 2));
    out.push(("method", m, vec![s("pobj.run()")]));
    // metakeys
    for (name, key, args, trigger) in [
        ("meta-add", "@+", "|other|", "pmeta + 1"),
        ("meta-less", "@<", "|other|", "pmeta < 1"),
        ("meta-index", "@index", "|i|", "pmeta[0]"),
        ("meta-display", "@display", "||", "'{pmeta}'"),
        ("meta-display-in-list", "@display", "||", "'{[1, pmeta]}'"),
        ("meta-display-in-map-debug", "@display", "||", "'{{k: (pmeta, 1)}:?}'"),
        ("meta-less-under-sort", "@<", "|other|", "[pmeta, pmeta].sort()"),
        ("meta-size-in-unpack", "@size", "||", "match pmeta\n  (pa, pb) then 1\n  else 0"),
        ("meta-call", "@call", "||", "pmeta()"),
        ("meta-iterator", "@iterator", "||", "pmeta.to_tuple()"),
        ("meta-negate", "@negate", "||", "-pmeta"),
    ] {
        let mut d = vec![s("pmeta ="), format!("  {key}: {args}")];
        d.extend(indent(spin, 2));
        let trig = if name == "meta-less" || name == "meta-add" || name == "meta-index" || name == "meta-negate" || name.starts_with("meta-display") || name == "meta-less-under-sort" {
            vec![format!("pres = {trigger}")]
        } else {
            trigger.split('\n').map(|l| l.to_string()).collect()
        };
        out.push((name, d, trig));
    }
    // generator consumed by for
    let mut g = vec![s("pgen = ||"), s("  yield 1")];
    g.extend(indent(spin, 1));
    g.push(s("  yield 2"));
    out.push(("generator-body", g.clone(), vec![s("for pv in pgen()"), s("  pvv = pv")]));
    // the generator consumed through adaptors that pull several elements per output
    out.push(("generator-body-via-skip", g.clone(), vec![s("for pv in pgen().skip(1)"), s("  pvv = pv")]));
    out.push(("generator-body-via-step", g.clone(), vec![s("pres = pgen().step(2).to_tuple()")]));
    out.push(("generator-body-via-chunks", g.clone(), vec![s("pres = pgen().chunks(2).to_tuple()")]));
    out.push(("generator-body-via-last", g, vec![s("pres = pgen().last()")]));
    // the spin comes before the first yield and the first value is skipped by the consumer
    let mut g2 = vec![s("pgen2 = ||")];
    g2.extend(indent(spin, 1));
    g2.push(s("  yield 1"));
    g2.push(s("  yield 2"));
    out.push(("generator-spin-first-via-skip", g2.clone(), vec![s("pres = pgen2().skip(1).to_tuple()")]));
    out.push(("generator-spin-first-via-skip-reversed", g2, vec![s("pres = pgen2().skip(1).next()")]));
    // callbacks of native adaptors
    for (name, call) in [
        ("each-to-list", "(1, 2).each(pcb).to_list()"),
        ("keep-for", "for kv in (1, 2).keep(pcb)\n  kvv = kv"),
        ("fold", "(1, 2).fold(0, |acc, fv| pcb(fv))"),
        ("sort-key", "[3, 1, 2].sort(pcb)"),
        ("map-update", "{a: 1}.update('a', pcb)"),
        ("zip-second-input", "(1, 2).zip((1, 2).each(pcb)).to_tuple()"),
        ("chain-second-input", "(1, 2).chain((1, 2).each(pcb)).to_tuple()"),
        ("flatten-inner", "((1, 2).each(pcb), (3,)).flatten().to_tuple()"),
        ("intersperse-fn", "(1, 2).intersperse(|| pcb(0)).to_tuple()"),
        ("enumerate-each", "(1, 2).each(pcb).enumerate().to_tuple()"),
        ("peekable-each", "(1, 2).each(pcb).peekable().peek()"),
        ("windows-each", "(1, 2, 3).each(pcb).windows(2).to_tuple()"),
        ("cycle-each", "(1, 2).each(pcb).cycle().take(3).to_tuple()"),
        ("reversed-each", "(1, 2).each(pcb).reversed().to_tuple()"),
        ("map-sort-key", "{a: 1, b: 2}.sort(|k, v| pcb(v))"),
        ("tuple-sort-copy-key", "(3, 1, 2).sort_copy(pcb)"),
        ("min-key", "(1, 2).min(pcb)"),
        ("max-key", "[1, 2].max(pcb)"),
        ("min-max-key", "(1, 2).min_max(pcb)"),
        ("find", "(1, 2).find(pcb)"),
        ("any", "[1, 2].any(pcb)"),
        ("all", "[1, 2].all(pcb)"),
        ("position", "(1, 2).position(pcb)"),
        ("list-retain", "[1, 2].retain(pcb)"),
        ("list-transform", "[1, 2].transform(pcb)"),
        ("take-while", "(1, 2).take(pcb).to_tuple()"),
        ("generate", "iterator.generate((|| pcb(0)), 2).to_tuple()"),
        ("string-split-fn", "'a,b'.split(pcb).to_tuple()"),
        ("consume-fn", "(1, 2).consume(pcb)"),
    ] {
        let mut d = vec![s("pcb = |cbv|")];
        d.extend(indent(spin, 1));
        d.push(s("  true"));
        out.push((name, d, call.split('\n').map(|l| l.to_string()).collect()));
    }
    // @main
    let mut mn = vec![s("export @main = ||")];
    mn.extend(indent(spin, 1));
    out.push(("main", mn, vec![]));
    out
}

fn wrappings(defs: &[String], trigger: &[String]) -> Vec<(&'static str, Vec<String>)> {
    let s = |x: &str| x.to_string();
    let mut out = vec![];
    let mut base = defs.to_vec();
    base.extend(trigger.to_vec());
    out.push(("none", base));
    // try/catch directly around the trigger
    let mut w = defs.to_vec();
    w.push(s("try"));
    w.extend(indent(trigger, 1));
    if trigger.is_empty() {
        w.push(s("  wnothing = 0"));
    }
    w.push(s("catch werr"));
    w.push(s("  print 'SWALLOWED'"));
    out.push(("try-catch", w));
    // try/catch/finally
    let mut w = defs.to_vec();
    w.push(s("try"));
    w.extend(indent(trigger, 1));
    if trigger.is_empty() {
        w.push(s("  wnothing = 0"));
    }
    w.push(s("catch werr"));
    w.push(s("  print 'SWALLOWED'"));
    w.push(s("finally"));
    w.push(s("  wfin = 1"));
    out.push(("try-catch-finally", w));
    // catch + retry loop
    let mut w = defs.to_vec();
    w.push(s("wtries = 0"));
    w.push(s("while wtries < 3"));
    w.push(s("  wtries += 1"));
    w.push(s("  try"));
    w.extend(indent(trigger, 2));
    if trigger.is_empty() {
        w.push(s("    wnothing = 0"));
    }
    w.push(s("  catch werr"));
    w.push(s("    print 'SWALLOWED'"));
    out.push(("retry-loop", w));
    // handler inside a wrapper function (a frame between handler and spin)
    let mut w = defs.to_vec();
    w.push(s("wguard = ||"));
    w.push(s("  try"));
    w.extend(indent(trigger, 2));
    if trigger.is_empty() {
        w.push(s("    wnothing = 0"));
    }
    w.push(s("  catch werr"));
    w.push(s("    print 'SWALLOWED'"));
    w.push(s("    'recovered'"));
    w.push(s("wres = wguard()"));
    out.push(("guard-function", w));
    out
}

struct Verdict {
    ok: bool,
    class: &'static str,
    detail: String,
    vtime_ratio: f64,
}

fn judge_spin(obs: &Obs, limit_ms: u64, slack: f64) -> Verdict {
    let limit_ns = limit_ms * 1_000_000;
    let ratio = obs.vnow_ns as f64 / limit_ns as f64;
    let bad = |class: &'static str, detail: String| Verdict { ok: false, class, detail, vtime_ratio: ratio };
    if obs.stdout.contains("SWALLOWED") {
        return bad("swallowed", format!("a catch block ran for the timeout (stdout {:?}, outcome {:?})", obs.stdout, obs.outcome.class()));
    }
    match &obs.outcome {
        Outcome::Timeout => {
            if ratio > 1.0 + slack {
                bad("late", format!("timeout raised at {:.2} x the limit (virtual time {} ns, limit {} ns)", ratio, obs.vnow_ns, limit_ns))
            } else {
                Verdict { ok: true, class: "", detail: String::new(), vtime_ratio: ratio }
            }
        }
        Outcome::Budget => bad("never", format!("no timeout within 10 x the limit ({} instructions executed)", obs.ticks)),
        Outcome::Panic(m) => bad("panic", format!("panicked: {m}")),
        other => bad("wrong-outcome", format!("expected a timeout error, got {:?} (stdout {:?})", other, obs.stdout)),
    }
}

pub fn run(args: &Args) -> i32 {
    install_quiet_panic_hook();
    let tier = args.tier;
    let limits: Vec<u64> = tier.pick(vec![1, 3, 10], vec![1, 3, 10, 30, 100, 300]);
    let slack = 1.0;
    if let Some(path) = &args.replay {
        let text = std::fs::read_to_string(path).unwrap_or_default();
        let limit_ms: u64 = text.lines().find_map(|l| l.strip_prefix("limit_ms: ")).and_then(|x| x.parse().ok()).unwrap_or(10);
        let src = match text.split_once("--- program ---\n") {
            Some((_, p)) => p.to_string(),
            None => text.clone(),
        };
        let a = run_limited(&src, limit_ms);
        let b = run_limited(&src, limit_ms);
        if a.0.outcome != b.0.outcome || a.0.vnow_ns != b.0.vnow_ns {
            eprintln!("machinery failure: replay diverged");
            return 2;
        }
        let v = judge_spin(&a.0, limit_ms, slack);
        println!("outcome {:?} at virtual time {} ns (limit {} ms), stdout {:?}, state {:?}, probe_ok {}, state_clean {}", a.0.outcome.class(), a.0.vnow_ns, limit_ms, a.0.stdout, a.0.state, a.1, a.2);
        if !v.ok {
            println!("VIOLATION property={} replay={}\n  what: {}", args.property, path, v.detail);
            return 1;
        }
        return 0;
    }
    let mut report = Report::new(args, "exploration");
    // enumerate
    let mut cases: Vec<(String, String, String, String)> = vec![]; // spin, placement, wrapping, source
    for (sname, sdefs, sstmt) in spins() {
        for (pname, pdefs, trigger) in placements(&sstmt) {
            // the spin's own definitions come first
            let mut defs = sdefs.clone();
            defs.extend(pdefs);
            for (wname, lines) in wrappings(&defs, &trigger) {
                if pname == "main" && wname != "none" {
                    continue;
                }
                cases.push((sname.to_string(), pname.to_string(), wname.to_string(), lines.join("\n") + "\n"));
            }
        }
    }
    let n_cases = cases.len();
    let jobs: Vec<(usize, u64)> = (0..n_cases).flat_map(|i| limits.iter().map(move |l| (i, *l))).collect();
    // every run happens in a worker process: recursion through nested VM entries can exhaust the
    // native stack before any timeout fires (the process aborts)
    let requests: Vec<String> = jobs.iter().map(|(i, l)| format!("{l}\n{}", cases[*i].3)).collect();
    let answers = crate::workers::run_pool("tmo-run", &requests, threads(), Duration::from_secs(20), 8_000_000);
    let mut results = vec![];
    for ((i, limit), a) in jobs.iter().zip(answers.iter()) {
        let (v, probe_ok, state_clean, class) = match a {
            crate::workers::WorkerAnswer::Line(l) => {
                let f: Vec<&str> = l.splitn(7, '|').collect();
                if f.len() < 7 {
                    (Verdict { ok: false, class: "machinery", detail: format!("bad worker answer {l}"), vtime_ratio: 0.0 }, true, true, "machinery")
                } else {
                    let ok = f[0] == "1";
                    let class: &'static str = match f[1] {
                        "swallowed" => "swallowed",
                        "late" => "late",
                        "never" => "never",
                        "panic" => "panic",
                        "wrong-outcome" => "wrong-outcome",
                        _ => "",
                    };
                    let oc: &'static str = match f[5] {
                        "timeout" => "timeout",
                        "ok" => "ok",
                        "budget" => "budget",
                        "panic" => "panic",
                        _ => "other",
                    };
                    (
                        Verdict { ok, class, detail: f[6].replace("\\n", " "), vtime_ratio: f[2].parse().unwrap_or(0.0) },
                        f[3] == "1",
                        f[4] == "1",
                        oc,
                    )
                }
            }
            crate::workers::WorkerAnswer::Died => (
                Verdict { ok: false, class: "crash", detail: "the process crashed (native stack exhausted) before any timeout was raised".into(), vtime_ratio: 0.0 },
                true,
                true,
                "crash",
            ),
            crate::workers::WorkerAnswer::Hung => (
                Verdict { ok: false, class: "never", detail: "no answer within the wall limit of the supervisor".into(), vtime_ratio: 0.0 },
                true,
                true,
                "hung",
            ),
        };
        results.push((*i, *limit, v, probe_ok, state_clean, class));
    }
    let mut distinct: HashSet<u64> = HashSet::new();
    let mut max_ratio = 0.0f64;
    let mut timeouts = 0u64;
    for (i, limit, v, probe_ok, state_clean, class) in &results {
        let (sname, pname, wname, src) = &cases[*i];
        distinct.insert(hash_of(&(class, (v.vtime_ratio * 10.0) as i64, sname, pname == "top-level")));
        if *class == "timeout" {
            timeouts += 1;
            if v.vtime_ratio > max_ratio {
                max_ratio = v.vtime_ratio;
            }
        }
        let head = format!("spin={sname} placement={pname} wrapping={wname} limit={limit}ms");
        if !v.ok {
            report.fail(
                classify(sname, pname, wname, v.class).as_deref(),
                format!("[{}] {head}: {}", v.class, v.detail),
                format!("{head}\nclass: {}\n{}\nlimit_ms: {limit}\n--- program ---\n{src}", v.class, v.detail),
            );
        } else {
            if !*probe_ok {
                report.fail(
                    None,
                    format!("[unusable-after-timeout] {head}: the runtime did not run a probe script correctly after the timeout"),
                    format!("{head}\nthe runtime did not run a probe script correctly after the timeout\nlimit_ms: {limit}\n--- program ---\n{src}"),
                );
            }
            if !*state_clean {
                report.fail(
                    Some("residue-after-timeout"),
                    format!("[residue] {head}: internal execution state left behind after the timeout"),
                    format!("{head}\ninternal execution state left behind after the timeout\nlimit_ms: {limit}\n--- program ---\n{src}"),
                );
            }
        }
    }
    // terminating controls: same observation with every limit as without
    let controls = terminating_controls();
    let ctrl = par_shards(controls.len(), |i| {
        let src = &controls[i];
        let base = run_script(src, &RunCfg { quantum_ns: QUANTUM_NS, budget_ticks: 3_000_000, ..RunCfg::default() });
        let mut bad = vec![];
        for l in [1u64, 10, 100, 1000] {
            let obs = run_script(
                src,
                &RunCfg { limit: Some(Duration::from_millis(l)), quantum_ns: QUANTUM_NS, budget_ticks: 3_000_000, ..RunCfg::default() },
            );
            // a control that legitimately needs more virtual time than the limit times out
            let needs_ns = base.vnow_ns;
            if needs_ns as f64 > (l * 1_000_000) as f64 * 0.8 {
                continue;
            }
            if obs.outcome != base.outcome || obs.stdout != base.stdout {
                bad.push(format!("with a {l} ms limit: {:?} / {:?} instead of {:?} / {:?}", obs.outcome, obs.stdout, base.outcome, base.stdout));
            }
        }
        bad
    });
    let mut n_controls = 0u64;
    for (i, bad) in ctrl.iter().enumerate() {
        n_controls += 1;
        for b in bad {
            report.fail(
                None,
                format!("[control-affected] a terminating script behaves differently {b}"),
                format!("a terminating script behaves differently {b}\n--- program ---\n{}", controls[i]),
            );
        }
    }
    report.cov("evaluations", (results.len() + controls.len() * 5) as u64);
    report.cov("distinct_nontrivial", distinct.len() as u64);
    report.cov("spin_programs", n_cases as u64);
    report.cov("limits_ms", json!(limits));
    report.cov("runs_with_limit", results.len() as u64);
    report.cov("timeouts_observed", timeouts);
    report.cov("max_timeout_time_over_limit", max_ratio);
    report.cov("terminating_controls", n_controls);
    report.cov("exhaustive", true);
    report.cov("rule", format!("{} spin shapes x 53 placements x 5 try/catch wrappings x limits {:?} ms; virtual clock: 100 ns per executed instruction (hook H3), tick budget 10 x limit; oracle: ErrorKind::Timeout before virtual time limit x {:.1}, no catch block output, H1 state clean and a probe script runs afterwards; plus terminating controls under 4 limits vs no limit. distinct_nontrivial = distinct (outcome, time/limit decile, spin, top-level?)", spins().len(), limits, 1.0 + slack));
    report.cov("samples", json!([cases[0].3, cases[n_cases / 2].3, cases[n_cases - 1].3]));
    report.assume("virtual time removes only the dependence on host speed: the runtime's own deadline / adaptive interval logic runs unmodified on the virtual Instant; real-time slack on a loaded host is not decided");
    report.assume("spins that stay inside one native call are excluded by the property");
    report.finish()
}

pub fn worker_run(req: &str) -> String {
    let (l, src) = req.split_once('\n').unwrap_or(("10", req));
    let limit: u64 = l.parse().unwrap_or(10);
    let src = src.to_string();
    // run on a thread with a large stack (deep koto recursion is legitimate)
    let h = std::thread::Builder::new()
        .stack_size(256 << 20)
        .spawn(move || {
            let (obs, probe_ok, state_clean) = run_limited(&src, limit);
            let v = judge_spin(&obs, limit, 1.0);
            format!(
                "{}|{}|{}|{}|{}|{}|{}",
                v.ok as u8,
                v.class,
                v.vtime_ratio,
                probe_ok as u8,
                state_clean as u8,
                obs.outcome.class(),
                v.detail.replace('|', "/")
            )
        })
        .unwrap();
    h.join().unwrap_or_else(|_| "0|panic|0|1|1|panic|worker thread panicked".into())
}

/// runs the script with the limit on a fresh instance; afterwards checks H1 state and runs a probe
fn run_limited(src: &str, limit_ms: u64) -> (Obs, bool, bool) {
    let budget = (limit_ms * 1_000_000 / QUANTUM_NS) * 10;
    let cfg = RunCfg { limit: Some(Duration::from_millis(limit_ms)), quantum_ns: QUANTUM_NS, budget_ticks: budget, ..RunCfg::default() };
    let mut inst = Instance::new(cfg.clone());
    let obs = inst.run(src);
    let mut probe_ok = true;
    let mut state_clean = true;
    if matches!(obs.outcome, Outcome::Timeout) {
        if let Some(st) = &obs.state {
            state_clean = st.registers == 0 && st.call_stack == 0 && st.sequence_builders == 0 && st.string_builders == 0;
        }
        let probe_cfg = RunCfg { limit: Some(Duration::from_millis(1000)), quantum_ns: QUANTUM_NS, budget_ticks: 1_000_000, ..RunCfg::default() };
        // exports persist between runs by design (an exported @main would run again)
        *inst.koto.exports_mut() = koto::prelude::KMap::default();
        let p = inst.run_with("pq = [1, 2, 3].each(|v| v * 2).to_tuple()\nprint 'probe {pq}'\n'done'", &probe_cfg);
        probe_ok = p.stdout == "probe (2, 4, 6)\n" && p.outcome == Outcome::Ok("done".into());
    }
    (obs, probe_ok, state_clean)
}

fn terminating_controls() -> Vec<String> {
    let mut v = vec![];
    for n in [0, 1, 10, 100, 1000] {
        v.push(format!("x = 0\nfor i in 0..{n}\n  x += i\nprint x\n"));
        v.push(format!("x = 0\nwhile x < {n}\n  x += 1\nprint x\n"));
        v.push(format!("f = |n| if n <= 0 then 0 else 1 + f(n - 1)\nprint f({})\n", n.min(200)));
        v.push(format!("print (0..{n}).each(|v| v * 2).keep(|v| v % 3 == 0).to_tuple().sum()\n"));
        v.push(format!("g = ||\n  for i in 0..{n}\n    yield i\nt = 0\nfor v in g()\n  t += v\nprint t\n"));
        v.push(format!("x = 0\ntry\n  for i in 0..{n}\n    x += 1\n  throw 'done'\ncatch e\n  print e, x\n"));
    }
    v
}

fn classify(spin: &str, placement: &str, wrapping: &str, class: &str) -> Option<String> {
    let _ = (placement, wrapping);
    // the running time is dominated by nested VM entries (callbacks driven by native functions):
    // every nested entry starts a fresh deadline and the outer entry only looks at the clock
    // after a number of *its own* instructions
    if spin == "outer-loop-heavy-nested-entries" && matches!(class, "never" | "late") {
        return Some("timeout-blind-to-time-in-nested-entries".into());
    }
    // unbounded recursion where every level is a nested VM entry: no entry ever reaches its own
    // deadline, the native stack is exhausted first
    if spin == "display-metakey-recursion" && matches!(class, "crash" | "never" | "late") {
        return Some("native-stack-exhausted-before-limit".into());
    }
    None
}
