//! C01 families: operator trees in contexts, assignment sequences, ranges, indexing/slicing,
//! control flow.

use crate::common::Tier;
use crate::kast::*;
use crate::progmc::*;

const BIN_OPS: &[Op] = &[Op::Add, Op::Sub, Op::Mul, Op::Div, Op::Rem, Op::Pow, Op::And, Op::Or];
const CMP_OPS: &[CmpOp] = &[CmpOp::Lt, CmpOp::Le, CmpOp::Gt, CmpOp::Ge, CmpOp::Eq, CmpOp::Ne];

fn leaves_full() -> Vec<X> {
    vec![
        int(0),
        int(1),
        int(2),
        int(-3),
        int(7),
        float(2.5),
        s("a"),
        s("b"),
        null(),
        boolean(true),
        boolean(false),
        id("x"),
        id("y"),
        tcall(1, int(3)),
        tcall(2, null()),
        tcall(3, s("s")),
    ]
}

fn leaves_small() -> Vec<X> {
    vec![int(1), float(2.5), s("a"), null(), id("x"), id("y"), tcall(1, int(3)), tcall(2, null())]
}

fn leaves_boundary() -> Vec<X> {
    vec![
        int(i64::MIN),
        int(-1),
        int(i64::MAX),
        int(1 << 53),
        int((1 << 53) + 1),
        float(0.1),
        float(1e308),
        float(-0.0),
        float(0.0),
        float(2.0),
        // the integer whose bit pattern is that of the float 2.0
        int(4611686018427387904),
        int(2),
        int(0),
        int(63),
        int(64),
        int(4294967296),
        float(0.5),
    ]
}

/// all trees with exactly one operator over the given leaves
fn trees1(leaves: &[X], bin: &[Op], cmp: &[CmpOp], unary: bool) -> Vec<X> {
    let mut out = vec![];
    for a in leaves {
        if unary {
            out.push(x(E::Neg(a.clone())));
            out.push(x(E::Not(a.clone())));
        }
        for b in leaves {
            for op in bin {
                out.push(bin_(*op, a.clone(), b.clone()));
            }
            for op in cmp {
                out.push(cmp_(a.clone(), *op, b.clone()));
            }
        }
    }
    out
}

fn bin_(op: Op, a: X, b: X) -> X {
    bin(op, a, b)
}
fn cmp_(a: X, op: CmpOp, b: X) -> X {
    cmp(a, op, b)
}

/// all trees with exactly two operators
fn trees2(leaves: &[X], bin: &[Op], cmp: &[CmpOp], unary: bool) -> Vec<X> {
    let t1 = trees1(leaves, bin, cmp, unary);
    let mut out = vec![];
    for t in &t1 {
        if unary {
            out.push(x(E::Neg(t.clone())));
            out.push(x(E::Not(t.clone())));
        }
        for l in leaves {
            for op in bin {
                out.push(bin_(*op, t.clone(), l.clone()));
                out.push(bin_(*op, l.clone(), t.clone()));
            }
            for op in cmp {
                // comparison chains: a < b < c as one chain node when t is itself a comparison of
                // the same class; otherwise a parenthesised operand
                if let E::Cmp(operands, ops) = &**t {
                    if ops[0].is_equality() == op.is_equality() {
                        let mut o2 = operands.clone();
                        o2.push(l.clone());
                        let mut p2 = ops.clone();
                        p2.push(*op);
                        out.push(x(E::Cmp(o2, p2)));
                        continue;
                    }
                }
                out.push(cmp_(t.clone(), *op, l.clone()));
                out.push(cmp_(l.clone(), *op, t.clone()));
            }
        }
    }
    out
}

fn preamble() -> Vec<X> {
    vec![traced_fn(), assign("x", int(5)), assign("y", float(1.5))]
}

const N_CONTEXTS: usize = 17;

/// Places expression `e` in context number `c`.
fn in_context(e: &X, c: usize) -> Option<Vec<X>> {
    let mut p = preamble();
    match c {
        0 => {
            // discarded statement
            p.push(e.clone());
            p.push(print(s("end")));
        }
        1 => {
            // script result
            p.push(e.clone());
        }
        2 => {
            p.push(assign("z", e.clone()));
            p.push(print(id("z")));
        }
        3 => {
            // assignment to an existing local (that the tree may read)
            p.push(assign("x", e.clone()));
            p.push(print(id("x")));
        }
        4 => {
            p.push(assign("id_", func(&["v"], vec![id("v")])));
            p.push(print(callf("id_", vec![e.clone()])));
        }
        5 => p.push(print(list(vec![int(0), e.clone(), int(9)]))),
        6 => p.push(print(map(vec![("k", e.clone())]))),
        7 => p.push(print(interp(vec![lit("a"), hole(e.clone()), lit("b")]))),
        8 => p.push(if_(e.clone(), vec![print(s("T"))], Some(vec![print(s("F"))]))),
        9 => {
            p.push(assign("f", func(&[], vec![ret(Some(e.clone()))])));
            p.push(print(callf("f", vec![])));
        }
        10 => {
            p.push(assign("f", func(&[], vec![e.clone()])));
            p.push(print(callf("f", vec![])));
        }
        11 => {
            p.push(assign("r", x(E::Loop(blk(vec![x(E::Break(Some(e.clone())))])))));
            p.push(print(id("r")));
        }
        12 => {
            // six live locals
            for i in 0..6 {
                p.push(assign(&format!("a{i}"), int(10 + i)));
            }
            p.push(assign("z", e.clone()));
            p.push(print(tuple(vec![id("a0"), id("a5"), id("z")])));
        }
        13 => {
            // six live temporaries: the tree is the last argument of a 7-argument call
            p.push(assign(
                "h",
                func(&["a", "b", "c", "d", "e_", "f_", "g"], vec![tuple(vec![id("a"), id("f_"), id("g")])]),
            ));
            p.push(print(callf(
                "h",
                vec![int(1), int(2), int(3), int(4), int(5), int(6), e.clone()],
            )));
        }
        14 => p.push(print(tuple(vec![e.clone(), int(1)]))),
        15 => {
            // compound context: operand of a further addition inside a list inside a call
            p.push(assign("id_", func(&["v"], vec![id("v")])));
            p.push(assign("w", callf("id_", vec![list(vec![e.clone()])])));
            p.push(print(id("w")));
        }
        16 => {
            // register pressure: 244 live locals in a function, then a 13-element list literal
            // (more elements than free registers: they are pushed in batches)
            let mut body: Vec<X> = (0..244).map(|i| assign(&format!("a{i}"), int(i))).collect();
            let mut elems = vec![e.clone()];
            elems.extend((1..13).map(int));
            body.push(assign("z", list(elems)));
            body.push(tuple(vec![id("a0"), id("a243"), id("z")]));
            p.push(assign("pressure", func(&[], body)));
            p.push(print(callf("pressure", vec![])));
        }
        _ => return None,
    }
    Some(p)
}

fn shape_of(e: &X, ctx: usize) -> Vec<&'static str> {
    let mut v = vec![];
    if ctx == 3 && ids_in(e).iter().any(|n| n == "x") {
        v.push("assign-target-read-by-rhs");
    }
    if ctx == 0 && has_operator(e) {
        v.push("discarded-op");
    }
    v
}

fn has_operator(e: &X) -> bool {
    match &**e {
        E::Neg(_) | E::Cmp(..) => true,
        E::Bin(op, a, b) => !matches!(op, Op::And | Op::Or) || has_operator(a) || has_operator(b),
        E::Not(a) => has_operator(a),
        _ => false,
    }
}

fn emit_tree(e: &X, family: &'static str, contexts: &[usize], in_fn: bool, emit: Emit) {
    for &c in contexts {
        if let Some(p) = in_context(e, c) {
            emit(Case { family, prog: p.clone(), shape: shape_of(e, c) });
            if in_fn {
                emit(Case { family, prog: wrap_in_function(p), shape: shape_of(e, c) });
            }
        }
    }
}

pub fn generate(tier: Tier, emit: Emit) {
    // context 16 (register pressure, 250-line programs) only for every 8th tree
    let all_ctx: Vec<usize> = (0..N_CONTEXTS - 1).collect();
    // ops(1): full alphabet, all contexts, top level and function body
    for (ti, t) in trees1(&leaves_full(), BIN_OPS, CMP_OPS, true).iter().enumerate() {
        emit_tree(t, "ops1", &all_ctx, true, emit);
        if ti % 8 == 0 {
            emit_tree(t, "ops1", &[16], false, emit);
        }
    }
    // ops(2): reduced alphabet (one operator per binding-power level)
    let bin2: &[Op] = match tier {
        Tier::Quick => &[Op::Add, Op::Div, Op::Pow, Op::And, Op::Or],
        Tier::Thorough => BIN_OPS,
    };
    let cmp2: &[CmpOp] = match tier {
        Tier::Quick => &[CmpOp::Lt, CmpOp::Eq],
        Tier::Thorough => CMP_OPS,
    };
    let ctx2: Vec<usize> = match tier {
        Tier::Quick => vec![0, 1, 2, 3, 8, 13],
        Tier::Thorough => all_ctx.clone(),
    };
    for t in trees2(&leaves_small(), bin2, cmp2, true) {
        emit_tree(&t, "ops2", &ctx2, tier == Tier::Thorough, emit);
    }
    // boundary leaves for wrapping / float rules
    for t in trees1(&leaves_boundary(), &[Op::Add, Op::Sub, Op::Mul, Op::Div, Op::Rem, Op::Pow], CMP_OPS, true) {
        emit_tree(&t, "ops-boundary", &[1, 2], false, emit);
    }
    if tier == Tier::Thorough {
        // three-operator trees, one representative operator per level, 5 leaves
        let leaves = vec![int(2), float(2.5), null(), id("x"), tcall(1, int(3))];
        let t2 = trees2(&leaves, &[Op::Add, Op::Mul, Op::Pow, Op::And, Op::Or], &[CmpOp::Lt, CmpOp::Eq], false);
        for t in &t2 {
            for l in &leaves {
                for op in [Op::Sub, Op::Div, Op::And, Op::Or] {
                    emit_tree(&bin_(op, t.clone(), l.clone()), "ops3", &[1, 3], false, emit);
                    emit_tree(&bin_(op, l.clone(), t.clone()), "ops3", &[1, 3], false, emit);
                }
                for op in [CmpOp::Lt, CmpOp::Ne] {
                    if let E::Cmp(operands, ops) = &**t {
                        if ops.iter().all(|o| o.is_equality() == op.is_equality()) {
                            let mut o2 = operands.clone();
                            o2.push(l.clone());
                            let mut p2 = ops.clone();
                            p2.push(op);
                            emit_tree(&x(E::Cmp(o2, p2)), "ops3", &[0, 1, 3], false, emit);
                            continue;
                        }
                    }
                    emit_tree(&cmp_(t.clone(), op, l.clone()), "ops3", &[1, 3], false, emit);
                }
            }
        }
    }
    gen_chains(tier, emit);
    gen_assign(tier, emit);
    gen_range(tier, emit);
    gen_index(tier, emit);
    gen_control(tier, emit);
}

// ---------------------------------------------------------------------------------------------
// comparison chains with 3 and 4 operands (every operand evaluated at most once, short-circuit)

fn gen_chains(tier: Tier, emit: Emit) {
    let operands: Vec<X> = vec![tcall(1, int(1)), tcall(2, int(2)), tcall(3, int(0)), int(3), id("x")];
    let ord: &[CmpOp] = &[CmpOp::Lt, CmpOp::Le, CmpOp::Gt];
    let eq: &[CmpOp] = &[CmpOp::Eq, CmpOp::Ne];
    let ctxs: &[usize] = match tier {
        Tier::Quick => &[1, 3, 8],
        Tier::Thorough => &[0, 1, 2, 3, 4, 8, 13],
    };
    for class in [ord, eq] {
        for n_ops in 2..=3usize {
            let n_operands = n_ops + 1;
            let total_operands = operands.len().pow(n_operands as u32);
            let total_ops = class.len().pow(n_ops as u32);
            for oi in 0..total_operands {
                let mut v = vec![];
                let mut k = oi;
                for _ in 0..n_operands {
                    v.push(operands[k % operands.len()].clone());
                    k /= operands.len();
                }
                for pi in 0..total_ops {
                    let mut ops = vec![];
                    let mut k = pi;
                    for _ in 0..n_ops {
                        ops.push(class[k % class.len()]);
                        k /= class.len();
                    }
                    let e = x(E::Cmp(v.clone(), ops));
                    emit_tree(&e, "cmp-chain", ctxs, false, emit);
                }
            }
        }
    }
}

// ---------------------------------------------------------------------------------------------
// assign family

/// many statements of one kind in one frame: nothing may accumulate per statement
fn gen_many_statements(emit: Emit) {
    let kinds: Vec<(&str, Box<dyn Fn(i64) -> X>)> = vec![
        ("index-assign", Box::new(|i| x(E::Assign(Tgt::Index(id("l"), int(i % 2)), bin(Op::Add, id("x"), int(i)))))),
        ("key-assign", Box::new(|i| x(E::Assign(Tgt::Access(id("m"), "k".into()), bin(Op::Mul, id("x"), int(i)))))),
        ("op-assign-index", Box::new(|i| x(E::OpAssign(Op::Add, Tgt::Index(id("l"), int(i % 2)), bin(Op::Add, id("x"), int(1)))))),
        ("discarded-call", Box::new(|i| tcall(1, int(i)))),
        ("discarded-operator", Box::new(|i| bin(Op::Add, id("x"), int(i)))),
        ("multi-assign", Box::new(|i| x(E::MultiAssign(vec![Tgt::Id("a".into()), Tgt::Id("b".into())], vec![int(i), bin(Op::Add, id("x"), int(i))])))),
    ];
    for (_name, mk) in &kinds {
        for n in [40i64, 260] {
            let mut body = vec![assign("x", int(1)), assign("l", list(vec![int(0), int(0)])), assign("m", map(vec![("k", int(0))])), assign("a", int(0)), assign("b", int(0))];
            // only the last statements print: the traced function is quiet for the others
            body.extend((0..n).map(|i| mk(i)));
            body.push(print(tuple(vec![id("x"), id("l"), id("m"), id("a"), id("b")])));
            let mut top = vec![assign("t", func(&["n", "v"], vec![id("v")]))];
            top.extend(body.clone());
            emit(Case { family: "many-statements", prog: top, shape: vec![] });
            let mut infn = vec![assign("t", func(&["n", "v"], vec![id("v")]))];
            infn.push(assign("big", func(&[], body)));
            infn.push(callf("big", vec![]));
            emit(Case { family: "many-statements", prog: infn, shape: vec![] });
        }
    }
}

fn gen_assign(tier: Tier, emit: Emit) {
    gen_many_statements(emit);
    // statement alphabet; state: x (int), l (list), m (map), a, b
    let exprs: Vec<X> = vec![
        int(2),
        id("x"),
        bin(Op::Add, id("x"), int(1)),
        bin(Op::Mul, id("a"), int(2)),
        tcall(1, int(4)),
        index(id("l"), int(0)),
        access(id("m"), "k"),
    ];
    let mut stmts: Vec<X> = vec![];
    for e in &exprs {
        stmts.push(assign("x", e.clone()));
        stmts.push(x(E::Assign(Tgt::Index(id("l"), int(0)), e.clone())));
        stmts.push(x(E::Assign(Tgt::Access(id("m"), "k".into()), e.clone())));
        stmts.push(x(E::Assign(Tgt::Access(id("m"), "n".into()), e.clone())));
        for op in [Op::Add, Op::Sub, Op::Mul, Op::Div, Op::Rem, Op::Pow] {
            if op != Op::Add && !matches!(&**e, E::Int(_) | E::Id(_)) {
                continue;
            }
            stmts.push(x(E::OpAssign(op, Tgt::Id("x".into()), e.clone())));
            stmts.push(x(E::OpAssign(op, Tgt::Index(id("l"), int(1)), e.clone())));
            stmts.push(x(E::OpAssign(op, Tgt::Access(id("m"), "k".into()), e.clone())));
        }
    }
    stmts.push(x(E::MultiAssign(vec![Tgt::Id("a".into()), Tgt::Id("b".into())], vec![id("b"), id("a")])));
    stmts.push(x(E::MultiAssign(vec![Tgt::Id("a".into()), Tgt::Id("b".into())], vec![id("x"), tcall(2, int(8))])));
    stmts.push(x(E::MultiAssign(
        vec![Tgt::Id("a".into()), Tgt::Index(id("l"), int(0)), Tgt::Access(id("m"), "k".into())],
        vec![int(1), int(2), int(3)],
    )));
    stmts.push(x(E::MultiAssign(
        vec![Tgt::Id("a".into()), Tgt::Wild(None), Tgt::Id("b".into())],
        vec![id("l")],
    )));
    stmts.push(x(E::MultiAssign(vec![Tgt::Id("a".into()), Tgt::Id("b".into())], vec![int(42)])));
    stmts.push(assign("a", assign("b", bin(Op::Add, id("x"), int(3)))));
    stmts.push(assign("x", assign("a", id("x"))));
    stmts.push(x(E::Assign(Tgt::Index(id("l"), x(E::Range(Some(int(0)), Some(int(2)), false))), int(0))));
    stmts.push(print(assign("a", int(9))));
    stmts.push(print(x(E::OpAssign(Op::Add, Tgt::Id("x".into()), int(10)))));

    let init = || {
        vec![
            traced_fn(),
            assign("x", int(5)),
            assign("a", int(1)),
            assign("b", int(2)),
            assign("l", list(vec![int(10), int(20), int(30)])),
            assign("m", map(vec![("k", int(7))])),
        ]
    };
    let fin = || vec![print(tuple(vec![id("x"), id("a"), id("b"), id("l"), id("m")]))];
    let n = stmts.len();
    // all sequences of length 1 and 2 (thorough: 3 over a reduced alphabet)
    for i in 0..n {
        let mut p = init();
        p.push(stmts[i].clone());
        p.extend(fin());
        emit(Case { family: "assign1", prog: p.clone(), shape: vec![] });
        emit(Case { family: "assign1", prog: wrap_in_function(p), shape: vec![] });
        for j in 0..n {
            let mut p = init();
            p.push(stmts[i].clone());
            p.push(stmts[j].clone());
            p.extend(fin());
            emit(Case { family: "assign2", prog: p, shape: vec![] });
        }
    }
    if tier == Tier::Thorough {
        let step = 5;
        for i in (0..n).step_by(step) {
            for j in (1..n).step_by(step) {
                for k in (2..n).step_by(step) {
                    let mut p = init();
                    p.push(stmts[i].clone());
                    p.push(stmts[j].clone());
                    p.push(stmts[k].clone());
                    p.extend(fin());
                    emit(Case { family: "assign3", prog: p, shape: vec![] });
                }
            }
        }
    }
}

// ---------------------------------------------------------------------------------------------
// range family

fn gen_range(tier: Tier, emit: Emit) {
    let bounds: Vec<Option<X>> = vec![
        None,
        Some(int(-1)),
        Some(int(0)),
        Some(int(2)),
        Some(id("x")),
        Some(int(i32::MAX as i64 + 1)),
        Some(int(i64::MAX)),
    ];
    for a in &bounds {
        for b in &bounds {
            for incl in [false, true] {
                if b.is_none() && incl {
                    continue;
                }
                let r = x(E::Range(a.clone(), b.clone(), incl));
                let mut p = vec![assign("x", int(3)), assign("r", r.clone()), print(id("r"))];
                p.push(print(tuple(vec![method(id("r"), "start", vec![]), method(id("r"), "end", vec![])])));
                p.push(print(cmp(id("r"), CmpOp::Eq, r.clone())));
                for probe in [-1i64, 0, 2, 3] {
                    p.push(print(method(id("r"), "contains", vec![int(probe)])));
                }
                emit(Case { family: "range", prog: p, shape: vec![] });
                // iteration / size / indexing for bounded, small ranges
                let small = |v: &Option<X>| matches!(v.as_deref(), Some(E::Int(i)) if i.abs() <= 3) || matches!(v.as_deref(), Some(E::Id(_)));
                if small(a) && small(b) {
                    let mut p = vec![assign("x", int(3)), assign("r", r.clone())];
                    p.push(x(E::For(vec![Pat::Id("i".into(), None)], id("r"), blk(vec![print(id("i"))]))));
                    p.push(print(method(id("r"), "to_tuple", vec![])));
                    p.push(print(callf("size", vec![id("r")])));
                    emit(Case { family: "range-iter", prog: p, shape: vec![] });
                }
                if a.is_some() {
                    for i in [-1i64, 0, 1, 4] {
                        let p = vec![assign("x", int(3)), assign("r", r.clone()), print(index(id("r"), int(i)))];
                        emit(Case { family: "range-index", prog: p, shape: vec![] });
                    }
                }
            }
        }
    }
    let _ = tier;
}

// ---------------------------------------------------------------------------------------------
// index family

fn gen_index(tier: Tier, emit: Emit) {
    let containers: Vec<(&'static str, Vec<X>)> = vec![
        ("list", (0..4).map(|n| list((0..n).map(|i| int(10 + i)).collect())).collect()),
        ("tuple", (0..4).map(|n| tuple((0..n).map(|i| int(10 + i)).collect())).collect()),
        ("string", vec![s(""), s("a"), s("ab"), s("abc"), s("aé"), s("éa")]),
        (
            "map",
            (0..4)
                .map(|n| x(E::Map((0..n).map(|i| (MK::Id(format!("k{i}").as_str().into()), Some(int(10 + i as i64)))).collect())))
                .collect(),
        ),
    ];
    let idx: Vec<i64> = vec![-1, 0, 1, 2, 3, 4];
    let bounds: Vec<Option<i64>> = vec![None, Some(-1), Some(0), Some(1), Some(2), Some(3), Some(4)];
    for (kind, cs) in &containers {
        for c in cs {
            for i in &idx {
                let p = vec![assign("c", c.clone()), print(index(id("c"), int(*i)))];
                emit(Case { family: "index", prog: p, shape: vec![] });
                if *kind == "list" {
                    let p = vec![
                        assign("c", c.clone()),
                        assign("d", id("c")),
                        x(E::Assign(Tgt::Index(id("c"), int(*i)), int(99))),
                        print(tuple(vec![id("c"), id("d")])),
                    ];
                    emit(Case { family: "index-assign", prog: p, shape: vec![] });
                }
            }
            if *kind == "map" {
                continue;
            }
            for a in &bounds {
                for b in &bounds {
                    for incl in [false, true] {
                        if b.is_none() && incl {
                            continue;
                        }
                        if tier == Tier::Quick && incl && matches!(a, Some(-1) | Some(4)) {
                            continue;
                        }
                        let r = x(E::Range(a.map(int), b.map(int), incl));
                        let mut p = vec![assign("c", c.clone()), assign("sl", index(id("c"), r.clone())), print(id("sl"))];
                        if *kind == "list" {
                            // a list slice is a copy
                            p.push(method(id("sl"), "push", vec![int(0)]));
                            p.push(print(id("c")));
                        }
                        emit(Case { family: "slice", prog: p, shape: vec![] });
                    }
                }
            }
        }
    }
}

// ---------------------------------------------------------------------------------------------
// control family

fn gen_control(tier: Tier, emit: Emit) {
    let conds: Vec<X> = vec![null(), boolean(false), boolean(true), int(0), s(""), list(vec![]), tuple(vec![])];
    // if / else-if / else shapes with up to 3 arms
    let uses: usize = 4;
    for c1 in &conds {
        for has_else in [false, true] {
            for u in 0..uses {
                let e = x(E::If(
                    vec![(c1.clone(), blk(vec![print(s("A")), int(1)]))],
                    if has_else { Some(blk(vec![print(s("E")), int(9)])) } else { None },
                ));
                emit(Case { family: "if", prog: use_value(e, u), shape: vec![] });
                // inline form
                let e = x(E::If(vec![(c1.clone(), blk(vec![int(1)]))], if has_else { Some(blk(vec![int(9)])) } else { None }));
                emit(Case { family: "if-inline", prog: use_value(e, u), shape: vec![] });
            }
            for c2 in &conds {
                for u in 0..uses {
                    let e = x(E::If(
                        vec![
                            (c1.clone(), blk(vec![print(s("A")), int(1)])),
                            (c2.clone(), blk(vec![print(s("B")), int(2)])),
                        ],
                        if has_else { Some(blk(vec![print(s("E")), int(9)])) } else { None },
                    ));
                    emit(Case { family: "if2", prog: use_value(e, u), shape: vec![] });
                    let e = x(E::Switch({
                        let mut arms = vec![
                            (Some(c1.clone()), blk(vec![print(s("A")), int(1)])),
                            (Some(c2.clone()), blk(vec![int(2)])),
                        ];
                        if has_else {
                            arms.push((None, blk(vec![int(9)])));
                        }
                        arms
                    }));
                    emit(Case { family: "switch", prog: use_value(e, u), shape: vec![] });
                }
            }
        }
    }
    // loops: bodies from an alphabet, iteration counts 0..3
    let body_items: Vec<X> = vec![
        x(E::OpAssign(Op::Add, Tgt::Id("n".into()), int(1))),
        print(id("i")),
        x(E::Break(None)),
        x(E::Break(Some(bin(Op::Mul, id("i"), int(10))))),
        x(E::Continue),
        if_(cmp(id("i"), CmpOp::Eq, int(1)), vec![x(E::Break(None))], None),
        if_(cmp(id("i"), CmpOp::Eq, int(1)), vec![x(E::Break(Some(s("b"))))], None),
        if_(cmp(id("i"), CmpOp::Eq, int(1)), vec![x(E::Continue)], None),
        id("i"),
        bin(Op::Add, id("i"), int(100)),
        x(E::For(vec![Pat::Id("j".into(), None)], x(E::Range(Some(int(0)), Some(int(2)), false)), blk(vec![
            if_(cmp(id("j"), CmpOp::Eq, int(1)), vec![x(E::Break(None))], None),
            print(tuple(vec![id("i"), id("j")])),
        ]))),
    ];
    let mut bodies: Vec<Vec<X>> = vec![];
    for a in &body_items {
        bodies.push(vec![a.clone()]);
        for b in &body_items {
            bodies.push(vec![a.clone(), b.clone()]);
        }
    }
    if tier == Tier::Thorough {
        for a in &body_items {
            for b in &body_items {
                for c in body_items.iter().step_by(2) {
                    bodies.push(vec![a.clone(), b.clone(), c.clone()]);
                }
            }
        }
    }
    for count in 0..4i64 {
        for body in &bodies {
            for u in 0..uses {
                if tier == Tier::Quick && u >= 2 && body.len() > 1 && count > 1 {
                    continue;
                }
                // koto rejects `break <value>` in a loop whose value is unused (documented
                // compile error), so those combinations are not well-formed programs
                if u == 0 && body.iter().any(has_value_break) {
                    continue;
                }
                // for loop
                let e = x(E::For(
                    vec![Pat::Id("i".into(), None)],
                    x(E::Range(Some(int(0)), Some(int(count)), false)),
                    blk(body.clone()),
                ));
                let mut p = vec![assign("n", int(0))];
                p.extend(use_value(e, u));
                p.push(print(id("n")));
                emit(Case { family: "for", prog: p, shape: vec![] });
                // while loop driven by i
                let mut wb = vec![x(E::OpAssign(Op::Add, Tgt::Id("i".into()), int(1)))];
                wb.extend(body.clone());
                let e = x(E::While(cmp(id("i"), CmpOp::Lt, int(count)), blk(wb.clone())));
                let mut p = vec![assign("n", int(0)), assign("i", int(-1))];
                p.extend(use_value(e, u));
                p.push(print(id("n")));
                emit(Case { family: "while", prog: p, shape: vec![] });
                let e = x(E::Until(cmp(id("i"), CmpOp::Ge, int(count)), blk(wb.clone())));
                let mut p = vec![assign("n", int(0)), assign("i", int(-1))];
                p.extend(use_value(e, u));
                p.push(print(id("n")));
                emit(Case { family: "until", prog: p, shape: vec![] });
                // loop with a guard
                let mut lb = vec![
                    x(E::OpAssign(Op::Add, Tgt::Id("i".into()), int(1))),
                    if_(
                        cmp(id("i"), CmpOp::Ge, int(count)),
                        vec![x(E::Break(if u == 0 { None } else { Some(s("done")) }))],
                        None,
                    ),
                ];
                lb.extend(body.clone());
                let e = x(E::Loop(blk(lb)));
                let mut p = vec![assign("n", int(0)), assign("i", int(-1))];
                p.extend(use_value(e, u));
                p.push(print(id("n")));
                emit(Case { family: "loop", prog: p, shape: vec![] });
            }
        }
    }
}

fn has_value_break(e: &X) -> bool {
    match &**e {
        E::Break(Some(_)) => true,
        E::If(arms, els) => {
            arms.iter().any(|(_, b)| b.iter().any(has_value_break))
                || els.as_ref().map(|b| b.iter().any(has_value_break)).unwrap_or(false)
        }
        _ => false,
    }
}

/// the value of `e` is: 0 ignored, 1 assigned to a new variable, 2 assigned to an existing one,
/// 3 returned from a function
fn use_value(e: X, u: usize) -> Vec<X> {
    match u {
        0 => vec![e, print(s("end"))],
        1 => vec![assign("r", e), print(id("r"))],
        2 => vec![assign("r", int(77)), assign("r", e), print(id("r"))],
        _ => vec![assign("f", func(&[], vec![assign("n", int(0)), assign("i", int(-1)), e])), print(callf("f", vec![]))],
    }
}

/// Known-finding predicates: (input shape, failure class) -> key
pub fn classify(case: &Case, v: &Verdict, real: &crate::run::Obs, rf: Option<&crate::kref::RefObs>) -> Option<String> {
    use crate::kref::RefOutcome;
    let has = |s: &str| case.shape.iter().any(|x| *x == s);
    // an operator whose result is unused is not executed at all: the error it should raise
    // (reference: runtime error) never happens and the program continues
    if has("discarded-op") {
        if let Some(rf) = rf {
            if matches!(rf.outcome, RefOutcome::Runtime)
                && real.stdout.starts_with(&rf.stdout)
                && matches!(real.outcome, crate::run::Outcome::Ok(_))
            {
                return Some("discarded-operator-not-evaluated".into());
            }
        }
    }
    if has("assign-target-read-by-rhs") && matches!(v.class, "wrong-output" | "wrong-value" | "spurious-error" | "missing-error") {
        return Some("assign-target-read-by-rhs".into());
    }
    None
}
