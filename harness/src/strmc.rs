//! C15 — strings stay valid text; indexing, splitting and formatting are exact.
//!
//! Exhaustive enumeration of all strings over an alphabet of 1-, 2-, 3- and 4-byte characters,
//! combining marks, CR/LF, spaces and case-mapping specials up to a length bound, each presented as
//! a fresh string and as slices of larger buffers (16-bit bounds, large bounds, bounds straddling
//! the 16-bit limit), x every string operation x all index / range arguments in and just beyond
//! bounds x a pattern pool x a grid of format options. Operations are called on the real runtime
//! (core library functions directly, index and interpolation through compiled functions) and the
//! result is compared with an oracle built on Rust std `str` and unicode-segmentation.

use crate::common::*;
use crate::run::*;
use koto::prelude::*;
use koto::runtime::KIteratorOutput;
use serde_json::json;
use std::collections::{BTreeMap, BTreeSet};
use unicode_segmentation::UnicodeSegmentation;

#[derive(Clone, PartialEq, Debug)]
enum R {
    S(String),
    /// a string value whose bytes are not valid UTF-8
    Malformed(Vec<u8>),
    Null,
    B(bool),
    I(i64),
    F(u64),
    L(Vec<R>),
    Rg(i64, i64),
    Err,
    Panic(String),
    Other(String),
}

fn short(r: &R) -> String {
    let s = format!("{r:?}");
    if s.len() > 160 { format!("{}...", s.chars().take(160).collect::<String>()) } else { s }
}

const ATOMS: [&str; 14] = ["a", "B", " ", "\n", "\r", "é", "\u{301}", "€", "😀", "ß", ",", "e", "İ", "Σ"];

fn strings(max_atoms: usize, atoms: &[&str]) -> Vec<String> {
    let mut out = vec![String::new()];
    let mut cur = vec![String::new()];
    for _ in 0..max_atoms {
        let mut next = vec![];
        for s in &cur {
            for a in atoms {
                next.push(format!("{s}{a}"));
            }
        }
        out.extend(next.iter().cloned());
        cur = next;
    }
    out
}

#[derive(Clone, Copy, PartialEq, Eq, Debug, PartialOrd, Ord)]
enum Pres {
    Full,
    Slice16,
    SliceLarge,
    Straddle,
}

fn present(s: &str, p: Pres) -> KString {
    match p {
        Pres::Full => KString::from(s.to_string()),
        Pres::Slice16 => {
            let big = format!("x€{s}é😀");
            let start = "x€".len();
            KString::from(big).with_bounds(start..start + s.len()).expect("slice16")
        }
        Pres::SliceLarge => {
            let mut big = "y".repeat(70_000);
            big.push_str(s);
            big.push_str("€z");
            KString::from(big).with_bounds(70_000..70_000 + s.len()).expect("slice large")
        }
        Pres::Straddle => {
            // the slice begins below and ends above the 16-bit limit
            let pad = 65_536usize.saturating_sub(s.len() / 2);
            let mut big = "y".repeat(pad);
            big.push_str(s);
            big.push_str("€z");
            KString::from(big).with_bounds(pad..pad + s.len()).expect("straddle")
        }
    }
}

fn from_kvalue(koto: &mut Koto, v: KValue) -> R {
    match v {
        KValue::Str(s) => {
            // the bytes are checked explicitly: a malformed string must never be produced
            let bytes = s.as_str().as_bytes().to_vec();
            match String::from_utf8(bytes) {
                Ok(s) => R::S(s),
                Err(e) => R::Malformed(e.into_bytes()),
            }
        }
        KValue::Null => R::Null,
        KValue::Bool(b) => R::B(b),
        KValue::Number(n) => match n {
            KNumber::I64(i) => R::I(i),
            KNumber::F64(f) => R::F(f.to_bits()),
        },
        KValue::Range(r) => match (r.start(), r.end()) {
            (Some(a), Some((b, incl))) => R::Rg(a, if incl { b + 1 } else { b }),
            _ => R::Other("unbounded range".into()),
        },
        KValue::List(l) => {
            let items: Vec<KValue> = l.data().iter().cloned().collect();
            R::L(items.into_iter().map(|x| from_kvalue(koto, x)).collect())
        }
        KValue::Tuple(t) => {
            let items: Vec<KValue> = t.iter().cloned().collect();
            R::L(items.into_iter().map(|x| from_kvalue(koto, x)).collect())
        }
        v @ KValue::Iterator(_) => match koto.verif_vm().make_iterator(v) {
            Ok(it) => {
                let mut out = vec![];
                for (i, o) in it.enumerate() {
                    if i > 10_000 {
                        out.push(R::Other("endless".into()));
                        break;
                    }
                    match o {
                        KIteratorOutput::Value(x) => out.push(from_kvalue(koto, x)),
                        KIteratorOutput::ValuePair(a, b) => {
                            let a = from_kvalue(koto, a);
                            let b = from_kvalue(koto, b);
                            out.push(R::L(vec![a, b]));
                        }
                        KIteratorOutput::Error(_) => {
                            out.push(R::Err);
                            break;
                        }
                    }
                }
                R::L(out)
            }
            Err(_) => R::Err,
        },
        other => R::Other(other.type_as_string().to_string()),
    }
}

struct Ctx {
    inst: Instance,
    funcs: BTreeMap<String, KValue>,
    helpers: BTreeMap<String, KValue>,
    fmt_fns: Vec<KValue>,
    numfmt_fns: Vec<KValue>,
}

fn str_format_specs() -> Vec<(Option<char>, Option<char>, Option<usize>, Option<usize>)> {
    let mut v = vec![];
    let fa: Vec<(Option<char>, Option<char>)> = {
        let mut x = vec![(None, None)];
        for a in ['<', '^', '>'] {
            x.push((None, Some(a)));
            for f in ['*', '€', 'é'] {
                x.push((Some(f), Some(a)));
            }
        }
        x
    };
    for (f, a) in fa {
        for w in [None, Some(0), Some(1), Some(3), Some(6)] {
            for p in [None, Some(0), Some(1), Some(2), Some(4)] {
                v.push((f, a, w, p));
            }
        }
    }
    v
}

fn spec_text(f: Option<char>, a: Option<char>, zero: bool, w: Option<usize>, p: Option<usize>, repr: Option<char>) -> String {
    let mut s = String::new();
    if let Some(f) = f {
        s.push(f);
    }
    if let Some(a) = a {
        s.push(a);
    }
    if zero {
        s.push('0');
    }
    if let Some(w) = w {
        s.push_str(&w.to_string());
    }
    if let Some(p) = p {
        s.push_str(&format!(".{p}"));
    }
    if let Some(r) = repr {
        s.push(r);
    }
    s
}

#[derive(Clone, Copy, Debug)]
struct NumSpec {
    fill: Option<char>,
    align: Option<char>,
    zero: bool,
    width: Option<usize>,
    prec: Option<usize>,
    repr: Option<char>,
}

fn num_format_specs() -> Vec<NumSpec> {
    let mut v = vec![];
    for (fill, align) in [(None, None), (None, Some('<')), (None, Some('^')), (Some('*'), Some('>')), (Some('€'), Some('^'))] {
        for zero in [false, true] {
            if zero && (fill.is_some() || align.is_some()) {
                continue;
            }
            for width in [None, Some(1), Some(6), Some(9)] {
                if zero && width.is_none() {
                    continue;
                }
                for prec in [None, Some(0), Some(2)] {
                    for repr in [None, Some('b'), Some('o'), Some('x'), Some('X'), Some('e'), Some('E'), Some('?')] {
                        if prec.is_some() && matches!(repr, Some('b' | 'o' | 'x' | 'X')) {
                            continue;
                        }
                        v.push(NumSpec { fill, align, zero, width, prec, repr });
                    }
                }
            }
        }
    }
    v
}

fn make_ctx() -> Ctx {
    let mut inst = Instance::new(RunCfg::default());
    let mut helper = String::from(
        "export idx = |s, i| s[i]\nexport sl = |s, a, b| s[a..b]\nexport sli = |s, a, b| s[a..=b]\nexport sfrom = |s, a| s[a..]\nexport sto = |s, b| s[..b]\nexport stoi = |s, b| s[..=b]\nexport pred = |c| c == ' ' or c == ',' or c == '\\r\\n' or c == '\\n'\nexport joined = |s| s.chars().to_string()\nexport interp = |s| '{s}'\nexport rest0 = |f, s, k|\n  it = f s\n  for i in 0..k\n    it.next()\n  it.to_tuple()\nexport rest1 = |f, s, p, k|\n  it = f s, p\n  for i in 0..k\n    it.next()\n  it.to_tuple()\n",
    );
    helper.push_str("export fmts = (\n");
    for (f, a, w, p) in str_format_specs() {
        let spec = spec_text(f, a, false, w, p, None);
        if spec.is_empty() {
            helper.push_str("  (|x| '{x}'),\n");
        } else {
            helper.push_str(&format!("  (|x| '{{x:{spec}}}'),\n"));
        }
    }
    helper.push_str(")\nexport numfmts = (\n");
    for ns in num_format_specs() {
        let spec = spec_text(ns.fill, ns.align, ns.zero, ns.width, ns.prec, ns.repr);
        if spec.is_empty() {
            helper.push_str("  (|x| '{x}'),\n");
        } else {
            helper.push_str(&format!("  (|x| '{{x:{spec}}}'),\n"));
        }
    }
    helper.push_str(")\n");
    let obs = inst.run(&helper);
    if !matches!(obs.outcome, Outcome::Ok(_)) {
        panic!("strmc helper script failed: {:?} {:?}", obs.outcome, obs.error_text);
    }
    let mut funcs = BTreeMap::new();
    if let Some(KValue::Map(m)) = inst.koto.prelude().get("string") {
        for (k, v) in m.data().iter() {
            if let KValue::Str(name) = k.value() {
                funcs.insert(name.to_string(), v.clone());
            }
        }
    }
    let mut helpers = BTreeMap::new();
    let mut fmt_fns = vec![];
    let mut numfmt_fns = vec![];
    for (k, v) in inst.koto.exports().data().iter() {
        if let KValue::Str(name) = k.value() {
            match (name.as_str(), v) {
                ("fmts", KValue::Tuple(t)) => fmt_fns = t.iter().cloned().collect(),
                ("numfmts", KValue::Tuple(t)) => numfmt_fns = t.iter().cloned().collect(),
                _ => {
                    helpers.insert(name.to_string(), v.clone());
                }
            }
        }
    }
    assert_eq!(fmt_fns.len(), str_format_specs().len());
    assert_eq!(numfmt_fns.len(), num_format_specs().len());
    Ctx { inst, funcs, helpers, fmt_fns, numfmt_fns }
}

impl Ctx {
    fn call(&mut self, f: KValue, args: &[KValue]) -> R {
        let koto = &mut self.inst.koto;
        let r = std::panic::catch_unwind(std::panic::AssertUnwindSafe(|| match koto.call_function(f, args) {
            Ok(v) => from_kvalue(koto, v),
            Err(_) => R::Err,
        }));
        match r {
            Ok(r) => r,
            Err(_) => {
                let msg = take_last_panic();
                // a panicked runtime is not reused
                *self = make_ctx();
                R::Panic(msg)
            }
        }
    }
    fn lib(&mut self, name: &str, args: &[KValue]) -> R {
        let f = self.funcs.get(name).cloned().unwrap_or(KValue::Null);
        self.call(f, args)
    }
    fn helper(&mut self, name: &str, args: &[KValue]) -> R {
        let f = self.helpers.get(name).cloned().unwrap_or(KValue::Null);
        self.call(f, args)
    }
}

// ------------------------------------------------------------------------------------------
// oracle helpers

fn ks(s: &str) -> KValue {
    KValue::Str(KString::from(s.to_string()))
}

fn num(i: i64) -> KValue {
    KValue::Number(i.into())
}

fn rs(s: &str) -> R {
    R::S(s.to_string())
}

fn rlist<'a>(it: impl Iterator<Item = &'a str>) -> R {
    R::L(it.map(rs).collect())
}

/// byte range slicing: clamp to the string, then valid iff both ends are character boundaries
fn slice_oracle(s: &str, a: i64, b: i64) -> R {
    let len = s.len() as i64;
    let start = a.clamp(0, len);
    let end = b.clamp(start, len);
    let (start, end) = (start as usize, end as usize);
    if s.is_char_boundary(start) && s.is_char_boundary(end) { rs(&s[start..end]) } else { R::Err }
}

fn index_oracle(s: &str, i: i64) -> R {
    if i < 0 || i >= s.len() as i64 {
        return R::Err;
    }
    let i = i as usize;
    if s.is_char_boundary(i) && s.is_char_boundary(i + 1) { rs(&s[i..i + 1]) } else { R::Err }
}

fn pad_oracle(core: &str, fill: Option<char>, align: char, width: Option<usize>) -> String {
    let n = core.graphemes(true).count();
    let w = width.unwrap_or(0);
    if w <= n {
        return core.to_string();
    }
    let pad = w - n;
    let f = fill.unwrap_or(' ').to_string();
    match align {
        '<' => format!("{core}{}", f.repeat(pad)),
        '>' => format!("{}{core}", f.repeat(pad)),
        _ => {
            let left = pad / 2;
            format!("{}{core}{}", f.repeat(left), f.repeat(pad - left))
        }
    }
}

fn str_format_oracle(s: &str, f: Option<char>, a: Option<char>, w: Option<usize>, p: Option<usize>) -> String {
    let core: String = match p {
        Some(p) => s.graphemes(true).take(p).collect(),
        None => s.to_string(),
    };
    pad_oracle(&core, f, a.unwrap_or('<'), w)
}

#[derive(Clone, Copy, Debug)]
enum Num {
    I(i64),
    F(f64),
}

/// None: the combination is left undefined by the guide (not judged)
fn num_format_oracle(v: Num, ns: &NumSpec) -> Option<String> {
    let core: String = match (v, ns.repr) {
        (Num::I(i), None) => match ns.prec {
            None => i.to_string(),
            Some(_) => return None,
        },
        (Num::F(f), None) => match ns.prec {
            None => {
                // koto renders integral floats with a trailing .0
                if f.fract() == 0.0 && f.abs() < 1e15 { format!("{f:.1}") } else { format!("{f}") }
            }
            Some(p) => format!("{f:.p$}"),
        },
        (Num::I(i), Some(r @ ('b' | 'o' | 'x' | 'X'))) => {
            if i < 0 {
                return None;
            }
            match r {
                'b' => format!("{i:b}"),
                'o' => format!("{i:o}"),
                'x' => format!("{i:x}"),
                _ => format!("{i:X}"),
            }
        }
        (Num::F(_), Some('b' | 'o' | 'x' | 'X')) => return None,
        (Num::I(i), Some(r @ ('e' | 'E'))) => match (ns.prec, r) {
            (None, 'e') => format!("{i:e}"),
            (None, _) => format!("{i:E}"),
            // precision of an integer in exponent form: not stated
            _ => return None,
        },
        (Num::F(f), Some(r @ ('e' | 'E'))) => match (ns.prec, r) {
            (None, 'e') => format!("{f:e}"),
            (None, _) => format!("{f:E}"),
            (Some(p), 'e') => format!("{f:.p$e}"),
            (Some(p), _) => format!("{f:.p$E}"),
        },
        (Num::I(i), Some('?')) => match ns.prec {
            None => i.to_string(),
            Some(_) => return None,
        },
        (Num::F(f), Some('?')) => match ns.prec {
            None => {
                if f.fract() == 0.0 && f.abs() < 1e15 { format!("{f:.1}") } else { format!("{f}") }
            }
            Some(p) => format!("{f:.p$}"),
        },
        _ => return None,
    };
    if ns.zero {
        // sign-aware zero padding
        let w = ns.width.unwrap_or(0);
        let (sign, digits) = match core.strip_prefix('-') {
            Some(d) => ("-", d.to_string()),
            None => ("", core.clone()),
        };
        let n = sign.len() + digits.chars().count();
        return Some(if w > n { format!("{sign}{}{digits}", "0".repeat(w - n)) } else { core });
    }
    Some(pad_oracle(&core, ns.fill, ns.align.unwrap_or('>'), ns.width))
}

fn lines_oracle(s: &str) -> R {
    rlist(s.lines())
}

fn split_pred_oracle(s: &str) -> R {
    let is_sep = |g: &str| g == " " || g == "," || g == "\r\n" || g == "\n";
    let mut pieces = vec![];
    let mut cur_start = 0;
    for (i, g) in s.grapheme_indices(true) {
        if is_sep(g) {
            pieces.push(s[cur_start..i].to_string());
            cur_start = i + g.len();
        }
    }
    pieces.push(s[cur_start..].to_string());
    R::L(pieces.into_iter().map(R::S).collect())
}

fn to_number_oracle(s: &str) -> R {
    let int = if let Some(h) = s.strip_prefix("0x") {
        i64::from_str_radix(h, 16).ok()
    } else if let Some(o) = s.strip_prefix("0o") {
        i64::from_str_radix(o, 8).ok()
    } else if let Some(b) = s.strip_prefix("0b") {
        i64::from_str_radix(b, 2).ok()
    } else {
        s.parse::<i64>().ok()
    };
    match int {
        Some(i) => R::I(i),
        None => match s.parse::<f64>() {
            Ok(f) => R::F(f.to_bits()),
            Err(_) => R::Null,
        },
    }
}

// ------------------------------------------------------------------------------------------

struct Fail {
    key: Option<String>,
    what: String,
    replay: String,
}

struct Tally {
    evals: u64,
    fails: Vec<Fail>,
    per_op: BTreeMap<String, u64>,
    fail_sigs: BTreeMap<String, u64>,
    outcomes: BTreeSet<u64>,
}

impl Tally {
    fn check(&mut self, op: &str, s: &str, pres: Pres, args: &str, got: R, want: R) {
        self.evals += 1;
        *self.per_op.entry(op.to_string()).or_insert(0) += 1;
        self.outcomes.insert(hash_of(&format!("{op}{want:?}")));
        if got == want {
            return;
        }
        let class = match &got {
            R::Panic(_) => "panic",
            R::Malformed(_) => "malformed-text",
            _ => "wrong-result",
        };
        let sig = format!("{op}|{class}");
        let n = self.fail_sigs.entry(sig).or_insert(0);
        *n += 1;
        if *n <= 40 {
            let what = format!("{op}({args}) on {s:?} [{pres:?}]: {class}: koto {} where the definition gives {}", short(&got), short(&want));
            let replay = format!("op: {op}\nargs: {args}\nstring: {s:?}\nbytes: {:?}\npresentation: {pres:?}\nkoto: {got:?}\nexpected: {want:?}\n", s.as_bytes());
            self.fails.push(Fail { key: classify(op, s, &got, &want), what, replay });
        }
    }
}

fn classify(_op: &str, _s: &str, _got: &R, _want: &R) -> Option<String> {
    None
}

fn patterns_for(s: &str) -> Vec<String> {
    let mut p: Vec<String> = [",", " ", "a", "\n", "\r\n", "é", "\u{301}", "e", "aa", "a,", "€", "😀", "ß", "aBa", "\n\n"].iter().map(|x| x.to_string()).collect();
    let g: Vec<&str> = s.graphemes(true).collect();
    if let Some(f) = g.first() {
        p.push(f.to_string());
    }
    if let Some(l) = g.last() {
        p.push(l.to_string());
    }
    if g.len() >= 2 {
        p.push(g[..2].concat());
        p.push(g[g.len() - 2..].concat());
    }
    // a pattern that starts inside a multi-byte character's neighbourhood: first char of s
    if let Some(c) = s.chars().next() {
        p.push(c.to_string());
    }
    p.sort();
    p.dedup();
    p
}

fn check_string(cx: &mut Ctx, t: &mut Tally, s: &str, pres: Pres, with_formats: bool) {
    let k = || KValue::Str(present(s, pres));
    let len = s.len() as i64;
    if std::env::var("KV_TRACE").is_ok() {
        let _ = std::fs::write(format!("/dev/shm/strmc-last-{:?}", std::thread::current().id()), format!("check_string {s:?} {pres:?}"));
    }

    // the presented value is the string itself
    let got = cx.helper("interp", &[k()]);
    t.check("interpolate", s, pres, "", got, rs(s));

    // bytes / chars / char_indices
    let got = cx.lib("bytes", &[k()]);
    t.check("bytes", s, pres, "", got, R::L(s.bytes().map(|b| R::I(b as i64)).collect()));
    let got = cx.lib("chars", &[k()]);
    t.check("chars", s, pres, "", got, rlist(s.graphemes(true)));
    let got = cx.helper("joined", &[k()]);
    t.check("chars-joined", s, pres, "", got, rs(s));
    let got = cx.lib("char_indices", &[k()]);
    t.check("char_indices", s, pres, "", got, R::L(s.grapheme_indices(true).map(|(i, g)| R::Rg(i as i64, (i + g.len()) as i64)).collect()));
    let got = cx.lib("is_empty", &[k()]);
    t.check("is_empty", s, pres, "", got, R::B(s.is_empty()));

    // indexing and slicing: every argument in and just beyond bounds
    for i in -1..=len + 1 {
        let got = cx.helper("idx", &[k(), num(i)]);
        t.check("index", s, pres, &format!("{i}"), got, index_oracle(s, i));
        let got = cx.helper("sfrom", &[k(), num(i)]);
        t.check("slice-from", s, pres, &format!("{i}.."), got, slice_oracle(s, i, len));
        let got = cx.helper("sto", &[k(), num(i)]);
        t.check("slice-to", s, pres, &format!("..{i}"), got, slice_oracle(s, 0, i));
        let got = cx.helper("stoi", &[k(), num(i)]);
        t.check("slice-to-inclusive", s, pres, &format!("..={i}"), got, slice_oracle(s, 0, i + 1));
        for j in -1..=len + 1 {
            let got = cx.helper("sl", &[k(), num(i), num(j)]);
            t.check("slice", s, pres, &format!("{i}..{j}"), got, slice_oracle(s, i, j));
            let got = cx.helper("sli", &[k(), num(i), num(j)]);
            t.check("slice-inclusive", s, pres, &format!("{i}..={j}"), got, slice_oracle(s, i, j + 1));
        }
    }

    // lines, whitespace trimming, case mapping, repeat, to_number
    let got = cx.lib("lines", &[k()]);
    t.check("lines", s, pres, "", got, lines_oracle(s));
    let got = cx.lib("trim", &[k()]);
    t.check("trim", s, pres, "", got, rs(s.trim()));
    let got = cx.lib("trim_start", &[k()]);
    t.check("trim_start", s, pres, "", got, rs(s.trim_start()));
    let got = cx.lib("trim_end", &[k()]);
    t.check("trim_end", s, pres, "", got, rs(s.trim_end()));
    let got = cx.lib("to_uppercase", &[k()]);
    t.check("to_uppercase", s, pres, "", got, R::S(s.to_uppercase()));
    let got = cx.lib("to_lowercase", &[k()]);
    t.check("to_lowercase", s, pres, "", got, R::S(s.to_lowercase()));
    for n in [0i64, 1, 3] {
        let got = cx.lib("repeat", &[k(), num(n)]);
        t.check("repeat", s, pres, &format!("{n}"), got, R::S(s.repeat(n as usize)));
    }
    let got = cx.lib("repeat", &[k(), num(-1)]);
    t.check("repeat", s, pres, "-1", got, R::Err);
    let got = cx.lib("to_number", &[k()]);
    t.check("to_number", s, pres, "", got, to_number_oracle(s));
    let got = cx.lib("split", &[k(), cx.helpers["pred"].clone()]);
    t.check("split-with-predicate", s, pres, "separator graphemes", got, split_pred_oracle(s));
    // from_bytes(bytes) round trip
    let bytes = KValue::Tuple(KTuple::from(s.bytes().map(|b| num(b as i64)).collect::<Vec<_>>()));
    let got = cx.lib("from_bytes", &[bytes]);
    t.check("from_bytes(bytes)", s, pres, "", got, rs(s));

    // string iterators used after partial consumption: k x next(), then collect the rest
    {
        let sep = patterns_for(s).into_iter().next().unwrap_or_else(|| ",".into());
        let all: Vec<(&str, Vec<KValue>, Vec<R>)> = vec![
            ("lines", vec![], s.lines().map(rs).collect()),
            ("chars", vec![], s.graphemes(true).map(rs).collect()),
            ("bytes", vec![], s.bytes().map(|b| R::I(b as i64)).collect()),
            ("char_indices", vec![], s.grapheme_indices(true).map(|(i, g)| R::Rg(i as i64, (i + g.len()) as i64)).collect()),
            ("split", vec![ks(&sep)], s.split(sep.as_str()).map(rs).collect()),
            ("split", vec![cx.helpers["pred"].clone()], match split_pred_oracle(s) {
                R::L(v) => v,
                _ => vec![],
            }),
        ];
        for (name, extra, full) in all {
            for kk in 0..=full.len() + 1 {
                let mut a = vec![k()];
                a.extend(extra.iter().cloned());
                a.push(num(kk as i64));
                let f = cx.funcs.get(name).cloned().unwrap_or(KValue::Null);
                let mut call_args = vec![f];
                call_args.extend(a);
                let got = cx.helper(if extra.is_empty() { "rest0" } else { "rest1" }, &call_args);
                let want = R::L(full.iter().skip(kk).cloned().collect());
                t.check(&format!("{name}-rest-after-k"), s, pres, &format!("k={kk}{}", if extra.is_empty() { "" } else { " sep" }), got, want);
            }
        }
    }

    // pattern operations
    for p in patterns_for(s) {
        let pk = ks(&p);
        let got = cx.lib("split", &[k(), pk.clone()]);
        let pieces: Vec<&str> = s.split(p.as_str()).collect();
        t.check("split", s, pres, &format!("{p:?}"), got.clone(), rlist(pieces.iter().copied()));
        if let R::L(items) = &got {
            // the law, checked on what koto returned: the pieces re-joined with the pattern
            let joined = items.iter().map(|x| if let R::S(x) = x { x.clone() } else { "\u{0}".into() }).collect::<Vec<_>>().join(&p);
            t.check("split-rejoined", s, pres, &format!("{p:?}"), R::S(joined), rs(s));
        }
        let got = cx.lib("contains", &[k(), pk.clone()]);
        t.check("contains", s, pres, &format!("{p:?}"), got, R::B(s.contains(p.as_str())));
        let got = cx.lib("starts_with", &[k(), pk.clone()]);
        t.check("starts_with", s, pres, &format!("{p:?}"), got, R::B(s.starts_with(p.as_str())));
        let got = cx.lib("ends_with", &[k(), pk.clone()]);
        t.check("ends_with", s, pres, &format!("{p:?}"), got, R::B(s.ends_with(p.as_str())));
        let got = cx.lib("strip_prefix", &[k(), pk.clone()]);
        t.check("strip_prefix", s, pres, &format!("{p:?}"), got, s.strip_prefix(p.as_str()).map(rs).unwrap_or(R::Null));
        let got = cx.lib("strip_suffix", &[k(), pk.clone()]);
        t.check("strip_suffix", s, pres, &format!("{p:?}"), got, s.strip_suffix(p.as_str()).map(rs).unwrap_or(R::Null));
        let got = cx.lib("trim_start", &[k(), pk.clone()]);
        t.check("trim_start(pattern)", s, pres, &format!("{p:?}"), got, rs(s.trim_start_matches(p.as_str())));
        let got = cx.lib("trim_end", &[k(), pk.clone()]);
        t.check("trim_end(pattern)", s, pres, &format!("{p:?}"), got, rs(s.trim_end_matches(p.as_str())));
        // both ends: the leading run is removed first, then the trailing run of what is left
        let got = cx.lib("trim", &[k(), pk.clone()]);
        t.check("trim(pattern)", s, pres, &format!("{p:?}"), got, rs(s.trim_start_matches(p.as_str()).trim_end_matches(p.as_str())));
        for rep in ["", "x", "€€"] {
            let got = cx.lib("replace", &[k(), pk.clone(), ks(rep)]);
            t.check("replace", s, pres, &format!("{p:?} -> {rep:?}"), got, R::S(s.replace(p.as_str(), rep)));
        }
    }

    // format options
    if with_formats {
        for (i, (f, a, w, p)) in str_format_specs().into_iter().enumerate() {
            let func = cx.fmt_fns[i].clone();
            let got = cx.call(func, &[k()]);
            let want = str_format_oracle(s, f, a, w, p);
            let spec = spec_text(f, a, false, w, p, None);
            if let (R::S(g), Some(w)) = (&got, w)
                && want.graphemes(true).count() >= w
            {
                // the law: a formatted field has at least the requested width (in characters);
                // not stated where padding merges with a leading combining mark of the value
                let chars = g.graphemes(true).count();
                t.check("format-min-width", s, pres, &spec, R::B(chars >= w), R::B(true));
            }
            t.check("format", s, pres, &spec, got, R::S(want));
        }
    }
}

fn check_numbers(cx: &mut Ctx, t: &mut Tally) {
    let values: Vec<(Num, KValue)> = vec![
        (Num::I(0), num(0)),
        (Num::I(7), num(7)),
        (Num::I(-7), num(-7)),
        (Num::I(60), num(60)),
        (Num::I(255), num(255)),
        (Num::I(60000), num(60000)),
        (Num::I(i64::MAX), num(i64::MAX)),
        (Num::F(1.5), KValue::Number(1.5.into())),
        (Num::F(-0.25), KValue::Number((-0.25).into())),
        (Num::F(100.0), KValue::Number(100.0.into())),
        (Num::F(1.0 / 3.0), KValue::Number((1.0 / 3.0).into())),
        (Num::F(2.675), KValue::Number(2.675.into())),
        (Num::F(-0.0), KValue::Number((-0.0).into())),
    ];
    for (i, ns) in num_format_specs().iter().enumerate() {
        for (v, kv) in &values {
            let Some(want) = num_format_oracle(*v, ns) else {
                continue;
            };
            let func = cx.numfmt_fns[i].clone();
            let got = cx.call(func, &[kv.clone()]);
            let spec = spec_text(ns.fill, ns.align, ns.zero, ns.width, ns.prec, ns.repr);
            if let (R::S(g), Some(w)) = (&got, ns.width) {
                t.check("number-format-min-width", &format!("{v:?}"), Pres::Full, &spec, R::B(g.graphemes(true).count() >= w), R::B(true));
            }
            t.check("number-format", &format!("{v:?}"), Pres::Full, &spec, got, R::S(want));
        }
    }
}

fn check_literals(cx: &mut Ctx, t: &mut Tally) {
    let mut lit = |cx: &mut Ctx, t: &mut Tally, body: &str, want: Option<String>| {
        let src = format!("'{body}'");
        let koto = &mut cx.inst.koto;
        let got = match std::panic::catch_unwind(std::panic::AssertUnwindSafe(|| koto.compile_and_run(src.as_str()))) {
            Ok(Ok(v)) => from_kvalue(koto, v),
            Ok(Err(_)) => R::Err,
            Err(_) => R::Panic(take_last_panic()),
        };
        match want {
            Some(w) => t.check("literal-escape", body, Pres::Full, "", got, R::S(w)),
            None => {
                // only well-formedness is defined: an error or valid text
                let ok = !matches!(got, R::Malformed(_) | R::Panic(_));
                t.check("literal-escape-wellformed", body, Pres::Full, "", R::B(ok), R::B(true));
            }
        }
    };
    for b in 0u32..=0xff {
        let body = format!("\\x{b:02x}");
        let want = if b < 0x80 { Some((b as u8 as char).to_string()) } else { None };
        lit(cx, t, &body, want.clone());
        lit(cx, t, &format!("a{body}€"), want.map(|w| format!("a{w}€")));
    }
    for cp in [0u32, 0x41, 0x7f, 0x80, 0x7ff, 0x800, 0xfffd, 0xffff, 0x10000, 0x1f44b, 0x10ffff] {
        for digits in [0usize, 4, 6] {
            let body = if digits == 0 { format!("\\u{{{cp:x}}}") } else { format!("\\u{{{cp:0digits$x}}}") };
            if digits != 0 && format!("{cp:x}").len() > digits {
                continue;
            }
            lit(cx, t, &body, char::from_u32(cp).map(|c| c.to_string()));
        }
    }
    // line continuation: a backslash at the end of a line continues the string on the next line,
    // skipping that line's leading whitespace (and nothing else: a following blank line stays)
    {
        let alpha = [" ", "\t", "\n", "c", "\\\n"];
        let mut tails: Vec<String> = vec![String::new()];
        let mut layer = vec![String::new()];
        for _ in 0..4 {
            let mut next = vec![];
            for p in &layer {
                for a in alpha {
                    next.push(format!("{p}{a}"));
                }
            }
            tails.extend(next.iter().cloned());
            layer = next;
        }
        fn expected(text: &str) -> String {
            // text starts directly after a continuation's line break
            let rest = text.trim_start_matches(|c: char| c.is_whitespace() && c != '\n');
            match rest.find("\\\n") {
                Some(i) => format!("{}{}", &rest[..i], expected(&rest[i + 2..])),
                None => rest.to_string(),
            }
        }
        for tail in &tails {
            let body = format!("ab\\\n{tail}d");
            let want = format!("ab{}d", expected(tail));
            lit(cx, t, &body, Some(want));
        }
        // the continuation itself with a Windows line ending
        lit(cx, t, "ab\\\r\n   cd", Some("abcd".to_string()));
    }
    // not scalar values / malformed escapes: never malformed text
    for body in ["\\u{d800}", "\\u{dfff}", "\\u{110000}", "\\u{ffffff}", "\\u{1234567}", "\\u{}", "\\u{g}", "\\x4", "\\xg1", "\\u41"] {
        lit(cx, t, body, None);
    }
    for (body, want) in [("\\n", "\n"), ("\\r", "\r"), ("\\t", "\t"), ("\\'", "'"), ("\\\"", "\""), ("\\\\", "\\"), ("\\{", "{"), ("a\\\n   b", "ab")] {
        lit(cx, t, body, Some(want.to_string()));
    }
}

fn check_from_bytes(cx: &mut Ctx, t: &mut Tally, max_len: usize) {
    let alphabet: [u8; 12] = [0x61, 0x00, 0x7f, 0x80, 0xbf, 0xc3, 0xa9, 0xe2, 0x82, 0xac, 0xf0, 0xff];
    let mut seqs: Vec<Vec<u8>> = vec![vec![]];
    let mut cur: Vec<Vec<u8>> = vec![vec![]];
    for _ in 0..max_len {
        let mut next = vec![];
        for s in &cur {
            for b in alphabet {
                let mut n = s.clone();
                n.push(b);
                next.push(n);
            }
        }
        seqs.extend(next.iter().cloned());
        cur = next;
    }
    for seq in seqs {
        let arg = KValue::Tuple(KTuple::from(seq.iter().map(|b| num(*b as i64)).collect::<Vec<_>>()));
        let got = cx.lib("from_bytes", &[arg]);
        let want = match String::from_utf8(seq.clone()) {
            Ok(s) => R::S(s),
            Err(_) => R::Err,
        };
        t.check("from_bytes", &format!("{seq:x?}"), Pres::Full, "", got, want);
    }
    for bad in [-1i64, 256, 1000] {
        let got = cx.lib("from_bytes", &[KValue::Tuple(KTuple::from(vec![num(bad)]))]);
        t.check("from_bytes", &format!("[{bad}]"), Pres::Full, "", got, R::Err);
    }
}

fn check_to_number(cx: &mut Ctx, t: &mut Tally, max_len: usize) {
    let atoms = ["1", "0", "9", ".", "-", "+", "x", "b", "o", "e", " ", "_", "f", "7"];
    for s in strings(max_len, &atoms) {
        let got = cx.lib("to_number", &[ks(&s)]);
        t.check("to_number", &s, Pres::Full, "", got, to_number_oracle(&s));
        for base in [2i64, 8, 10, 16, 36] {
            let got = cx.lib("to_number", &[ks(&s), num(base)]);
            let want = match i64::from_str_radix(&s, base as u32) {
                Ok(i) => R::I(i),
                Err(_) => R::Null,
            };
            t.check("to_number(base)", &s, Pres::Full, &format!("{base}"), got, want);
        }
    }
    for base in [-1i64, 0, 1, 37, 100] {
        let got = cx.lib("to_number", &[ks("10"), num(base)]);
        t.check("to_number(base)", "10", Pres::Full, &format!("{base}"), got, R::Err);
    }
}

/// API level: KString::with_bounds must refuse bounds outside the string (or inside a character)
fn check_with_bounds(t: &mut Tally, s: &str) {
    for pres in [Pres::Full, Pres::Slice16, Pres::SliceLarge] {
        let k = present(s, pres);
        let len = s.len();
        for a in 0..=len + 2 {
            for b in a..=len + 4 {
                if std::env::var("KV_TRACE").is_ok() {
                    let _ = std::fs::write(format!("/dev/shm/strmc-last-{:?}", std::thread::current().id()), format!("with_bounds {s:?} {pres:?} {a}..{b}"));
                }
                let got = match k.with_bounds(a..b) {
                    Some(r) => match std::str::from_utf8(r.as_str().as_bytes()) {
                        Ok(x) => R::S(x.to_string()),
                        Err(_) => R::Malformed(r.as_str().as_bytes().to_vec()),
                    },
                    None => R::Null,
                };
                let want = if b <= len && s.is_char_boundary(a) && s.is_char_boundary(b) { rs(&s[a..b]) } else { R::Null };
                t.check("KString::with_bounds", s, pres, &format!("{a}..{b}"), got, want);
            }
        }
    }
}

pub fn run(args: &Args) -> i32 {
    install_quiet_panic_hook();
    let tier = args.tier;
    if let Some(path) = &args.replay {
        println!("{}", std::fs::read_to_string(path).unwrap_or_default());
        return 0;
    }
    let mut report = Report::new(args, "exploration");
    let max_atoms = tier.pick(4usize, 5usize);
    let all = strings(max_atoms, &ATOMS);
    let fmt_atoms = tier.pick(2usize, 3usize);
    let nshards = threads() * 8;
    let started = std::time::Instant::now();
    let wall_cap = tier.pick(55.0, 2400.0);
    let results = par_shards_big_stack(nshards, 32 << 20, |shard| {
        let mut cx = make_ctx();
        let mut t = Tally { evals: 0, fails: vec![], per_op: BTreeMap::new(), fail_sigs: BTreeMap::new(), outcomes: BTreeSet::new() };
        let mut capped = false;
        let mut strings_done = 0u64;
        for (i, s) in all.iter().enumerate() {
            if i % nshards != shard {
                continue;
            }
            if started.elapsed().as_secs_f64() > wall_cap {
                capped = true;
                break;
            }
            let n_atoms = s.chars().filter(|c| *c != '\u{0}').count();
            let with_formats = s.graphemes(true).count() <= fmt_atoms + 1 && n_atoms <= fmt_atoms;
            check_string(&mut cx, &mut t, s, Pres::Full, with_formats);
            check_string(&mut cx, &mut t, s, Pres::Slice16, false);
            if n_atoms <= 2 || (tier == Tier::Thorough && n_atoms <= 3) {
                check_string(&mut cx, &mut t, s, Pres::SliceLarge, false);
                check_string(&mut cx, &mut t, s, Pres::Straddle, false);
                check_with_bounds(&mut t, s);
            }
            strings_done += 1;
        }
        if shard == 0 {
            check_numbers(&mut cx, &mut t);
            check_literals(&mut cx, &mut t);
        }
        if shard == 1 % nshards {
            check_from_bytes(&mut cx, &mut t, tier.pick(3, 4));
        }
        if shard == 2 % nshards {
            check_to_number(&mut cx, &mut t, tier.pick(3, 4));
        }
        (t, capped, strings_done)
    });
    let mut evals = 0;
    let mut per_op: BTreeMap<String, u64> = BTreeMap::new();
    let mut outcomes = BTreeSet::new();
    let mut capped = false;
    let mut strings_done = 0;
    for (t, c, sd) in results {
        evals += t.evals;
        capped |= c;
        strings_done += sd;
        outcomes.extend(t.outcomes);
        for (k, n) in t.per_op {
            *per_op.entry(k).or_insert(0) += n;
        }
        for f in t.fails {
            report.fail(f.key.as_deref(), f.what, f.replay);
        }
    }
    report.cov("evaluations", evals);
    report.cov("distinct_nontrivial", outcomes.len() as u64);
    report.cov("strings", strings_done);
    report.cov("string_alphabet", json!(ATOMS.iter().map(|a| a.escape_unicode().to_string()).collect::<Vec<_>>()));
    report.cov("max_atoms_per_string", max_atoms as u64);
    report.cov("evaluations_per_operation", json!(per_op));
    report.cov("string_format_specs", str_format_specs().len() as u64);
    report.cov("number_format_specs", num_format_specs().len() as u64);
    report.cov("samples", json!(["'a\\u{301}€'[1..3] => error (3 is inside €)", "'a,😀'.split(',') => ('a', '😀')", "'{'\\r\\n':*^4}' => '*\\r\\n**'"]));
    report.cov("exhaustive", !capped);
    if capped {
        report.cov("cap_hit", format!("wall cap {wall_cap} s"));
    }
    report.cov("rule", "every string over the alphabet up to the length bound, presented as a fresh string, as a slice with 16-bit bounds and (shorter strings) as slices with large and 16-bit-straddling bounds; per string: bytes, chars, char_indices, is_empty, index and all six range-slice forms for every argument in -1..=len+1, lines, trim variants with and without patterns, strip_prefix/suffix, split by pattern and by predicate, replace, contains/starts_with/ends_with, case mapping, repeat, to_number, from_bytes round trip, KString::with_bounds at API level, and (short strings) 325 fill/align/width/precision combinations; plus number formatting (radix, exponent, zero padding, width, precision), every \\xNN and boundary \\u{...} escape, from_bytes over all byte sequences up to the bound from a 12-byte alphabet, to_number over all strings up to the bound from a numeric alphabet x bases. Oracle: Rust std str + unicode-segmentation; every returned string's bytes are validated as UTF-8; laws (chars joined, split re-joined, minimum width) are evaluated on what koto returned");
    report.finish()
}
