//! The small slice of the core library that kref models (documented behaviour only).

use crate::kref::*;
use crate::kval::*;
use std::cell::RefCell;
use std::rc::Rc;

fn rt<T>(msg: &str) -> Result<T, Ctl> {
    Err(Ctl::Err(msg.to_string()))
}

pub fn has_method(module: &str, name: &str) -> bool {
    let list: &[&str] = match module {
        "koto" => &["type", "copy", "deep_copy", "unimplemented", "size"],
        "list" => &[
            "push", "pop", "size", "first", "last", "get", "insert", "remove", "clear", "contains", "is_empty",
            "to_tuple", "extend", "sort", "reverse", "fill",
        ],
        "tuple" => &["size", "first", "last", "get", "contains", "to_list", "is_empty"],
        "map" => &[
            "insert", "get", "remove", "size", "contains_key", "is_empty", "keys", "values", "with_meta", "sort", "update", "extend", "get_index", "clear",
        ],
        "string" => &["size", "to_uppercase", "to_lowercase", "contains", "is_empty", "chars"],
        "range" => &["start", "end", "size", "contains"],
        "iterator" => &["next", "to_tuple", "to_list", "count", "each", "keep", "fold"],
        "number" => &[],
        "out" => &["get"],
        _ => &[],
    };
    list.contains(&name)
}

/// names that exist in the real core library but are not modelled by kref (so that a generated
/// program using them is skipped instead of being judged)
thread_local! {
    static REAL_CORE: std::cell::RefCell<Option<std::collections::HashSet<String>>> = const { std::cell::RefCell::new(None) };
}

/// Does the *real* core library have `module.name`? Only used to decide between "runtime error"
/// and "not modelled by kref" for names kref does not know: a name the real library has is never
/// judged by the reference.
pub fn real_core_has(module: &str, name: &str) -> bool {
    REAL_CORE.with(|c| {
        let mut c = c.borrow_mut();
        if c.is_none() {
            use koto::prelude::*;
            let koto = Koto::with_settings(KotoSettings::default());
            let mut set = std::collections::HashSet::new();
            for m in ["list", "map", "string", "tuple", "range", "number", "iterator", "koto", "test", "io", "os"] {
                if let Some(KValue::Map(mm)) = koto.prelude().get(m) {
                    for (k, _) in mm.data().iter() {
                        if let KValue::Str(s) = k.value() {
                            set.insert(format!("{m}.{s}"));
                        }
                    }
                }
            }
            *c = Some(set);
        }
        c.as_ref().unwrap().contains(&format!("{module}.{name}"))
    })
}

pub fn known_core_name(module: &str, name: &str) -> bool {
    if real_core_has(module, name) {
        return true;
    }
    let list: &[&str] = match module {
        "map" => &[
            "clear", "extend", "get_index", "get_meta", "sort", "update", "with_meta", "keys", "values", "remove", "insert", "get",
            "contains_key", "is_empty", "size",
        ],
        "iterator" => &[
            "all", "any", "chain", "chunks", "consume", "cycle", "enumerate", "find", "flatten", "generate", "intersperse", "iter",
            "last", "max", "min", "min_max", "once", "peekable", "position", "product", "repeat", "reversed", "skip", "step", "sum",
            "take", "to_map", "to_string", "windows", "zip", "next_back", "fold", "each", "keep", "count", "to_list", "to_tuple", "next",
        ],
        _ => &[],
    };
    list.contains(&name)
}

fn size_of(ip: &Rc<Interp>, v: &V) -> R {
    Ok(match v {
        V::List(l) => V::Int(l.borrow().len() as i64),
        V::Tuple(t) => V::Int(t.len() as i64),
        V::Str(s) => V::Int(s.len() as i64),
        V::Map(m) => {
            if let Some(f) = m.get_meta("@size") {
                return ip.call_sync(f, vec![], Some(v.clone()));
            }
            if m.has_meta("@host") {
                return rt("size not implemented by host object");
            }
            V::Int(m.entries.borrow().len() as i64)
        }
        V::Range(Some(a), Some(b), incl) => {
            let end = if *incl { *b as i128 + 1 } else { *b as i128 };
            V::Int((end.max(*a as i128) - *a as i128) as i64)
        }
        _ => return rt("size of unsized value"),
    })
}

fn deep_copy(v: &V) -> Result<V, Ctl> {
    deep_copy_d(v, 0)
}

/// A container that (transitively) contains itself has no finite tree: the copy does not
/// terminate (in koto: native stack exhaustion), which the model leaves undefined.
fn deep_copy_d(v: &V, depth: usize) -> Result<V, Ctl> {
    if depth > 64 {
        return Err(Ctl::Unmodelled("deep_copy of a self-containing (or > 64 deep) container".into()));
    }
    Ok(match v {
        V::List(l) => {
            let mut out = vec![];
            for x in l.borrow().iter() {
                out.push(deep_copy_d(x, depth + 1)?);
            }
            V::list(out)
        }
        V::Tuple(t) => {
            let mut out = vec![];
            for x in t.iter() {
                out.push(deep_copy_d(x, depth + 1)?);
            }
            V::tuple(out)
        }
        V::Map(m) => {
            let mut out = vec![];
            for (k, x) in m.entries.borrow().iter() {
                out.push((k.clone(), deep_copy_d(x, depth + 1)?));
            }
            let nm = MapObj {
                entries: RefCell::new(out),
                meta: RefCell::new(m.meta.borrow().clone()),
            };
            V::Map(Rc::new(nm))
        }
        V::Iter(_) => return Err(Ctl::Unmodelled("deep_copy of iterator".into())),
        other => other.clone(),
    })
}

fn shallow_copy(v: &V) -> Result<V, Ctl> {
    Ok(match v {
        V::List(l) => V::list(l.borrow().clone()),
        V::Map(m) => V::Map(Rc::new(MapObj {
            entries: RefCell::new(m.entries.borrow().clone()),
            meta: RefCell::new(m.meta.borrow().clone()),
        })),
        V::Iter(_) => return Err(Ctl::Unmodelled("copy of iterator".into())),
        other => other.clone(),
    })
}

pub fn call_native(ip: Rc<Interp>, n: Rc<NativeFn>, mut args: Vec<V>, this: Option<V>) -> Fut {
    Box::pin(async move {
        // `x.method(args)`: the receiver is the first argument; `module.method(x, args)` likewise
        let name = n.name.as_str();
        if name.starts_with("host:") {
            let Some(me) = this else {
                return rt("host method without an instance");
            };
            return crate::knative::host_op(ip.clone(), name, me, args).await;
        }
        let recv = n.recv.clone().or(this.filter(|_| false));
        if let Some(r) = recv {
            args.insert(0, r);
        }
        match name {
            "print" => {
                let text = match args.len() {
                    0 => return rt("print needs an argument"),
                    1 => ip.display(&args[0])?,
                    _ => ip.display(&V::tuple(args.clone()))?,
                };
                let mut o = ip.out.borrow_mut();
                o.push_str(&text);
                o.push('\n');
                Ok(V::Null)
            }
            "mkhost" => match args.as_slice() {
                [V::Str(tag), V::Int(mask)] => Ok(make_host(tag, *mask as u32)),
                _ => rt("mkhost args"),
            },
            "size" | "koto.size" => {
                if args.len() != 1 {
                    return rt("size: one argument");
                }
                size_of(&ip, &args[0])
            }
            "type" | "koto.type" => {
                if args.len() != 1 {
                    return rt("type: one argument");
                }
                Ok(V::str(&type_name(&args[0])))
            }
            "copy" | "koto.copy" => {
                if args.len() != 1 {
                    return rt("copy: one argument");
                }
                shallow_copy(&args[0])
            }
            "deep_copy" | "koto.deep_copy" => {
                if args.len() != 1 {
                    return rt("deep_copy: one argument");
                }
                deep_copy(&args[0])
            }
            "assert" => match args.as_slice() {
                [V::Bool(true)] => Ok(V::Null),
                [V::Bool(false)] => rt("assertion failed"),
                _ => rt("assert: unexpected arguments"),
            },
            "assert_eq" | "assert_ne" => {
                if args.len() != 2 {
                    return rt("assert_eq: two arguments");
                }
                let eq = compare_op(ip.clone(), crate::kast::CmpOp::Eq, args[0].clone(), args[1].clone())
                    .await?
                    .truthy();
                if eq == (name == "assert_eq") { Ok(V::Null) } else { rt("assertion failed") }
            }
            // ---- list
            "list.push" => match args.as_slice() {
                [V::List(l), v] => {
                    l.borrow_mut().push(v.clone());
                    Ok(args[0].clone())
                }
                _ => rt("list.push args"),
            },
            "list.pop" => match args.as_slice() {
                [V::List(l)] => Ok(l.borrow_mut().pop().unwrap_or(V::Null)),
                _ => rt("list.pop args"),
            },
            "list.size" | "tuple.size" | "string.size" | "map.size" | "range.size" => {
                if args.len() != 1 {
                    return rt("size args");
                }
                if matches!(&args[0], V::Range(a, b, _) if a.is_none() || b.is_none()) {
                    return rt("size of unbounded range");
                }
                size_of(&ip, &args[0])
            }
            "list.first" => match args.as_slice() {
                [V::List(l)] => Ok(l.borrow().first().cloned().unwrap_or(V::Null)),
                _ => rt("args"),
            },
            "list.last" => match args.as_slice() {
                [V::List(l)] => Ok(l.borrow().last().cloned().unwrap_or(V::Null)),
                _ => rt("args"),
            },
            "tuple.first" => match args.as_slice() {
                [V::Tuple(l)] => Ok(l.first().cloned().unwrap_or(V::Null)),
                _ => rt("args"),
            },
            "tuple.last" => match args.as_slice() {
                [V::Tuple(l)] => Ok(l.last().cloned().unwrap_or(V::Null)),
                _ => rt("args"),
            },
            "list.get" | "tuple.get" => {
                let (items, rest): (Vec<V>, &[V]) = match args.as_slice() {
                    [V::List(l), rest @ ..] => (l.borrow().clone(), rest),
                    [V::Tuple(t), rest @ ..] => ((**t).clone(), rest),
                    _ => return rt("args"),
                };
                let (idx, default) = match rest {
                    [V::Int(i)] => (*i, V::Null),
                    [V::Int(i), d] => (*i, d.clone()),
                    _ => return Err(Ctl::Unmodelled("get with non-int index".into())),
                };
                if idx < 0 {
                    return Err(Ctl::Unmodelled("get with negative index".into()));
                }
                Ok(items.get(idx as usize).cloned().unwrap_or(default))
            }
            "list.insert" => match args.as_slice() {
                [V::List(l), V::Int(i), v] => {
                    let mut b = l.borrow_mut();
                    if *i < 0 || *i as usize > b.len() {
                        return rt("insert out of bounds");
                    }
                    b.insert(*i as usize, v.clone());
                    drop(b);
                    Ok(args[0].clone())
                }
                _ => rt("args"),
            },
            "list.remove" => match args.as_slice() {
                [V::List(l), V::Int(i)] => {
                    let mut b = l.borrow_mut();
                    if *i < 0 || *i as usize >= b.len() {
                        return rt("remove out of bounds");
                    }
                    Ok(b.remove(*i as usize))
                }
                _ => rt("args"),
            },
            "list.clear" => match args.as_slice() {
                [V::List(l)] => {
                    l.borrow_mut().clear();
                    Ok(args[0].clone())
                }
                _ => rt("args"),
            },
            "list.contains" | "tuple.contains" => {
                let items: Vec<V> = match args.as_slice() {
                    [V::List(l), _] => l.borrow().clone(),
                    [V::Tuple(t), _] => (**t).clone(),
                    _ => return rt("args"),
                };
                for it in items {
                    if compare_op(ip.clone(), crate::kast::CmpOp::Eq, it, args[1].clone()).await?.truthy() {
                        return Ok(V::Bool(true));
                    }
                }
                Ok(V::Bool(false))
            }
            "list.is_empty" | "tuple.is_empty" | "string.is_empty" | "map.is_empty" => {
                if args.len() != 1 {
                    return rt("args");
                }
                match size_of(&ip, &args[0])? {
                    V::Int(n) => Ok(V::Bool(n == 0)),
                    _ => rt("size"),
                }
            }
            "list.extend" => match args.as_slice() {
                [V::List(l), other] => {
                    if let V::List(o) = other {
                        if Rc::ptr_eq(l, o) {
                            return Err(Ctl::Unmodelled("list.extend with itself".into()));
                        }
                    }
                    let it = make_iter(ip.clone(), other.clone()).await?;
                    while let Some(x) = iter_next(ip.clone(), &it).await? {
                        l.borrow_mut().push(x);
                    }
                    Ok(args[0].clone())
                }
                _ => rt("args"),
            },
            "list.to_tuple" => match args.as_slice() {
                [V::List(l)] => Ok(V::tuple(l.borrow().clone())),
                _ => rt("args"),
            },
            "tuple.to_list" => match args.as_slice() {
                [V::Tuple(l)] => Ok(V::list((**l).clone())),
                _ => rt("args"),
            },
            // ---- map
            "map.insert" => match args.as_slice() {
                [V::Map(m), k] => {
                    check_key(k)?;
                    let old = m.get(k).unwrap_or(V::Null);
                    m.insert(k.clone(), V::Null);
                    Ok(old)
                }
                [V::Map(m), k, v] => {
                    check_key(k)?;
                    let old = m.get(k).unwrap_or(V::Null);
                    m.insert(k.clone(), v.clone());
                    Ok(old)
                }
                _ => rt("args"),
            },
            "map.get" => match args.as_slice() {
                [V::Map(m), k] => {
                    check_key(k)?;
                    Ok(m.get(k).unwrap_or(V::Null))
                }
                [V::Map(m), k, d] => {
                    check_key(k)?;
                    Ok(m.get(k).unwrap_or(d.clone()))
                }
                _ => rt("args"),
            },
            "map.remove" => match args.as_slice() {
                [V::Map(m), k] => {
                    check_key(k)?;
                    let mut e = m.entries.borrow_mut();
                    match e.iter().position(|(k2, _)| values_equal_plain(k, k2)) {
                        Some(i) => Ok(e.remove(i).1),
                        None => Ok(V::Null),
                    }
                }
                _ => rt("args"),
            },
            "list.reverse" => match args.as_slice() {
                [V::List(l)] => {
                    l.borrow_mut().reverse();
                    Ok(args[0].clone())
                }
                _ => rt("args"),
            },
            "list.fill" => match args.as_slice() {
                [V::List(l), v] => {
                    for x in l.borrow_mut().iter_mut() {
                        *x = v.clone();
                    }
                    Ok(args[0].clone())
                }
                _ => rt("args"),
            },
            "list.sort" => match args.as_slice() {
                [V::List(l)] => {
                    let mut items = l.borrow().clone();
                    // two objects with @<: the sort's first step is one @< call; only its failure is
                    // modelled (which further comparisons follow a success is the sort algorithm's business)
                    if let [V::Map(a), V::Map(b)] = items.as_slice() {
                        if Rc::ptr_eq(a, b) {
                            if let Some(f) = a.get_meta("@<") {
                                call_value(ip.clone(), f, vec![items[1].clone()], Some(items[0].clone())).await?;
                                return Err(Ctl::Unmodelled("comparison sequence of a sort over objects".into()));
                            }
                        }
                    }
                    sort_plain(&mut items)?;
                    *l.borrow_mut() = items;
                    Ok(args[0].clone())
                }
                _ => Err(Ctl::Unmodelled("list.sort with key".into())),
            },
            "map.sort" => match args.as_slice() {
                [V::Map(m)] => {
                    let mut entries = m.entries.borrow().clone();
                    let mut keys: Vec<V> = entries.iter().map(|(k, _)| k.clone()).collect();
                    sort_plain(&mut keys)?;
                    let mut out = vec![];
                    for k in keys {
                        let i = entries.iter().position(|(k2, _)| values_equal_plain(&k, k2)).unwrap();
                        out.push(entries.remove(i));
                    }
                    *m.entries.borrow_mut() = out;
                    Ok(args[0].clone())
                }
                _ => Err(Ctl::Unmodelled("map.sort with key".into())),
            },
            "map.clear" => match args.as_slice() {
                [V::Map(m)] => {
                    m.entries.borrow_mut().clear();
                    Ok(args[0].clone())
                }
                _ => rt("args"),
            },
            "map.get_index" => match args.as_slice() {
                [V::Map(m), V::Int(i)] => {
                    let e = m.entries.borrow();
                    if *i < 0 {
                        return Err(Ctl::Unmodelled("negative get_index".into()));
                    }
                    Ok(match e.get(*i as usize) {
                        Some((k, v)) => V::tuple(vec![k.clone(), v.clone()]),
                        None => V::Null,
                    })
                }
                _ => rt("args"),
            },
            "map.update" => {
                let (m, key, default, f) = match args.as_slice() {
                    [V::Map(m), k, f] => (m.clone(), k.clone(), V::Null, f.clone()),
                    [V::Map(m), k, d, f] => (m.clone(), k.clone(), d.clone(), f.clone()),
                    _ => return rt("args"),
                };
                check_key(&key)?;
                let cur = m.get(&key).unwrap_or(default);
                let r = call_value(ip.clone(), f, vec![cur], None).await?;
                m.insert(key, r.clone());
                Ok(r)
            }
            "map.extend" => match args.as_slice() {
                [V::Map(m), V::Map(o)] => {
                    if Rc::ptr_eq(m, o) {
                        return Ok(args[0].clone());
                    }
                    let entries = o.entries.borrow().clone();
                    for (k, v) in entries {
                        m.insert(k, v);
                    }
                    Ok(args[0].clone())
                }
                [V::Map(m), other] => {
                    let it = make_iter(ip.clone(), other.clone()).await?;
                    let mut new = vec![];
                    while let Some(x) = iter_next(ip.clone(), &it).await? {
                        match &x {
                            V::Tuple(t) if t.len() == 2 => {
                                check_key(&t[0])?;
                                new.push((t[0].clone(), t[1].clone()))
                            }
                            other => {
                                check_key(other)?;
                                new.push((other.clone(), V::Null))
                            }
                        }
                    }
                    for (k, v) in new {
                        m.insert(k, v);
                    }
                    Ok(args[0].clone())
                }
                _ => rt("args"),
            },
            "map.with_meta" => match args.as_slice() {
                [V::Map(m), V::Map(meta_src)] => Ok(V::Map(Rc::new(MapObj {
                    entries: RefCell::new(m.entries.borrow().clone()),
                    meta: RefCell::new(meta_src.meta.borrow().clone()),
                }))),
                _ => rt("args"),
            },
            "map.contains_key" => match args.as_slice() {
                [V::Map(m), k] => {
                    check_key(k)?;
                    Ok(V::Bool(m.get(k).is_some()))
                }
                _ => rt("args"),
            },
            "map.keys" => match args.as_slice() {
                [V::Map(m)] => Ok(V::Iter(Rc::new(IterObj {
                    state: RefCell::new(IterState::Seq(m.entries.borrow().iter().map(|(k, _)| k.clone()).collect(), 0)),
                }))),
                _ => rt("args"),
            },
            "map.values" => match args.as_slice() {
                [V::Map(m)] => Ok(V::Iter(Rc::new(IterObj {
                    state: RefCell::new(IterState::Seq(m.entries.borrow().iter().map(|(_, v)| v.clone()).collect(), 0)),
                }))),
                _ => rt("args"),
            },
            // ---- string
            "string.to_uppercase" => match args.as_slice() {
                [V::Str(s)] => Ok(V::str(&s.to_uppercase())),
                _ => rt("args"),
            },
            "string.to_lowercase" => match args.as_slice() {
                [V::Str(s)] => Ok(V::str(&s.to_lowercase())),
                _ => rt("args"),
            },
            "string.contains" => match args.as_slice() {
                [V::Str(s), V::Str(p)] => Ok(V::Bool(s.contains(&**p))),
                _ => rt("args"),
            },
            "string.chars" => match args.as_slice() {
                [V::Str(_)] => Ok(V::Iter(make_iter(ip.clone(), args[0].clone()).await?)),
                _ => rt("args"),
            },
            // ---- range
            "range.start" => match args.as_slice() {
                [V::Range(a, _, _)] => Ok(a.map(V::Int).unwrap_or(V::Null)),
                _ => rt("args"),
            },
            "range.end" => match args.as_slice() {
                [V::Range(_, b, _)] => Ok(b.map(V::Int).unwrap_or(V::Null)),
                _ => rt("args"),
            },
            "range.contains" => match args.as_slice() {
                [V::Range(a, b, incl), x] if x.is_num() => {
                    let x = x.as_f64().unwrap();
                    let lo = a.map(|a| a as f64 <= x).unwrap_or(true);
                    let hi = match b {
                        Some(b) => {
                            if *incl {
                                x <= *b as f64
                            } else {
                                x < *b as f64
                            }
                        }
                        None => true,
                    };
                    if let (Some(a), Some(b)) = (a, b) {
                        if a > b {
                            return Err(Ctl::Unmodelled("contains on descending range".into()));
                        }
                    }
                    Ok(V::Bool(lo && hi))
                }
                _ => Err(Ctl::Unmodelled("range.contains args".into())),
            },
            // ---- iterator
            "iterator.next" => {
                if args.len() != 1 {
                    return rt("args");
                }
                match &args[0] {
                    V::Iter(it) => match iter_next(ip.clone(), it).await? {
                        Some(v) => Ok(V::Out(Rc::new(v))),
                        None => Ok(V::Null),
                    },
                    _ => Err(Ctl::Unmodelled("next on non-iterator".into())),
                }
            }
            "iterator.to_tuple" | "iterator.to_list" | "iterator.count" => {
                if args.len() != 1 {
                    return rt("args");
                }
                let it = make_iter(ip.clone(), args[0].clone()).await?;
                let mut items = vec![];
                while let Some(x) = iter_next(ip.clone(), &it).await? {
                    items.push(x);
                }
                Ok(match name {
                    "iterator.to_tuple" => V::tuple(items),
                    "iterator.to_list" => V::list(items),
                    _ => V::Int(items.len() as i64),
                })
            }
            "out.get" => match args.as_slice() {
                [V::Out(v)] => Ok((**v).clone()),
                _ => rt("args"),
            },
            "iterator.each" | "iterator.keep" => {
                if args.len() != 2 {
                    return rt("args");
                }
                if !matches!(&args[1], V::Func(_) | V::Native(_)) {
                    return rt("callback must be callable");
                }
                let src = make_iter(ip.clone(), args[0].clone()).await?;
                Ok(V::Iter(Rc::new(IterObj {
                    state: RefCell::new(IterState::Adapt(src, args[1].clone(), if name == "iterator.each" { 0 } else { 1 })),
                })))
            }
            "iterator.fold" => {
                if args.len() != 3 {
                    return rt("args");
                }
                let it = make_iter(ip.clone(), args[0].clone()).await?;
                let mut acc = args[1].clone();
                while let Some(x) = iter_next(ip.clone(), &it).await? {
                    acc = call_value(ip.clone(), args[2].clone(), vec![acc, x], None).await?;
                }
                Ok(acc)
            }
            "koto.unimplemented" => Err(Ctl::Unmodelled("koto.unimplemented called".into())),
            other => Err(Ctl::Unmodelled(format!("native {other}"))),
        }
    })
}

fn check_key(k: &V) -> Result<(), Ctl> {
    match k {
        V::Null | V::Bool(_) | V::Int(_) | V::Str(_) | V::Range(..) => Ok(()),
        V::Float(_) => Err(Ctl::Unmodelled("float map key".into())),
        V::Tuple(t) => {
            for x in t.iter() {
                check_key(x)?;
            }
            Ok(())
        }
        _ => Err(Ctl::Err("unhashable key".into())),
    }
}

// ---------------------------------------------------------------------------------------------
// kref's model of the harness host object (hostobj.rs): a map object with the equivalent metakeys

const HOST_OPS: [&str; 6] = ["+", "-", "*", "/", "%", "^"];

fn host_native(name: &str) -> V {
    V::Native(Rc::new(NativeFn { name: format!("host:{name}"), recv: None }))
}

pub fn make_host(tag: &str, mask: u32) -> V {
    let mut meta: Vec<(String, V)> = vec![("@type".into(), V::str("HostObj")), ("@host".into(), V::Bool(true))];
    for (i, op) in HOST_OPS.iter().enumerate() {
        if mask & (1 << i) != 0 {
            meta.push((format!("@{op}"), host_native(op)));
        }
        if mask & (1 << (6 + i)) != 0 {
            meta.push((format!("@r{op}"), host_native(&format!("r{op}"))));
        }
        if mask & (1 << (12 + i)) != 0 {
            meta.push((format!("@{op}="), host_native(&format!("{op}="))));
        }
    }
    if mask & (1 << 18) != 0 {
        meta.push(("@<".into(), host_native("<")));
    }
    if mask & (1 << 19) != 0 {
        meta.push(("@==".into(), host_native("==")));
    }
    if mask & (1 << 24) != 0 {
        meta.push(("@<=".into(), host_native("<=")));
    }
    if mask & (1 << 20) != 0 {
        meta.push(("@negate".into(), host_native("negate")));
    }
    if mask & (1 << 21) != 0 {
        meta.push(("@index".into(), host_native("index")));
        meta.push(("@size".into(), host_native("size")));
    }
    if mask & (1 << 22) != 0 {
        meta.push(("@call".into(), host_native("call")));
    }
    meta.push(("@display".into(), host_native(if mask & (1 << 23) != 0 { "display" } else { "display-default" })));
    meta.push(("@meta describe".into(), host_native("describe")));
    meta.push(("@meta bump".into(), host_native("bump")));
    V::Map(Rc::new(MapObj {
        entries: RefCell::new(vec![(V::str("tag"), V::str(tag)), (V::str("val"), V::Int(1))]),
        meta: RefCell::new(Some(Rc::new(RefCell::new(meta)))),
    }))
}

fn host_rp(v: &V) -> V {
    match v {
        V::Map(m) => match m.get(&V::str("tag")) {
            Some(V::Str(t)) => V::str(&format!("<{t}>")),
            _ => V::str("<map>"),
        },
        V::Int(_) | V::Float(_) | V::Str(_) => v.clone(),
        V::List(_) => V::str("<list>"),
        _ => V::str("<other>"),
    }
}

pub fn host_op(ip: Rc<Interp>, name: &str, me: V, args: Vec<V>) -> Fut {
    let name = name.to_string();
    Box::pin(async move {
        let V::Map(m) = &me else { return rt("host self") };
        let tag = match m.get(&V::str("tag")) {
            Some(V::Str(t)) => t.to_string(),
            _ => return rt("host tag"),
        };
        let key = &name[5..];
        let emit = |items: Vec<V>| -> Result<(), Ctl> {
            let text = ip.display(&V::tuple(items))?;
            let mut o = ip.out.borrow_mut();
            o.push_str(&text);
            o.push('\n');
            Ok(())
        };
        let arg0 = args.first().map(host_rp);
        match key {
            "+" | "-" | "*" | "/" | "%" | "^" => {
                emit(vec![V::str(&format!("host@{key}")), V::str(&tag), arg0.unwrap_or(V::Null)])?;
                Ok(V::str("hres-l"))
            }
            "r+" | "r-" | "r*" | "r/" | "r%" | "r^" => {
                emit(vec![V::str(&format!("host@{key}")), V::str(&tag), arg0.unwrap_or(V::Null)])?;
                Ok(V::str("hres-r"))
            }
            "+=" | "-=" | "*=" | "/=" | "%=" | "^=" => {
                emit(vec![V::str(&format!("host@{key}")), V::str(&tag), arg0.unwrap_or(V::Null)])?;
                if let Some(V::Int(v)) = m.get(&V::str("val")) {
                    m.insert(V::str("val"), V::Int(v + 10));
                }
                Ok(me.clone())
            }
            "<" | "==" => {
                emit(vec![V::str(&format!("host@{key}")), V::str(&tag), arg0.unwrap_or(V::Null)])?;
                Ok(V::Bool(false))
            }
            "<=" => {
                emit(vec![V::str("host@<="), V::str(&tag), arg0.unwrap_or(V::Null)])?;
                Ok(V::Bool(true))
            }
            "negate" => {
                emit(vec![V::str("host@negate"), V::str(&tag)])?;
                Ok(V::str("hnegated"))
            }
            "index" => {
                emit(vec![V::str("host@index"), V::str(&tag), arg0.unwrap_or(V::Null)])?;
                match args.first() {
                    Some(V::Int(i)) => Ok(V::Int(i * 10)),
                    _ => Ok(V::Null),
                }
            }
            "size" => Ok(V::Int(2)),
            "call" => {
                emit(vec![V::str("host@call"), V::str(&tag), arg0.unwrap_or(V::str(""))])?;
                Ok(V::str("hcalled"))
            }
            "display" => Ok(V::str(&format!("HOST({tag})"))),
            "display-default" => Ok(V::str("HostObj")),
            "describe" => Ok(V::str(&format!("host {tag}"))),
            "bump" => {
                let v = match m.get(&V::str("val")) {
                    Some(V::Int(v)) => v + 1,
                    _ => 0,
                };
                m.insert(V::str("val"), V::Int(v));
                Ok(V::Int(v))
            }
            other => Err(Ctl::Unmodelled(format!("host op {other}"))),
        }
    })
}

/// sorts numbers (numerically) or strings (byte-wise); anything else is an error
pub fn sort_plain(items: &mut Vec<V>) -> Result<(), Ctl> {
    if items.iter().all(|v| v.is_num()) {
        if items.iter().any(|v| matches!(v, V::Float(f) if f.is_nan())) {
            return Err(Ctl::Unmodelled("sorting NaN".into()));
        }
        items.sort_by(|a, b| a.as_f64().unwrap().partial_cmp(&b.as_f64().unwrap()).unwrap());
        Ok(())
    } else if items.iter().all(|v| matches!(v, V::Str(_))) {
        items.sort_by(|a, b| match (a, b) {
            (V::Str(x), V::Str(y)) => x.as_bytes().cmp(y.as_bytes()),
            _ => std::cmp::Ordering::Equal,
        });
        Ok(())
    } else if items.len() <= 1 {
        Ok(())
    } else {
        Err(Ctl::Unmodelled("sorting values of mixed or unordered kinds".into()))
    }
}
