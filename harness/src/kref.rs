//! kref: a definitional tree-walking interpreter for the guide's semantics over KAST.
//!
//! Written in async style so that generators can be modelled lazily: a `yield` is a future that
//! is Pending exactly once, a generator's `next()` polls its body's future once.

use crate::kast::*;
use crate::kval::*;
use std::cell::{Cell, RefCell};
use std::collections::HashMap;
use std::future::Future;
use std::pin::Pin;
use std::rc::Rc;
use std::task::{Context, Poll, RawWaker, RawWakerVTable, Waker};

pub const RT_SENTINEL: &str = "\u{1}<runtime-error>\u{1}";

#[derive(Clone)]
pub enum Ctl {
    Break(V),
    Continue,
    Return(V),
    Throw(V),
    /// runtime error (class only; the message is never compared)
    Err(String),
    /// the reference itself ran out of fuel (non-terminating program)
    Fuel,
    /// the program used something the reference does not model: the case is skipped
    Unmodelled(String),
}

pub type R = Result<V, Ctl>;
pub type Fut = Pin<Box<dyn Future<Output = R>>>;
pub type Env = Rc<RefCell<Vec<(Name, V)>>>;

fn rt<T>(msg: &str) -> Result<T, Ctl> {
    Err(Ctl::Err(msg.to_string()))
}

pub struct GenState {
    pub fut: Option<Fut>,
    pub slot: Rc<RefCell<Option<V>>>,
    pub hint: Option<Hint>,
}

pub struct Interp {
    pub out: RefCell<String>,
    pub exports: RefCell<Vec<(Name, V)>>,
    pub fuel: Cell<u64>,
    pub type_checks: bool,
    /// every generator's yield slot stack: the innermost running generator receives the yield
    pub gen_stack: RefCell<Vec<(Rc<RefCell<Option<V>>>, Option<Hint>)>>,
    free_vars: RefCell<HashMap<usize, Rc<Vec<Name>>>>,
}

#[derive(Clone, Debug, PartialEq, Eq, Hash)]
pub enum RefOutcome {
    Ok(String),
    Thrown(String),
    Runtime,
    NonTerminating,
    Unmodelled(String),
}

pub struct RefObs {
    pub stdout: String,
    pub outcome: RefOutcome,
}

struct YieldOnce(bool);
impl Future for YieldOnce {
    type Output = ();
    fn poll(mut self: Pin<&mut Self>, _cx: &mut Context<'_>) -> Poll<()> {
        if self.0 {
            Poll::Ready(())
        } else {
            self.0 = true;
            Poll::Pending
        }
    }
}

fn noop_waker() -> Waker {
    fn clone(_: *const ()) -> RawWaker {
        RawWaker::new(std::ptr::null(), &VTABLE)
    }
    fn noop(_: *const ()) {}
    static VTABLE: RawWakerVTable = RawWakerVTable::new(clone, noop, noop, noop);
    unsafe { Waker::from_raw(RawWaker::new(std::ptr::null(), &VTABLE)) }
}

pub fn run_reference(prog: &[X], type_checks: bool, fuel: u64) -> RefObs {
    let ip = Rc::new(Interp {
        out: RefCell::new(String::new()),
        exports: RefCell::new(vec![]),
        fuel: Cell::new(fuel),
        type_checks,
        gen_stack: RefCell::new(vec![]),
        free_vars: RefCell::new(HashMap::new()),
    });
    let env: Env = Rc::new(RefCell::new(vec![]));
    let body: Blk = Rc::new(prog.to_vec());
    let mut fut = eval_block(ip.clone(), body, env);
    let waker = noop_waker();
    let mut cx = Context::from_waker(&waker);
    let r = match fut.as_mut().poll(&mut cx) {
        Poll::Ready(r) => r,
        Poll::Pending => Err(Ctl::Unmodelled("yield outside of a generator".into())),
    };
    let outcome = match r {
        Ok(v) | Err(Ctl::Return(v)) => match ip.display(&v) {
            Ok(s) => RefOutcome::Ok(s),
            Err(Ctl::Throw(v)) => RefOutcome::Thrown(ip.display(&v).unwrap_or_default()),
            Err(Ctl::Unmodelled(m)) => RefOutcome::Unmodelled(m),
            Err(Ctl::Fuel) => RefOutcome::NonTerminating,
            Err(_) => RefOutcome::Runtime,
        },
        Err(Ctl::Throw(v)) => match &v {
            V::Str(_) => RefOutcome::Thrown(to_display(&v)),
            V::Map(m) if m.has_meta("@display") => match ip.display(&v) {
                Ok(s) => RefOutcome::Thrown(s),
                Err(_) => RefOutcome::Runtime,
            },
            // other thrown kinds: documented as an error ("throw only strings or objects with
            // @display"): class runtime
            _ => RefOutcome::Runtime,
        },
        Err(Ctl::Err(_)) => RefOutcome::Runtime,
        Err(Ctl::Fuel) => RefOutcome::NonTerminating,
        Err(Ctl::Unmodelled(m)) => RefOutcome::Unmodelled(m),
        Err(Ctl::Break(_)) | Err(Ctl::Continue) => RefOutcome::Unmodelled("break/continue outside loop".into()),
    };
    let stdout = ip.out.borrow().clone();
    RefObs { stdout, outcome }
}

// ---------------------------------------------------------------------------------------------

fn lookup_env(env: &Env, n: &str) -> Option<V> {
    env.borrow().iter().rev().find(|(k, _)| &**k == n).map(|(_, v)| v.clone())
}

fn set_env(env: &Env, n: &Name, v: V) {
    let mut e = env.borrow_mut();
    if let Some(slot) = e.iter_mut().find(|(k, _)| k == n) {
        slot.1 = v;
    } else {
        e.push((n.clone(), v));
    }
}

const CORE_MODULES: &[&str] = &["koto", "list", "map", "string", "tuple", "iterator", "number", "range", "test", "io", "os"];

impl Interp {
    fn burn(&self) -> Result<(), Ctl> {
        let f = self.fuel.get();
        if f == 0 {
            return Err(Ctl::Fuel);
        }
        self.fuel.set(f - 1);
        Ok(())
    }

    fn lookup(&self, env: &Env, n: &str) -> R {
        if let Some(v) = lookup_env(env, n) {
            return Ok(v);
        }
        if let Some((_, v)) = self.exports.borrow().iter().find(|(k, _)| &**k == n) {
            return Ok(v.clone());
        }
        match n {
            "print" | "size" | "type" | "assert" | "assert_eq" | "assert_ne" | "mkhost" => Ok(V::Native(Rc::new(NativeFn {
                name: n.to_string(),
                recv: None,
            }))),
            m if CORE_MODULES.contains(&m) => Ok(V::Native(Rc::new(NativeFn {
                name: format!("module:{m}"),
                recv: None,
            }))),
            _ => rt("unknown identifier"),
        }
    }

    /// Free identifier names of a function (all Ids read anywhere in it, incl. nested functions).
    fn free_vars(&self, f: &Rc<FuncDef>) -> Rc<Vec<Name>> {
        let key = Rc::as_ptr(f) as usize;
        if let Some(v) = self.free_vars.borrow().get(&key) {
            return v.clone();
        }
        let mut names = vec![];
        for a in &f.args {
            if let Some(d) = &a.default {
                collect_ids(d, &mut names);
            }
        }
        for s in f.body.iter() {
            collect_ids(s, &mut names);
        }
        names.sort();
        names.dedup();
        let v = Rc::new(names);
        self.free_vars.borrow_mut().insert(key, v.clone());
        v
    }

    pub fn display(self: &Rc<Self>, v: &V) -> Result<String, Ctl> {
        let mut out = String::new();
        self.display_into(v, false, &mut out, &mut vec![])?;
        Ok(out)
    }

    fn display_into(self: &Rc<Self>, v: &V, contained: bool, out: &mut String, parents: &mut Vec<usize>) -> Result<(), Ctl> {
        match v {
            V::Map(m) if m.has_meta("@display") => {
                let f = m.get_meta("@display").unwrap();
                let r = self.call_sync(f, vec![], Some(v.clone()))?;
                match r {
                    V::Str(s) => {
                        out.push_str(&s);
                        Ok(())
                    }
                    _ => rt("@display must return a string"),
                }
            }
            V::List(l) => {
                let id = Rc::as_ptr(l) as *const () as usize;
                out.push('[');
                if parents.contains(&id) {
                    out.push_str("...");
                } else {
                    parents.push(id);
                    let items = l.borrow().clone();
                    for (i, e) in items.iter().enumerate() {
                        if i > 0 {
                            out.push_str(", ");
                        }
                        self.display_into(e, true, out, parents)?;
                    }
                    parents.pop();
                }
                out.push(']');
                Ok(())
            }
            V::Tuple(t) => {
                out.push('(');
                for (i, e) in t.iter().enumerate() {
                    if i > 0 {
                        out.push_str(", ");
                    }
                    self.display_into(e, true, out, parents)?;
                }
                out.push(')');
                Ok(())
            }
            V::Map(m) => {
                // the type prefix is the object's own @type or the first one along its @base chain
                let t = type_name(v);
                if m.meta.borrow().is_some() && t != "Map" && t != "Object" {
                    out.push_str(&t);
                    out.push(' ');
                }
                let id = Rc::as_ptr(m) as *const () as usize;
                out.push('{');
                if parents.contains(&id) {
                    out.push_str("...");
                } else {
                    parents.push(id);
                    let entries = m.entries.borrow().clone();
                    for (i, (k, val)) in entries.iter().enumerate() {
                        if i > 0 {
                            out.push_str(", ");
                        }
                        let mut ks = String::new();
                        self.display_into(k, false, &mut ks, &mut vec![])?;
                        out.push_str(&ks);
                        out.push_str(": ");
                        self.display_into(val, true, out, parents)?;
                    }
                    parents.pop();
                }
                out.push('}');
                Ok(())
            }
            V::Out(v) => {
                out.push_str("IteratorOutput(");
                self.display_into(v, false, out, parents)?;
                out.push(')');
                Ok(())
            }
            other => {
                display_plain(other, contained, out, parents);
                Ok(())
            }
        }
    }

    /// Synchronous call used from display / native callbacks: drives the future to completion
    /// (a yield inside is unmodelled).
    pub fn call_sync(self: &Rc<Self>, f: V, args: Vec<V>, this: Option<V>) -> R {
        let mut fut = call_value(self.clone(), f, args, this);
        let waker = noop_waker();
        let mut cx = Context::from_waker(&waker);
        match fut.as_mut().poll(&mut cx) {
            Poll::Ready(r) => r,
            Poll::Pending => Err(Ctl::Unmodelled("yield across a native boundary".into())),
        }
    }
}

fn collect_ids(e: &X, out: &mut Vec<Name>) {
    match &**e {
        E::Id(n) => out.push(n.clone()),
        E::Null | E::Bool(_) | E::Int(_) | E::Float(_) | E::Continue => {}
        E::Str(parts) => {
            for p in parts {
                if let SP::Hole(h, _) = p {
                    collect_ids(h, out);
                }
            }
        }
        E::List(v) | E::Tuple(v) => v.iter().for_each(|q| collect_ids(q, out)),
        E::Map(entries) => {
            for (k, v) in entries {
                match v {
                    Some(v) => collect_ids(v, out),
                    None => {
                        if let MK::Id(n) = k {
                            out.push(n.clone());
                        }
                    }
                }
            }
        }
        E::Range(a, b, _) => {
            a.iter().for_each(|q| collect_ids(q, out));
            b.iter().for_each(|q| collect_ids(q, out));
        }
        E::Neg(a) | E::Not(a) | E::Yield(a) | E::Throw(a) | E::Export(a) => collect_ids(a, out),
        E::Bin(_, a, b) | E::Index(a, b) | E::Pipe(a, b) => {
            collect_ids(a, out);
            collect_ids(b, out);
        }
        E::Cmp(v, _) => v.iter().for_each(|q| collect_ids(q, out)),
        E::Assign(t, v) | E::OpAssign(_, t, v) => {
            tgt_ids(t, out);
            collect_ids(v, out);
        }
        E::MultiAssign(ts, vs) => {
            for t in ts {
                tgt_ids(t, out);
            }
            for v in vs {
                collect_ids(v, out);
            }
        }
        E::Let(ts, vs) => {
            for (t, _) in ts {
                tgt_ids(t, out);
            }
            for v in vs {
                collect_ids(v, out);
            }
        }
        E::Access(a, _) => collect_ids(a, out),
        E::Call(f, args, _) => {
            collect_ids(f, out);
            for a in args {
                match a {
                    Arg::E(e) | Arg::Spread(e) => collect_ids(e, out),
                }
            }
        }
        E::If(arms, els) => {
            for (c, b) in arms {
                collect_ids(c, out);
                b.iter().for_each(|s| collect_ids(s, out));
            }
            if let Some(b) = els {
                b.iter().for_each(|s| collect_ids(s, out));
            }
        }
        E::Switch(arms) => {
            for (c, b) in arms {
                if let Some(c) = c {
                    collect_ids(c, out);
                }
                b.iter().for_each(|s| collect_ids(s, out));
            }
        }
        E::Match(subs, arms) => {
            subs.iter().for_each(|s| collect_ids(s, out));
            for a in arms {
                if let Some(g) = &a.guard {
                    collect_ids(g, out);
                }
                for alt in &a.alts {
                    for p in alt {
                        pat_ids(p, out);
                    }
                }
                a.body.iter().for_each(|s| collect_ids(s, out));
            }
        }
        E::While(c, b) | E::Until(c, b) => {
            collect_ids(c, out);
            b.iter().for_each(|s| collect_ids(s, out));
        }
        E::Loop(b) => b.iter().for_each(|s| collect_ids(s, out)),
        E::For(_, it, b) => {
            collect_ids(it, out);
            b.iter().for_each(|s| collect_ids(s, out));
        }
        E::Break(v) | E::Return(v) => {
            if let Some(v) = v {
                collect_ids(v, out)
            }
        }
        E::Func(f) => {
            for a in &f.args {
                if let Some(d) = &a.default {
                    collect_ids(d, out);
                }
            }
            f.body.iter().for_each(|s| collect_ids(s, out));
        }
        E::Try(b, cs, f) => {
            b.iter().for_each(|s| collect_ids(s, out));
            for c in cs {
                c.body.iter().for_each(|s| collect_ids(s, out));
            }
            if let Some(f) = f {
                f.iter().for_each(|s| collect_ids(s, out));
            }
        }
        E::Raw(_, inner) => collect_ids(inner, out),
    }
}

fn pat_ids(p: &Pat, out: &mut Vec<Name>) {
    match p {
        Pat::Lit(e) => collect_ids(e, out),
        Pat::Tuple(ps, _) => ps.iter().for_each(|p| pat_ids(p, out)),
        _ => {}
    }
}

fn tgt_ids(t: &Tgt, out: &mut Vec<Name>) {
    match t {
        Tgt::Id(n) => out.push(n.clone()),
        Tgt::Wild(_) => {}
        Tgt::Index(a, b) => {
            collect_ids(a, out);
            collect_ids(b, out);
        }
        Tgt::Access(a, _) => collect_ids(a, out),
    }
}

// ---------------------------------------------------------------------------------------------
// Evaluation

pub fn eval_block(ip: Rc<Interp>, b: Blk, env: Env) -> Fut {
    Box::pin(async move {
        let mut last = V::Null;
        for st in b.iter() {
            last = eval(ip.clone(), st.clone(), env.clone()).await?;
        }
        Ok(last)
    })
}

pub fn eval(ip: Rc<Interp>, e: X, env: Env) -> Fut {
    Box::pin(async move {
        ip.burn()?;
        match &*e {
            E::Null => Ok(V::Null),
            E::Bool(b) => Ok(V::Bool(*b)),
            E::Int(i) => Ok(V::Int(*i)),
            E::Float(f) => Ok(V::Float(*f)),
            E::Str(parts) => {
                let mut o = String::new();
                for p in parts {
                    match p {
                        SP::Lit(t) => o.push_str(t),
                        SP::Hole(h, spec) => {
                            let v = eval(ip.clone(), h.clone(), env.clone()).await?;
                            match spec {
                                None => o.push_str(&ip.display(&v)?),
                                Some(s) => o.push_str(&crate::kfmt::format_value(&ip, &v, &s.text)?),
                            }
                        }
                    }
                }
                Ok(V::str(&o))
            }
            E::Id(n) => ip.lookup(&env, n),
            E::List(items) => {
                let mut v = Vec::with_capacity(items.len());
                for it in items {
                    v.push(eval(ip.clone(), it.clone(), env.clone()).await?);
                }
                Ok(V::list(v))
            }
            E::Tuple(items) => {
                let mut v = Vec::with_capacity(items.len());
                for it in items {
                    v.push(eval(ip.clone(), it.clone(), env.clone()).await?);
                }
                Ok(V::tuple(v))
            }
            E::Map(entries) => {
                let m = Rc::new(MapObj {
                    entries: RefCell::new(vec![]),
                    meta: RefCell::new(None),
                });
                for (k, v) in entries {
                    let val = match v {
                        Some(v) => eval(ip.clone(), v.clone(), env.clone()).await?,
                        None => match k {
                            MK::Id(n) => ip.lookup(&env, n)?,
                            _ => return Err(Ctl::Unmodelled("valueless non-id key".into())),
                        },
                    };
                    match k {
                        MK::Id(n) => m.insert(V::str(n), val),
                        MK::Str(t) => m.insert(V::str(t), val),
                        MK::Meta(n, arg) => {
                            let key = match arg {
                                Some(a) => format!("@{n} {a}"),
                                None => format!("@{n}"),
                            };
                            let mut meta = m.meta.borrow_mut();
                            let mm = meta.get_or_insert_with(|| Rc::new(RefCell::new(vec![])));
                            let mut mm = mm.borrow_mut();
                            if let Some(slot) = mm.iter_mut().find(|(k, _)| *k == key) {
                                slot.1 = val;
                            } else {
                                mm.push((key, val));
                            }
                        }
                    }
                }
                Ok(V::Map(m))
            }
            E::Range(a, b, incl) => {
                let a = match a {
                    Some(a) => Some(eval(ip.clone(), a.clone(), env.clone()).await?),
                    None => None,
                };
                let b = match b {
                    Some(b) => Some(eval(ip.clone(), b.clone(), env.clone()).await?),
                    None => None,
                };
                let conv = |v: Option<V>| -> Result<Option<i64>, Ctl> {
                    match v {
                        None => Ok(None),
                        Some(V::Int(i)) => Ok(Some(i)),
                        Some(V::Float(_)) => Err(Ctl::Unmodelled("float range bound".into())),
                        Some(_) => rt("range bound must be a number"),
                    }
                };
                Ok(V::Range(conv(a)?, conv(b)?, *incl))
            }
            E::Neg(a) => {
                let v = eval(ip.clone(), a.clone(), env.clone()).await?;
                match v {
                    V::Int(i) => Ok(V::Int(i.wrapping_neg())),
                    V::Float(f) => Ok(V::Float(-f)),
                    V::Map(ref m) if m.has_meta("@negate") => {
                        let f = m.get_meta("@negate").unwrap();
                        call_value(ip.clone(), f, vec![], Some(v.clone())).await
                    }
                    _ => rt("negate on non-number"),
                }
            }
            E::Not(a) => {
                let v = eval(ip.clone(), a.clone(), env.clone()).await?;
                Ok(V::Bool(!v.truthy()))
            }
            E::Bin(Op::And, a, b) => {
                let l = eval(ip.clone(), a.clone(), env.clone()).await?;
                if !l.truthy() {
                    Ok(l)
                } else {
                    eval(ip.clone(), b.clone(), env.clone()).await
                }
            }
            E::Bin(Op::Or, a, b) => {
                let l = eval(ip.clone(), a.clone(), env.clone()).await?;
                if l.truthy() {
                    Ok(l)
                } else {
                    eval(ip.clone(), b.clone(), env.clone()).await
                }
            }
            E::Bin(op, a, b) => {
                let l = eval(ip.clone(), a.clone(), env.clone()).await?;
                let r = eval(ip.clone(), b.clone(), env.clone()).await?;
                binary_op(ip.clone(), *op, l, r).await
            }
            E::Cmp(operands, ops) => {
                let mut l = eval(ip.clone(), operands[0].clone(), env.clone()).await?;
                let mut result = V::Bool(true);
                for (i, op) in ops.iter().enumerate() {
                    let r = eval(ip.clone(), operands[i + 1].clone(), env.clone()).await?;
                    result = compare_op(ip.clone(), *op, l, r.clone()).await?;
                    if !result.truthy() {
                        // short-circuit: remaining operands are not evaluated
                        return Ok(result);
                    }
                    l = r;
                }
                Ok(result)
            }
            E::Assign(t, v) => {
                let val = match (&t, &**v) {
                    // self-reference: functions created directly in the RHS may capture the
                    // name being assigned (deferred capture)
                    (Tgt::Id(n), _) => {
                        let before = PENDING.with(|p| p.borrow_mut().replace((n.clone(), vec![])));
                        let r = eval(ip.clone(), v.clone(), env.clone()).await;
                        let pending = PENDING.with(|p| std::mem::replace(&mut *p.borrow_mut(), before));
                        let val = r?;
                        if let Some((_, closures)) = pending {
                            for c in closures {
                                let mut caps = c.captures.borrow_mut();
                                if let Some(slot) = caps.iter_mut().find(|(k, _)| k == n) {
                                    slot.1 = val.clone();
                                } else {
                                    caps.push((n.clone(), val.clone()));
                                }
                            }
                        }
                        val
                    }
                    _ => eval(ip.clone(), v.clone(), env.clone()).await?,
                };
                assign_target(ip.clone(), t.clone(), val.clone(), env.clone()).await?;
                Ok(val)
            }
            E::OpAssign(op, t, v) => {
                // x op= y  ==  x = x op y ; the target is read first
                let cur = read_target(ip.clone(), t.clone(), env.clone()).await?;
                let r = eval(ip.clone(), v.clone(), env.clone()).await?;
                let val = compound_op(ip.clone(), *op, cur, r).await?;
                assign_target(ip.clone(), t.clone(), val.clone(), env.clone()).await?;
                Ok(val)
            }
            E::MultiAssign(ts, vs) => {
                multi_assign(ip.clone(), ts.iter().map(|t| (t.clone(), None)).collect(), vs.clone(), env.clone()).await
            }
            E::Let(ts, vs) => {
                if ts.len() == 1 {
                    let v = eval(ip.clone(), vs[0].clone(), env.clone()).await?;
                    let (t, h) = &ts[0];
                    if let Some(h) = h {
                        check_hint(&ip, &v, h)?;
                    }
                    assign_target(ip.clone(), t.clone(), v.clone(), env.clone()).await?;
                    Ok(v)
                } else {
                    multi_assign(ip.clone(), ts.clone(), vs.clone(), env.clone()).await
                }
            }
            E::Index(a, i) => {
                let av = eval(ip.clone(), a.clone(), env.clone()).await?;
                let iv = eval(ip.clone(), i.clone(), env.clone()).await?;
                index_value(ip.clone(), av, iv).await
            }
            E::Access(a, k) => {
                let av = eval(ip.clone(), a.clone(), env.clone()).await?;
                access_value(ip.clone(), av, k).await
            }
            E::Call(f, args, _) => {
                // method call: receiver becomes self
                let (fv, this) = match &**f {
                    E::Access(recv, k) => {
                        let rv = eval(ip.clone(), recv.clone(), env.clone()).await?;
                        let fv = access_value(ip.clone(), rv.clone(), k).await?;
                        (fv, Some(rv))
                    }
                    _ => (eval(ip.clone(), f.clone(), env.clone()).await?, None),
                };
                let mut argv = vec![];
                for a in args {
                    match a {
                        Arg::E(e) => argv.push(eval(ip.clone(), e.clone(), env.clone()).await?),
                        Arg::Spread(e) => {
                            let v = eval(ip.clone(), e.clone(), env.clone()).await?;
                            let it = make_iter(ip.clone(), v).await?;
                            while let Some(x) = iter_next(ip.clone(), &it).await? {
                                argv.push(x);
                            }
                        }
                    }
                }
                call_value(ip.clone(), fv, argv, this).await
            }
            E::Pipe(a, f) => {
                let av = eval(ip.clone(), a.clone(), env.clone()).await?;
                match &**f {
                    E::Call(g, args, _) => {
                        let (fv, this) = match &**g {
                            E::Access(recv, k) => {
                                let rv = eval(ip.clone(), recv.clone(), env.clone()).await?;
                                let fv = access_value(ip.clone(), rv.clone(), k).await?;
                                (fv, Some(rv))
                            }
                            _ => (eval(ip.clone(), g.clone(), env.clone()).await?, None),
                        };
                        let mut argv = vec![av];
                        for a in args {
                            match a {
                                Arg::E(e) => argv.push(eval(ip.clone(), e.clone(), env.clone()).await?),
                                Arg::Spread(_) => return Err(Ctl::Unmodelled("spread in pipe".into())),
                            }
                        }
                        call_value(ip.clone(), fv, argv, this).await
                    }
                    _ => {
                        let fv = eval(ip.clone(), f.clone(), env.clone()).await?;
                        call_value(ip.clone(), fv, vec![av], None).await
                    }
                }
            }
            E::If(arms, els) => {
                for (c, b) in arms {
                    let cv = eval(ip.clone(), c.clone(), env.clone()).await?;
                    if cv.truthy() {
                        return eval_block(ip.clone(), b.clone(), env.clone()).await;
                    }
                }
                match els {
                    Some(b) => eval_block(ip.clone(), b.clone(), env.clone()).await,
                    None => Ok(V::Null),
                }
            }
            E::Switch(arms) => {
                for (c, b) in arms {
                    let take = match c {
                        Some(c) => eval(ip.clone(), c.clone(), env.clone()).await?.truthy(),
                        None => true,
                    };
                    if take {
                        return eval_block(ip.clone(), b.clone(), env.clone()).await;
                    }
                }
                Ok(V::Null)
            }
            E::Match(subjects, arms) => {
                let mut subs = vec![];
                for s in subjects {
                    subs.push(eval(ip.clone(), s.clone(), env.clone()).await?);
                }
                for arm in arms {
                    if arm.is_else {
                        return eval_block(ip.clone(), arm.body.clone(), env.clone()).await;
                    }
                    for alt in &arm.alts {
                        let mut binds = vec![];
                        let matched = if alt.len() == subs.len() {
                            let mut ok = true;
                            for (p, sv) in alt.iter().zip(subs.iter()) {
                                if !match_pattern(ip.clone(), p.clone(), sv.clone(), &mut binds, true).await? {
                                    ok = false;
                                    break;
                                }
                            }
                            ok
                        } else if subs.len() == 1 && alt.len() > 1 {
                            return Err(Ctl::Unmodelled("multi-pattern against single subject".into()));
                        } else {
                            return Err(Ctl::Unmodelled("pattern count mismatch".into()));
                        };
                        if !matched {
                            continue;
                        }
                        for (n, v) in &binds {
                            set_env(&env, n, v.clone());
                        }
                        if let Some(g) = &arm.guard {
                            if !eval(ip.clone(), g.clone(), env.clone()).await?.truthy() {
                                continue;
                            }
                        }
                        return eval_block(ip.clone(), arm.body.clone(), env.clone()).await;
                    }
                }
                Ok(V::Null)
            }
            E::While(c, b) => {
                let mut last = V::Null;
                loop {
                    ip.burn()?;
                    if !eval(ip.clone(), c.clone(), env.clone()).await?.truthy() {
                        break;
                    }
                    match eval_block(ip.clone(), b.clone(), env.clone()).await {
                        Ok(v) => last = v,
                        Err(Ctl::Break(v)) => return Ok(v),
                        Err(Ctl::Continue) => last = V::Null,
                        Err(e) => return Err(e),
                    }
                }
                Ok(last)
            }
            E::Until(c, b) => {
                let mut last = V::Null;
                loop {
                    ip.burn()?;
                    if eval(ip.clone(), c.clone(), env.clone()).await?.truthy() {
                        break;
                    }
                    match eval_block(ip.clone(), b.clone(), env.clone()).await {
                        Ok(v) => last = v,
                        Err(Ctl::Break(v)) => return Ok(v),
                        Err(Ctl::Continue) => last = V::Null,
                        Err(e) => return Err(e),
                    }
                }
                Ok(last)
            }
            E::Loop(b) => loop {
                ip.burn()?;
                match eval_block(ip.clone(), b.clone(), env.clone()).await {
                    Ok(_) => {}
                    Err(Ctl::Break(v)) => return Ok(v),
                    Err(Ctl::Continue) => {}
                    Err(e) => return Err(e),
                }
            },
            E::For(args, it, b) => {
                let itv = eval(ip.clone(), it.clone(), env.clone()).await?;
                let iter = make_iter(ip.clone(), itv).await?;
                let mut last = V::Null;
                while let Some(item) = iter_next(ip.clone(), &iter).await? {
                    ip.burn()?;
                    bind_for_args(ip.clone(), args.clone(), item, env.clone()).await?;
                    match eval_block(ip.clone(), b.clone(), env.clone()).await {
                        Ok(v) => last = v,
                        Err(Ctl::Break(v)) => return Ok(v),
                        Err(Ctl::Continue) => last = V::Null,
                        Err(e) => return Err(e),
                    }
                }
                Ok(last)
            }
            E::Break(v) => {
                let val = match v {
                    Some(v) => eval(ip.clone(), v.clone(), env.clone()).await?,
                    None => V::Null,
                };
                Err(Ctl::Break(val))
            }
            E::Continue => Err(Ctl::Continue),
            E::Return(v) => {
                let val = match v {
                    Some(v) => eval(ip.clone(), v.clone(), env.clone()).await?,
                    None => V::Null,
                };
                Err(Ctl::Return(val))
            }
            E::Func(def) => {
                let free = ip.free_vars(def);
                let mut caps = vec![];
                for n in free.iter() {
                    if let Some(v) = lookup_env(&env, n) {
                        caps.push((n.clone(), v));
                    }
                }
                let mut defaults = vec![];
                for a in &def.args {
                    match &a.default {
                        Some(d) => defaults.push(Some(eval(ip.clone(), d.clone(), env.clone()).await?)),
                        None => defaults.push(None),
                    }
                }
                let c = Rc::new(Closure {
                    def: def.clone(),
                    captures: RefCell::new(caps),
                    defaults,
                });
                PENDING.with(|p| {
                    if let Some((n, list)) = p.borrow_mut().as_mut() {
                        if free.iter().any(|f| f == n) {
                            list.push(c.clone());
                        }
                    }
                });
                Ok(V::Func(c))
            }
            E::Yield(v) => {
                let val = eval(ip.clone(), v.clone(), env.clone()).await?;
                let slot = ip.gen_stack.borrow().last().cloned();
                match slot {
                    Some((slot, hint)) => {
                        if let Some(h) = &hint {
                            check_hint(&ip, &val, h)?;
                        }
                        *slot.borrow_mut() = Some(val);
                        YieldOnce(false).await;
                        Ok(V::Null)
                    }
                    None => Err(Ctl::Unmodelled("yield outside generator".into())),
                }
            }
            E::Throw(v) => {
                let val = eval(ip.clone(), v.clone(), env.clone()).await?;
                match &val {
                    V::Str(_) => Err(Ctl::Throw(val)),
                    V::Map(m) if m.has_meta("@display") => Err(Ctl::Throw(val)),
                    // other kinds: "throw" of a non-string without @display is an error
                    _ => rt("throw needs a string or an object with @display"),
                }
            }
            E::Try(body, catches, fin) => {
                let r = eval_block(ip.clone(), body.clone(), env.clone()).await;
                let r = match r {
                    Err(Ctl::Throw(tv)) => run_catches(ip.clone(), catches.clone(), tv, false, env.clone()).await,
                    Err(Ctl::Err(_)) => run_catches(ip.clone(), catches.clone(), V::str(RT_SENTINEL), true, env.clone()).await,
                    other => other,
                };
                match fin {
                    Some(f) => {
                        // finally runs on every path; its value is the expression's value when
                        // control continues normally
                        let fv = eval_block(ip.clone(), f.clone(), env.clone()).await?;
                        match r {
                            Ok(_) => Ok(fv),
                            Err(e) => Err(e),
                        }
                    }
                    None => r,
                }
            }
            E::Export(inner) => match &**inner {
                E::Assign(Tgt::Id(n), v) => {
                    let val = eval(ip.clone(), v.clone(), env.clone()).await?;
                    set_env(&env, n, val.clone());
                    let mut ex = ip.exports.borrow_mut();
                    if let Some(slot) = ex.iter_mut().find(|(k, _)| k == n) {
                        slot.1 = val.clone();
                    } else {
                        ex.push((n.clone(), val.clone()));
                    }
                    Ok(val)
                }
                _ => Err(Ctl::Unmodelled("export form".into())),
            },
            E::Raw(_, inner) => eval(ip.clone(), inner.clone(), env.clone()).await,
        }
    })
}

/// Closures created inside a called function do not belong to the caller's pending assignment.
struct PendingGuard(Option<(Name, Vec<Rc<Closure>>)>);
impl PendingGuard {
    fn enter() -> Self {
        PendingGuard(PENDING.with(|p| p.borrow_mut().take()))
    }
}
impl Drop for PendingGuard {
    fn drop(&mut self) {
        let saved = self.0.take();
        PENDING.with(|p| *p.borrow_mut() = saved);
    }
}

thread_local! {
    /// (name being assigned, closures created in its RHS that mention it)
    static PENDING: RefCell<Option<(Name, Vec<Rc<Closure>>)>> = const { RefCell::new(None) };
}

fn run_catches(ip: Rc<Interp>, catches: Vec<CatchArm>, thrown: V, is_rt: bool, env: Env) -> Fut {
    Box::pin(async move {
        for c in &catches {
            let (name, hint) = match &c.pat {
                Pat::Id(n, h) => (Some(n.clone()), h.clone()),
                Pat::Wild(_, h) => (None, h.clone()),
                _ => return Err(Ctl::Unmodelled("catch pattern".into())),
            };
            let ok = match &hint {
                None => true,
                Some(h) => {
                    if is_rt {
                        // runtime errors bind a String
                        hint_matches(&ip, &V::str("x"), h)?
                    } else {
                        hint_matches(&ip, &thrown, h)?
                    }
                }
            };
            if ok {
                if let Some(n) = name {
                    set_env(&env, &n, thrown.clone());
                }
                return eval_block(ip.clone(), c.body.clone(), env.clone()).await;
            }
        }
        // no catch accepted it: rethrow
        if is_rt { Err(Ctl::Err("rethrown".into())) } else { Err(Ctl::Throw(thrown)) }
    })
}

// ---------------------------------------------------------------------------------------------
// Type hints

pub fn hint_matches(ip: &Rc<Interp>, v: &V, h: &Hint) -> Result<bool, Ctl> {
    if h.optional && matches!(v, V::Null) {
        return Ok(true);
    }
    Ok(match &*h.name {
        "Any" => true,
        "Callable" => match v {
            V::Func(f) if f.def.is_gen => return Err(Ctl::Unmodelled("Callable hint on a generator function".into())),
            V::Func(_) | V::Native(_) => true,
            V::Map(m) => m.has_meta("@call"),
            _ => false,
        },
        "Indexable" => match v {
            V::List(_) | V::Tuple(_) | V::Str(_) | V::Map(_) => match v {
                V::Map(m) => m.meta.borrow().is_none() || m.has_meta("@index") || true,
                _ => true,
            },
            V::Range(a, _, _) => a.is_some(),
            _ => false,
        },
        "Iterable" => match v {
            V::List(_) | V::Tuple(_) | V::Str(_) | V::Map(_) | V::Iter(_) => true,
            V::Range(a, b, _) => a.is_some() && b.is_some(),
            _ => false,
        },
        name => {
            let _ = ip;
            if type_name(v) == name {
                true
            } else if let V::Map(m) = v {
                // follow the @base chain
                let mut cur = m.get_meta("@base");
                let mut found = false;
                let mut depth = 0;
                while let Some(V::Map(b)) = cur {
                    if b.type_name().as_deref() == Some(name) {
                        found = true;
                        break;
                    }
                    depth += 1;
                    if depth > 16 {
                        break;
                    }
                    cur = b.get_meta("@base");
                }
                found
            } else {
                false
            }
        }
    })
}

fn check_hint(ip: &Rc<Interp>, v: &V, h: &Hint) -> Result<(), Ctl> {
    if !ip.type_checks {
        return Ok(());
    }
    if hint_matches(ip, v, h)? { Ok(()) } else { rt("type hint mismatch") }
}

// ---------------------------------------------------------------------------------------------
// Operators

fn meta_op_name(op: Op) -> &'static str {
    match op {
        Op::Add => "+",
        Op::Sub => "-",
        Op::Mul => "*",
        Op::Div => "/",
        Op::Rem => "%",
        Op::Pow => "^",
        _ => "?",
    }
}

fn is_unimplemented(v: &V) -> bool {
    matches!(v, V::Str(s) if &**s == "\u{2}unimplemented\u{2}")
}

pub fn binary_op(ip: Rc<Interp>, op: Op, l: V, r: V) -> Fut {
    Box::pin(async move {
        // numbers
        if l.is_num() && r.is_num() {
            return num_op(op, &l, &r);
        }
        if op == Op::Add {
            match (&l, &r) {
                (V::Str(a), V::Str(b)) => return Ok(V::str(&format!("{a}{b}"))),
                (V::List(a), V::List(b)) => {
                    let mut v = a.borrow().clone();
                    v.extend(b.borrow().iter().cloned());
                    return Ok(V::list(v));
                }
                (V::Tuple(a), V::Tuple(b)) => {
                    let mut v = (**a).clone();
                    v.extend(b.iter().cloned());
                    return Ok(V::tuple(v));
                }
                _ => {}
            }
        }
        let name = meta_op_name(op);
        if let V::Map(m) = &l {
            if let Some(f) = m.get_meta(&format!("@{name}")) {
                match call_value(ip.clone(), f, vec![r.clone()], Some(l.clone())).await {
                    Err(Ctl::Throw(t)) if is_unimplemented(&t) => {
                        // fall back to the rhs
                        if let V::Map(rm) = &r {
                            if let Some(g) = rm.get_meta(&format!("@r{name}")) {
                                return call_value(ip.clone(), g, vec![l.clone()], Some(r.clone())).await;
                            }
                        }
                        return Err(Ctl::Throw(t));
                    }
                    other => return other,
                }
            }
        }
        if let V::Map(rm) = &r {
            if let Some(g) = rm.get_meta(&format!("@r{name}")) {
                return call_value(ip.clone(), g, vec![l.clone()], Some(r.clone())).await;
            }
        }
        if op == Op::Add {
            if let (V::Map(a), V::Map(b)) = (&l, &r) {
                if a.meta.borrow().is_none() && b.meta.borrow().is_none() {
                    let m = MapObj {
                        entries: RefCell::new(a.entries.borrow().clone()),
                        meta: RefCell::new(None),
                    };
                    for (k, v) in b.entries.borrow().iter() {
                        m.insert(k.clone(), v.clone());
                    }
                    return Ok(V::Map(Rc::new(m)));
                }
                return Err(Ctl::Unmodelled("map + map with metamaps".into()));
            }
        }
        rt("invalid binary op")
    })
}

fn num_op(op: Op, l: &V, r: &V) -> R {
    Ok(match (l, r) {
        (V::Int(a), V::Int(b)) => match op {
            Op::Add => V::Int(a.wrapping_add(*b)),
            Op::Sub => V::Int(a.wrapping_sub(*b)),
            Op::Mul => V::Int(a.wrapping_mul(*b)),
            Op::Div => V::Float(*a as f64 / *b as f64),
            Op::Rem => {
                if *b == 0 {
                    return Err(Ctl::Unmodelled("integer remainder by zero".into()));
                }
                V::Int(a.wrapping_rem(*b))
            }
            Op::Pow => {
                if *b < 0 {
                    V::Float((*a as f64).powf(*b as f64))
                } else {
                    V::Int(wrapping_pow_i64(*a, *b as u64))
                }
            }
            _ => unreachable!(),
        },
        _ => {
            let a = l.as_f64().unwrap();
            let b = r.as_f64().unwrap();
            if op == Op::Rem && matches!(r, V::Int(0)) {
                return Err(Ctl::Unmodelled("remainder by integer zero".into()));
            }
            V::Float(match op {
                Op::Add => a + b,
                Op::Sub => a - b,
                Op::Mul => a * b,
                Op::Div => a / b,
                Op::Rem => a % b,
                Op::Pow => a.powf(b),
                _ => unreachable!(),
            })
        }
    })
}

/// a^b with wrapping multiplication, exponent of any size (square-and-multiply)
pub fn wrapping_pow_i64(mut base: i64, mut exp: u64) -> i64 {
    let mut acc: i64 = 1;
    while exp > 0 {
        if exp & 1 == 1 {
            acc = acc.wrapping_mul(base);
        }
        base = base.wrapping_mul(base);
        exp >>= 1;
    }
    acc
}

fn compound_op(ip: Rc<Interp>, op: Op, cur: V, r: V) -> Fut {
    Box::pin(async move {
        if let V::Map(m) = &cur {
            let name = meta_op_name(op);
            if let Some(f) = m.get_meta(&format!("@{name}=")) {
                // the compound metakey's result is ignored: the target keeps the object
                let _ = call_value(ip.clone(), f, vec![r.clone()], Some(cur.clone())).await?;
                return Ok(cur.clone());
            }
            // a map without the compound metakey does not support the compound operator: there
            // is no fallback to the plain operator's metakey (host objects likewise)
            return rt("compound assignment not implemented by this map / object");
        }
        if op == Op::Rem && cur.is_num() && matches!(r, V::Int(0)) {
            return Err(Ctl::Unmodelled("remainder by integer zero".into()));
        }
        binary_op(ip, op, cur, r).await
    })
}

pub fn compare_op(ip: Rc<Interp>, op: CmpOp, l: V, r: V) -> Fut {
    Box::pin(async move {
        // overloaded comparisons on maps with metakeys
        if let V::Map(m) = &l {
            let direct = format!("@{}", op.text());
            if let Some(f) = m.get_meta(&direct) {
                return call_value(ip.clone(), f, vec![r.clone()], Some(l.clone())).await;
            }
            let has_any = ["@==", "@!=", "@<", "@<=", "@>", "@>="].iter().any(|k| m.has_meta(k));
            if has_any {
                // derived operators
                match op {
                    CmpOp::Ne => {
                        if let Some(f) = m.get_meta("@==") {
                            let v = call_value(ip.clone(), f, vec![r.clone()], Some(l.clone())).await?;
                            return Ok(V::Bool(!v.truthy()));
                        }
                    }
                    CmpOp::Le => {
                        // a <= b  <=>  a < b or a == b
                        if let Some(f) = m.get_meta("@<") {
                            let v = call_value(ip.clone(), f, vec![r.clone()], Some(l.clone())).await?;
                            if v.truthy() {
                                return Ok(V::Bool(true));
                            }
                            if let Some(g) = m.get_meta("@==") {
                                let v = call_value(ip.clone(), g, vec![r.clone()], Some(l.clone())).await?;
                                return Ok(V::Bool(v.truthy()));
                            }
                            return Err(Ctl::Unmodelled("<= derived without @==".into()));
                        }
                    }
                    CmpOp::Gt => {
                        // a > b  <=>  not (a < b) and not (a == b)
                        if let Some(f) = m.get_meta("@<") {
                            let v = call_value(ip.clone(), f, vec![r.clone()], Some(l.clone())).await?;
                            if v.truthy() {
                                return Ok(V::Bool(false));
                            }
                            if let Some(g) = m.get_meta("@==") {
                                let v = call_value(ip.clone(), g, vec![r.clone()], Some(l.clone())).await?;
                                return Ok(V::Bool(!v.truthy()));
                            }
                            return Err(Ctl::Unmodelled("> derived without @==".into()));
                        }
                    }
                    CmpOp::Ge => {
                        if let Some(f) = m.get_meta("@<") {
                            let v = call_value(ip.clone(), f, vec![r.clone()], Some(l.clone())).await?;
                            return Ok(V::Bool(!v.truthy()));
                        }
                    }
                    _ => {}
                }
                if !matches!(op, CmpOp::Eq | CmpOp::Ne) {
                    return rt("comparison not implemented by object");
                }
            }
            if m.has_meta("@host") {
                return rt("comparison not implemented by host object");
            }
        }
        match op {
            CmpOp::Eq => Ok(V::Bool(deep_equal(ip.clone(), l, r).await?)),
            CmpOp::Ne => Ok(V::Bool(!deep_equal(ip.clone(), l, r).await?)),
            _ => {
                let ord = match (&l, &r) {
                    (a, b) if a.is_num() && b.is_num() => num_cmp(a, b),
                    (V::Str(a), V::Str(b)) => Some(a.as_bytes().cmp(b.as_bytes())),
                    _ => return rt("invalid comparison"),
                };
                let Some(ord) = ord else {
                    return Err(Ctl::Unmodelled("NaN ordering".into()));
                };
                use std::cmp::Ordering::*;
                Ok(V::Bool(match op {
                    CmpOp::Lt => ord == Less,
                    CmpOp::Le => ord != Greater,
                    CmpOp::Gt => ord == Greater,
                    CmpOp::Ge => ord != Less,
                    _ => unreachable!(),
                }))
            }
        }
    })
}

fn num_cmp(a: &V, b: &V) -> Option<std::cmp::Ordering> {
    match (a, b) {
        (V::Int(x), V::Int(y)) => Some(x.cmp(y)),
        _ => a.as_f64().unwrap().partial_cmp(&b.as_f64().unwrap()),
    }
}

/// structural equality; containers holding objects with @== dispatch to them
fn deep_equal(ip: Rc<Interp>, a: V, b: V) -> Pin<Box<dyn Future<Output = Result<bool, Ctl>>>> {
    Box::pin(async move {
        match (&a, &b) {
            (V::List(x), V::List(y)) => {
                let x = x.borrow().clone();
                let y = y.borrow().clone();
                if x.len() != y.len() {
                    return Ok(false);
                }
                for (p, q) in x.into_iter().zip(y.into_iter()) {
                    if !compare_op(ip.clone(), CmpOp::Eq, p, q).await?.truthy() {
                        return Ok(false);
                    }
                }
                Ok(true)
            }
            (V::Tuple(x), V::Tuple(y)) => {
                if x.len() != y.len() {
                    return Ok(false);
                }
                for (p, q) in x.iter().zip(y.iter()) {
                    if !compare_op(ip.clone(), CmpOp::Eq, p.clone(), q.clone()).await?.truthy() {
                        return Ok(false);
                    }
                }
                Ok(true)
            }
            (V::Map(x), V::Map(y)) => {
                let xe = x.entries.borrow().clone();
                let ye = y.entries.borrow().clone();
                if xe.len() != ye.len() {
                    return Ok(false);
                }
                for (k, v) in xe {
                    let Some((_, v2)) = ye.iter().find(|(k2, _)| values_equal_plain(&k, k2)) else {
                        return Ok(false);
                    };
                    if !compare_op(ip.clone(), CmpOp::Eq, v, v2.clone()).await?.truthy() {
                        return Ok(false);
                    }
                }
                Ok(true)
            }
            (V::Func(_), V::Func(_)) => Err(Ctl::Unmodelled("function equality".into())),
            _ => Ok(values_equal_plain(&a, &b)),
        }
    })
}

// ---------------------------------------------------------------------------------------------
// Indexing, access, assignment

fn index_from(v: &V) -> Result<i64, Ctl> {
    match v {
        V::Int(i) => Ok(*i),
        V::Float(f) => {
            if f.fract() == 0.0 {
                Ok(*f as i64)
            } else {
                Err(Ctl::Unmodelled("fractional index".into()))
            }
        }
        _ => rt("index must be a number"),
    }
}

fn check_index(i: i64, len: usize) -> Result<usize, Ctl> {
    if i < 0 || (i as u64) >= len as u64 {
        rt("index out of bounds")
    } else {
        Ok(i as usize)
    }
}

/// slice bounds clamped to the container, missing bounds are the ends
pub fn slice_bounds(a: Option<i64>, b: Option<i64>, incl: bool, len: usize) -> (usize, usize) {
    let len = len as i128;
    let start = a.map(|x| x as i128).unwrap_or(i64::MIN as i128);
    let end = match b {
        Some(e) => {
            if incl {
                e as i128 + 1
            } else {
                e as i128
            }
        }
        None => i64::MAX as i128,
    };
    let s = start.clamp(0, len);
    let e = end.clamp(s, len);
    (s as usize, e as usize)
}

fn index_value(ip: Rc<Interp>, av: V, iv: V) -> Fut {
    Box::pin(async move {
        if let V::Map(m) = &av {
            if let Some(f) = m.get_meta("@index") {
                return call_value(ip.clone(), f, vec![iv], Some(av.clone())).await;
            }
        }
        if let V::Map(m) = &av {
            if m.has_meta("@host") {
                return rt("index not implemented by host object");
            }
        }
        match (&av, &iv) {
            (V::List(l), V::Range(a, b, incl)) => {
                let l = l.borrow();
                let (s, e) = slice_bounds(*a, *b, *incl, l.len());
                Ok(V::list(l[s..e].to_vec()))
            }
            (V::Tuple(t), V::Range(a, b, incl)) => {
                let (s, e) = slice_bounds(*a, *b, *incl, t.len());
                Ok(V::tuple(t[s..e].to_vec()))
            }
            (V::Str(st), V::Range(a, b, incl)) => {
                let (s, e) = slice_bounds(*a, *b, *incl, st.len());
                if st.is_char_boundary(s) && st.is_char_boundary(e) {
                    Ok(V::str(&st[s..e]))
                } else {
                    rt("slice cuts a character")
                }
            }
            (V::List(l), _) => {
                let i = index_from(&iv)?;
                let l = l.borrow();
                Ok(l[check_index(i, l.len())?].clone())
            }
            (V::Tuple(t), _) => {
                let i = index_from(&iv)?;
                Ok(t[check_index(i, t.len())?].clone())
            }
            (V::Str(st), _) => {
                let i = index_from(&iv)?;
                let i = check_index(i, st.len())?;
                if st.is_char_boundary(i) && st.is_char_boundary(i + 1) {
                    Ok(V::str(&st[i..i + 1]))
                } else {
                    rt("index cuts a character")
                }
            }
            (V::Map(m), _) => {
                let i = index_from(&iv)?;
                let e = m.entries.borrow();
                let (k, v) = &e[check_index(i, e.len())?];
                Ok(V::tuple(vec![k.clone(), v.clone()]))
            }
            (V::Range(Some(a), b, incl), _) if !matches!(iv, V::Range(..)) => {
                let i = index_from(&iv)?;
                if i < 0 {
                    return rt("negative index");
                }
                if let Some(b) = b {
                    let end = if *incl { (*b as i128) + 1 } else { *b as i128 };
                    let size = (end.max(*a as i128) - *a as i128) as i128;
                    if (i as i128) >= size {
                        return rt("index out of bounds");
                    }
                }
                match a.checked_add(i) {
                    Some(r) => Ok(V::Int(r)),
                    None => rt("index out of bounds"),
                }
            }
            _ => rt("not indexable"),
        }
    })
}

fn access_value(ip: Rc<Interp>, av: V, k: &Name) -> Fut {
    let k = k.clone();
    Box::pin(async move {
        match &av {
            V::Map(m) => {
                // @access overrides every '.' access
                if let Some(f) = m.get_meta("@access") {
                    return call_value(ip.clone(), f, vec![V::str(&k)], Some(av.clone())).await;
                }
                if let Some(v) = m.get(&V::str(&k)) {
                    return Ok(v);
                }
                if m.meta.borrow().is_none() {
                    // plain maps fall back to the map module, then to the iterator module
                    for module in ["map", "iterator"] {
                        if crate::knative::has_method(module, &k) {
                            return Ok(V::Native(Rc::new(NativeFn {
                                name: format!("{module}.{k}"),
                                recv: Some(av.clone()),
                            })));
                        }
                    }
                    if crate::knative::known_core_name("map", &k) || crate::knative::known_core_name("iterator", &k) {
                        return Err(Ctl::Unmodelled(format!("map.{k}")));
                    }
                    return rt("key not found");
                }
                // @meta named entries
                if let Some(v) = m.get_meta(&format!("@meta {k}")) {
                    return Ok(v);
                }
                // @base chain
                let mut cur = m.get_meta("@base");
                let mut depth = 0;
                while let Some(V::Map(b)) = cur {
                    if let Some(v) = b.get(&V::str(&k)) {
                        return Ok(v);
                    }
                    if let Some(v) = b.get_meta(&format!("@meta {k}")) {
                        return Ok(v);
                    }
                    depth += 1;
                    if depth > 16 {
                        break;
                    }
                    cur = b.get_meta("@base");
                }
                // objects that are iterable get the iterator module
                if m.has_meta("@iterator") || m.has_meta("@next") {
                    if crate::knative::has_method("iterator", &k) {
                        return Ok(V::Native(Rc::new(NativeFn {
                            name: format!("iterator.{k}"),
                            recv: Some(av.clone()),
                        })));
                    }
                    if crate::knative::known_core_name("iterator", &k) {
                        return Err(Ctl::Unmodelled(format!("iterator.{k}")));
                    }
                }
                rt("key not found")
            }
            V::Native(n) if n.name == "module:koto" && &*k == "unimplemented" => Ok(V::str("\u{2}unimplemented\u{2}")),
            V::Native(n) if n.name.starts_with("module:") => {
                let module = &n.name[7..];
                if crate::knative::has_method(module, &k) {
                    Ok(V::Native(Rc::new(NativeFn {
                        name: format!("{module}.{k}"),
                        recv: None,
                    })))
                } else {
                    Err(Ctl::Unmodelled(format!("{module}.{k}")))
                }
            }
            other => {
                let module = match other {
                    V::List(_) => "list",
                    V::Tuple(_) => "tuple",
                    V::Str(_) => "string",
                    V::Range(..) => "range",
                    V::Int(_) | V::Float(_) => "number",
                    V::Iter(_) => "iterator",
                    V::Out(_) => "out",
                    _ => return rt("no such member"),
                };
                if crate::knative::has_method(module, &k) {
                    Ok(V::Native(Rc::new(NativeFn {
                        name: format!("{module}.{k}"),
                        recv: Some(av.clone()),
                    })))
                } else if module != "iterator"
                    && matches!(other, V::List(_) | V::Tuple(_) | V::Str(_) | V::Range(..))
                    && crate::knative::has_method("iterator", &k)
                {
                    Ok(V::Native(Rc::new(NativeFn {
                        name: format!("iterator.{k}"),
                        recv: Some(av.clone()),
                    })))
                } else if crate::knative::real_core_has(module, &k)
                    || (matches!(other, V::List(_) | V::Tuple(_) | V::Str(_) | V::Range(..) | V::Iter(_)) && crate::knative::real_core_has("iterator", &k))
                {
                    // exists in the real library but is not modelled here
                    Err(Ctl::Unmodelled(format!("{module}.{k}")))
                } else {
                    rt("no such member")
                }
            }
        }
    })
}

fn read_target(ip: Rc<Interp>, t: Tgt, env: Env) -> Fut {
    Box::pin(async move {
        match t {
            Tgt::Id(n) => ip.lookup(&env, &n),
            Tgt::Wild(_) => rt("cannot read ignored id"),
            Tgt::Index(a, i) => {
                let av = eval(ip.clone(), a, env.clone()).await?;
                let iv = eval(ip.clone(), i, env.clone()).await?;
                index_value(ip.clone(), av, iv).await
            }
            Tgt::Access(a, k) => {
                let av = eval(ip.clone(), a, env.clone()).await?;
                access_value(ip.clone(), av, &k).await
            }
        }
    })
}

fn assign_target(ip: Rc<Interp>, t: Tgt, val: V, env: Env) -> Fut {
    Box::pin(async move {
        match t {
            Tgt::Id(n) => {
                set_env(&env, &n, val);
                Ok(V::Null)
            }
            Tgt::Wild(_) => Ok(V::Null),
            Tgt::Index(a, i) => {
                let av = eval(ip.clone(), a, env.clone()).await?;
                let iv = eval(ip.clone(), i, env.clone()).await?;
                if let V::Map(m) = &av {
                    if let Some(f) = m.get_meta("@index_assign") {
                        call_value(ip.clone(), f, vec![iv, val], Some(av.clone())).await?;
                        return Ok(V::Null);
                    }
                }
                match (&av, &iv) {
                    (V::List(l), V::Range(a, b, incl)) => {
                        let mut l = l.borrow_mut();
                        let (s, e) = slice_bounds(*a, *b, *incl, l.len());
                        for x in l[s..e].iter_mut() {
                            *x = val.clone();
                        }
                        Ok(V::Null)
                    }
                    (V::List(l), _) => {
                        let i = index_from(&iv)?;
                        let mut l = l.borrow_mut();
                        let i = check_index(i, l.len())?;
                        l[i] = val;
                        Ok(V::Null)
                    }
                    (V::Map(m), _) => {
                        let i = index_from(&iv)?;
                        let mut e = m.entries.borrow_mut();
                        let i = check_index(i, e.len())?;
                        match &val {
                            V::Tuple(t) if t.len() == 2 => {
                                let (nk, nv) = (t[0].clone(), t[1].clone());
                                // the entry at i is replaced; if the new key already exists elsewhere,
                                // that entry moves into position i (clamped to the end) with the new
                                // value, all other entries keep their relative order
                                e.remove(i);
                                if let Some(j) = e.iter().position(|(k, _)| values_equal_plain(k, &nk)) {
                                    e.remove(j);
                                }
                                let at = i.min(e.len());
                                e.insert(at, (nk, nv));
                                Ok(V::Null)
                            }
                            _ => rt("map index assignment needs a (key, value) tuple"),
                        }
                    }
                    _ => rt("not index-assignable"),
                }
            }
            Tgt::Access(a, k) => {
                let av = eval(ip.clone(), a, env.clone()).await?;
                match &av {
                    V::Map(m) => {
                        if let Some(f) = m.get_meta("@access_assign") {
                            call_value(ip.clone(), f, vec![V::str(&k), val], Some(av.clone())).await?;
                            return Ok(V::Null);
                        }
                        m.insert(V::str(&k), val);
                        Ok(V::Null)
                    }
                    _ => rt("access-assign on non-map"),
                }
            }
        }
    })
}

fn multi_assign(ip: Rc<Interp>, ts: Vec<(Tgt, Option<Hint>)>, vs: Vec<X>, env: Env) -> Fut {
    Box::pin(async move {
        if vs.len() == 1 {
            // unpack a single value
            let v = eval(ip.clone(), vs[0].clone(), env.clone()).await?;
            let items: Vec<V> = match &v {
                V::List(_) | V::Tuple(_) | V::Str(_) | V::Map(_) | V::Iter(_) | V::Range(..) => {
                    if let V::Range(a, b, _) = &v {
                        if a.is_none() || b.is_none() {
                            return Err(Ctl::Unmodelled("unpacking an unbounded range".into()));
                        }
                    }
                    let it = make_iter(ip.clone(), v.clone()).await?;
                    let mut items = vec![];
                    for _ in 0..ts.len() {
                        match iter_next(ip.clone(), &it).await? {
                            Some(x) => items.push(x),
                            None => break,
                        }
                    }
                    items
                }
                _ => vec![v.clone()],
            };
            for (i, (t, h)) in ts.iter().enumerate() {
                let val = items.get(i).cloned().unwrap_or(V::Null);
                if let Some(h) = h {
                    check_hint(&ip, &val, h)?;
                }
                assign_target(ip.clone(), t.clone(), val, env.clone()).await?;
            }
            Ok(v)
        } else {
            // the whole right side is evaluated before binding
            let mut vals = vec![];
            for v in &vs {
                vals.push(eval(ip.clone(), v.clone(), env.clone()).await?);
            }
            for (i, (t, h)) in ts.iter().enumerate() {
                let val = vals.get(i).cloned().unwrap_or(V::Null);
                if let Some(h) = h {
                    check_hint(&ip, &val, h)?;
                }
                assign_target(ip.clone(), t.clone(), val, env.clone()).await?;
            }
            Ok(V::tuple(vals))
        }
    })
}

// ---------------------------------------------------------------------------------------------
// Patterns

/// Matches `p` against `v`; on success appends bindings. `in_match`: literal patterns and
/// non-matching sizes fail softly (false); in argument/for position they are errors.
pub fn match_pattern<'a>(
    ip: Rc<Interp>,
    p: Pat,
    v: V,
    binds: &'a mut Vec<(Name, V)>,
    in_match: bool,
) -> Pin<Box<dyn Future<Output = Result<bool, Ctl>> + 'a>> {
    Box::pin(async move {
        match &p {
            Pat::Id(n, h) => {
                if let Some(h) = h {
                    if in_match {
                        if !hint_matches(&ip, &v, h)? {
                            return Ok(false);
                        }
                    } else {
                        check_hint(&ip, &v, h)?;
                    }
                }
                binds.push((n.clone(), v));
                Ok(true)
            }
            Pat::Wild(_, h) => {
                if let Some(h) = h {
                    if in_match {
                        if !hint_matches(&ip, &v, h)? {
                            return Ok(false);
                        }
                    } else {
                        check_hint(&ip, &v, h)?;
                    }
                }
                Ok(true)
            }
            Pat::Lit(e) => {
                let env: Env = Rc::new(RefCell::new(vec![]));
                let lv = eval(ip.clone(), e.clone(), env).await?;
                Ok(compare_op(ip.clone(), CmpOp::Eq, v, lv).await?.truthy())
            }
            Pat::Ellipsis(_) => Err(Ctl::Unmodelled("ellipsis outside tuple pattern".into())),
            Pat::Tuple(ps, h) => {
                if let Some(h) = h {
                    if in_match {
                        if !hint_matches(&ip, &v, h)? {
                            return Ok(false);
                        }
                    } else {
                        check_hint(&ip, &v, h)?;
                    }
                }
                // the value must be indexable with a size
                let items: Vec<V> = match &v {
                    V::List(l) => l.borrow().clone(),
                    V::Tuple(t) => (**t).clone(),
                    V::Range(Some(a), Some(b), incl) => {
                        let end = if *incl { *b as i128 + 1 } else { *b as i128 };
                        let n = (end.max(*a as i128) - *a as i128).min(64) as i64;
                        (0..n).map(|i| V::Int(a + i)).collect()
                    }
                    V::Str(st) => {
                        if !st.is_ascii() {
                            return Err(Ctl::Unmodelled("unpacking a non-ASCII string by index".into()));
                        }
                        st.chars().map(|c| V::str(&c.to_string())).collect()
                    }
                    V::Map(m) if m.meta.borrow().is_none() => m
                        .entries
                        .borrow()
                        .iter()
                        .map(|(k, val)| V::tuple(vec![k.clone(), val.clone()]))
                        .collect(),
                    V::Map(m) if !(m.has_meta("@size") && m.has_meta("@index")) => {
                        return Err(Ctl::Unmodelled("tuple pattern against an object without @size/@index".into()));
                    }
                    V::Map(m) if m.has_meta("@size") && m.has_meta("@index") => {
                        let sz = call_value(ip.clone(), m.get_meta("@size").unwrap(), vec![], Some(v.clone())).await?;
                        let n = match sz {
                            V::Int(n) if n >= 0 => n,
                            _ => return rt("@size must return a non-negative number"),
                        };
                        let mut items = vec![];
                        for i in 0..n {
                            items.push(
                                call_value(ip.clone(), m.get_meta("@index").unwrap(), vec![V::Int(i)], Some(v.clone())).await?,
                            );
                        }
                        items
                    }
                    _ => {
                        if in_match {
                            return Ok(false);
                        } else {
                            return rt("expected an indexable value to unpack");
                        }
                    }
                };
                let ell = ps.iter().position(|p| matches!(p, Pat::Ellipsis(_)));
                match ell {
                    None => {
                        if items.len() != ps.len() {
                            if in_match {
                                return Ok(false);
                            } else {
                                return rt("unpacked size mismatch");
                            }
                        }
                        for (sp, item) in ps.iter().zip(items.into_iter()) {
                            if !match_pattern(ip.clone(), sp.clone(), item, binds, in_match).await? {
                                return Ok(false);
                            }
                        }
                        Ok(true)
                    }
                    Some(pos) => {
                        let fixed = ps.len() - 1;
                        if items.len() < fixed {
                            if in_match {
                                return Ok(false);
                            } else {
                                return rt("unpacked size mismatch");
                            }
                        }
                        let rest_len = items.len() - fixed;
                        let before = &ps[..pos];
                        let after = &ps[pos + 1..];
                        for (sp, item) in before.iter().zip(items.iter()) {
                            if !match_pattern(ip.clone(), sp.clone(), item.clone(), binds, in_match).await? {
                                return Ok(false);
                            }
                        }
                        if let Pat::Ellipsis(Some(n)) = &ps[pos] {
                            if matches!(v, V::Map(_) | V::Str(_) | V::Range(..)) {
                                // the guide only documents "captured in a tuple" for sequences
                                return Err(Ctl::Unmodelled("named ellipsis over a map/string".into()));
                            }
                            let rest: Vec<V> = items[pos..pos + rest_len].to_vec();
                            let rv = match &v {
                                V::List(_) => V::list(rest),
                                _ => V::tuple(rest),
                            };
                            binds.push((n.clone(), rv));
                        }
                        for (sp, item) in after.iter().zip(items[pos + rest_len..].iter()) {
                            if !match_pattern(ip.clone(), sp.clone(), item.clone(), binds, in_match).await? {
                                return Ok(false);
                            }
                        }
                        Ok(true)
                    }
                }
            }
            Pat::TypedMap(inner, h) => {
                if in_match {
                    if !hint_matches(&ip, &v, h)? {
                        return Ok(false);
                    }
                } else {
                    check_hint(&ip, &v, h)?;
                }
                match_pattern(ip.clone(), (**inner).clone(), v.clone(), binds, in_match).await
            }
            Pat::Map(entries) => {
                for (k, rebind, h) in entries {
                    let key: Name = match k {
                        MK::Id(n) => n.clone(),
                        MK::Str(t) => t.as_str().into(),
                        MK::Meta(..) => return Err(Ctl::Unmodelled("meta key in map pattern".into())),
                    };
                    let got = match &v {
                        V::Map(_) => match access_value(ip.clone(), v.clone(), &key).await {
                            Ok(x) => Some(x),
                            Err(Ctl::Err(_)) => None,
                            Err(e) => return Err(e),
                        },
                        _ => None,
                    };
                    let Some(val) = got else {
                        if in_match {
                            return Ok(false);
                        } else {
                            return rt("missing key while unpacking");
                        }
                    };
                    if let Some(h) = h {
                        if in_match {
                            if !hint_matches(&ip, &val, h)? {
                                return Ok(false);
                            }
                        } else {
                            check_hint(&ip, &val, h)?;
                        }
                    }
                    let name = rebind.clone().unwrap_or(key);
                    binds.push((name, val));
                }
                Ok(true)
            }
        }
    })
}

fn bind_for_args(ip: Rc<Interp>, args: Vec<Pat>, item: V, env: Env) -> Fut {
    Box::pin(async move {
        let mut binds = vec![];
        if args.len() == 1 {
            match &args[0] {
                Pat::Tuple(..) | Pat::Map(..) | Pat::Id(..) | Pat::Wild(..) => {
                    if !match_pattern(ip.clone(), args[0].clone(), item, &mut binds, false).await? {
                        return rt("for argument did not match");
                    }
                }
                _ => return Err(Ctl::Unmodelled("for arg".into())),
            }
        } else {
            // several arguments: the element is unpacked, missing values are null
            let items: Vec<V> = match &item {
                V::List(l) => l.borrow().clone(),
                V::Tuple(t) => (**t).clone(),
                V::Str(_) | V::Map(_) | V::Iter(_) | V::Range(Some(_), Some(_), _) => {
                    let it = make_iter(ip.clone(), item.clone()).await?;
                    let mut items = vec![];
                    for _ in 0..args.len() {
                        match iter_next(ip.clone(), &it).await? {
                            Some(x) => items.push(x),
                            None => break,
                        }
                    }
                    items
                }
                _ => vec![item.clone()],
            };
            for (i, a) in args.iter().enumerate() {
                let val = items.get(i).cloned().unwrap_or(V::Null);
                if !match_pattern(ip.clone(), a.clone(), val, &mut binds, false).await? {
                    return rt("for argument did not match");
                }
            }
        }
        for (n, v) in binds {
            set_env(&env, &n, v);
        }
        Ok(V::Null)
    })
}

// ---------------------------------------------------------------------------------------------
// Calls

pub fn call_value(ip: Rc<Interp>, f: V, args: Vec<V>, this: Option<V>) -> Fut {
    Box::pin(async move {
        ip.burn()?;
        match &f {
            V::Func(c) => {
                let env = bind_args(ip.clone(), c.clone(), args, this).await?;
                let _guard = PendingGuard::enter();
                if c.def.is_gen {
                    // create a suspended generator
                    let slot = Rc::new(RefCell::new(None));
                    let ip2 = ip.clone();
                    let body = c.def.body.clone();
                    let hint = c.def.out_hint.clone();
                    let fut: Fut = Box::pin(async move {
                        match eval_block(ip2, body, env).await {
                            Ok(_) | Err(Ctl::Return(_)) => Ok(V::Null),
                            Err(e) => Err(e),
                        }
                    });
                    Ok(V::Iter(Rc::new(IterObj {
                        state: RefCell::new(IterState::Gen(Box::new(GenState { fut: Some(fut), slot, hint }))),
                    })))
                } else {
                    let r = match eval_block(ip.clone(), c.def.body.clone(), env).await {
                        Ok(v) => v,
                        Err(Ctl::Return(v)) => v,
                        Err(Ctl::Break(_)) | Err(Ctl::Continue) => {
                            return Err(Ctl::Unmodelled("break/continue escaping a function".into()));
                        }
                        Err(e) => return Err(e),
                    };
                    if let Some(h) = &c.def.out_hint {
                        check_hint(&ip, &r, h)?;
                    }
                    Ok(r)
                }
            }
            V::Native(n) => crate::knative::call_native(ip.clone(), n.clone(), args, this).await,
            V::Map(m) => match m.get_meta("@call") {
                Some(g) => call_value(ip.clone(), g, args, Some(f.clone())).await,
                None => rt("map is not callable"),
            },
            _ => rt("not callable"),
        }
    })
}

fn bind_args(ip: Rc<Interp>, c: Rc<Closure>, args: Vec<V>, this: Option<V>) -> Pin<Box<dyn Future<Output = Result<Env, Ctl>>>> {
    Box::pin(async move {
        let def = &c.def;
        let env: Env = Rc::new(RefCell::new(c.captures.borrow().clone()));
        if let Some(t) = this {
            env.borrow_mut().push(("self".into(), t));
        }
        let n_params = def.args.len();
        let n_fixed = if def.variadic { n_params - 1 } else { n_params };
        let required = def.args[..n_fixed].iter().zip(c.defaults.iter()).filter(|(_, d)| d.is_none()).count();
        if args.len() < required {
            return rt("insufficient arguments");
        }
        if !def.variadic && args.len() > n_params {
            return rt("too many arguments");
        }
        let mut binds = vec![];
        for i in 0..n_fixed {
            let val = if i < args.len() {
                args[i].clone()
            } else {
                match &c.defaults[i] {
                    Some(d) => d.clone(),
                    None => return rt("insufficient arguments"),
                }
            };
            if !match_pattern(ip.clone(), def.args[i].pat.clone(), val, &mut binds, false).await? {
                return rt("argument did not match");
            }
        }
        if def.variadic {
            let rest: Vec<V> = if args.len() > n_fixed { args[n_fixed..].to_vec() } else { vec![] };
            if !match_pattern(ip.clone(), def.args[n_fixed].pat.clone(), V::tuple(rest), &mut binds, false).await? {
                return rt("argument did not match");
            }
        }
        for (n, v) in binds {
            set_env(&env, &n, v);
        }
        Ok(env)
    })
}

// ---------------------------------------------------------------------------------------------
// Iteration

pub fn make_iter(ip: Rc<Interp>, v: V) -> Pin<Box<dyn Future<Output = Result<Rc<IterObj>, Ctl>>>> {
    Box::pin(async move {
        let st = match &v {
            V::List(l) => IterState::List(l.clone(), 0),
            V::Tuple(t) => IterState::Tuple(t.clone(), 0),
            V::Str(s) => IterState::Str(s.clone(), 0),
            V::Range(Some(a), Some(b), incl) => {
                if a <= b {
                    let end = if *incl {
                        if *b == i64::MAX {
                            return Err(Ctl::Unmodelled("inclusive range to i64::MAX".into()));
                        }
                        b + 1
                    } else {
                        *b
                    };
                    IterState::Range(*a, end, 1)
                } else {
                    // descending ranges are empty (source doc + repository tests)
                    IterState::Range(0, 0, 1)
                }
            }
            V::Range(..) => return rt("unbounded range is not iterable"),
            V::Map(m) => {
                if m.has_meta("@next") {
                    return Ok(Rc::new(IterObj { state: RefCell::new(IterState::MetaNext(v.clone())) }));
                }
                if let Some(f) = m.get_meta("@iterator") {
                    let r = call_value(ip.clone(), f, vec![], Some(v.clone())).await?;
                    return make_iter(ip.clone(), r).await;
                }
                IterState::Map(m.clone(), 0)
            }
            V::Iter(it) => return Ok(it.clone()),
            _ => return rt("not iterable"),
        };
        Ok(Rc::new(IterObj { state: RefCell::new(st) }))
    })
}

pub fn iter_next(ip: Rc<Interp>, it: &Rc<IterObj>) -> Pin<Box<dyn Future<Output = Result<Option<V>, Ctl>>>> {
    let it = it.clone();
    Box::pin(async move {
        ip.burn()?;
        // generators are polled outside of the state borrow
        let gen_parts = {
            let mut st = it.state.borrow_mut();
            match &mut *st {
                IterState::Gen(g) => Some((g.fut.take(), g.slot.clone(), g.hint.clone())),
                _ => None,
            }
        };
        if let Some((fut, slot, hint)) = gen_parts {
            let Some(mut fut) = fut else {
                return Ok(None);
            };
            ip.gen_stack.borrow_mut().push((slot.clone(), hint));
            let waker = noop_waker();
            let mut cx = Context::from_waker(&waker);
            let polled = fut.as_mut().poll(&mut cx);
            ip.gen_stack.borrow_mut().pop();
            return match polled {
                Poll::Pending => {
                    let v = slot.borrow_mut().take();
                    if let IterState::Gen(g) = &mut *it.state.borrow_mut() {
                        g.fut = Some(fut);
                    }
                    match v {
                        Some(v) => Ok(Some(v)),
                        None => Err(Ctl::Unmodelled("pending without a yielded value".into())),
                    }
                }
                Poll::Ready(Ok(_)) => {
                    *it.state.borrow_mut() = IterState::Done;
                    Ok(None)
                }
                Poll::Ready(Err(e)) => {
                    *it.state.borrow_mut() = IterState::Done;
                    Err(e)
                }
            };
        }
        let meta_next = {
            let st = it.state.borrow();
            match &*st {
                IterState::MetaNext(o) => Some(o.clone()),
                _ => None,
            }
        };
        if let Some(o) = meta_next {
            let V::Map(m) = &o else { unreachable!() };
            let f = m.get_meta("@next").unwrap();
            let r = call_value(ip.clone(), f, vec![], Some(o.clone())).await?;
            return Ok(match r {
                V::Null => None,
                v => Some(v),
            });
        }
        let adapt_parts = {
            let st = it.state.borrow();
            match &*st {
                IterState::Adapt(src, f, kind) => Some((src.clone(), f.clone(), *kind)),
                _ => None,
            }
        };
        if let Some((src, f, kind)) = adapt_parts {
            loop {
                let Some(item) = iter_next(ip.clone(), &src).await? else {
                    return Ok(None);
                };
                let r = call_value(ip.clone(), f.clone(), vec![item.clone()], None).await?;
                match kind {
                    0 => return Ok(Some(r)),
                    _ => match r {
                        V::Bool(true) => return Ok(Some(item)),
                        V::Bool(false) => continue,
                        _ => return Err(Ctl::Err("keep: predicate must return a Bool".into())),
                    },
                }
            }
        }
        let mut st = it.state.borrow_mut();
        Ok(match &mut *st {
            IterState::List(l, i) => {
                let l = l.borrow();
                if *i < l.len() {
                    *i += 1;
                    Some(l[*i - 1].clone())
                } else {
                    None
                }
            }
            IterState::Tuple(t, i) => {
                if *i < t.len() {
                    *i += 1;
                    Some(t[*i - 1].clone())
                } else {
                    None
                }
            }
            IterState::Range(cur, end, step) => {
                if (*step > 0 && *cur < *end) || (*step < 0 && *cur > *end) {
                    let v = *cur;
                    *cur += *step;
                    Some(V::Int(v))
                } else {
                    None
                }
            }
            IterState::RangeFrom(cur) => {
                let v = *cur;
                *cur += 1;
                Some(V::Int(v))
            }
            IterState::Str(s, off) => {
                use unicode_segmentation::UnicodeSegmentation;
                let rest = &s[*off..];
                match rest.graphemes(true).next() {
                    Some(g) => {
                        *off += g.len();
                        Some(V::str(g))
                    }
                    None => None,
                }
            }
            IterState::Map(m, i) => {
                let e = m.entries.borrow();
                if *i < e.len() {
                    *i += 1;
                    let (k, v) = &e[*i - 1];
                    Some(V::tuple(vec![k.clone(), v.clone()]))
                } else {
                    None
                }
            }
            IterState::Seq(v, i) => {
                if *i < v.len() {
                    *i += 1;
                    Some(v[*i - 1].clone())
                } else {
                    None
                }
            }
            IterState::Gen(_) | IterState::Adapt(..) | IterState::MetaNext(_) => unreachable!(),
            IterState::Done => None,
        })
    })
}
