//! A host-defined object (through the repository's own derive macros and KotoObject trait) whose
//! set of implemented operations is a bitmask parameter. Every implemented operation writes a
//! line to the script's stdout capture, in the same format as kref's model of it.

use koto_runtime::{Result, derive::*, prelude::*};
use std::cell::RefCell;

thread_local! {
    pub static CURRENT_CAP: RefCell<Option<crate::run::Capture>> = const { RefCell::new(None) };
}

fn out(line: String) {
    CURRENT_CAP.with(|c| {
        if let Some(c) = c.borrow().as_ref() {
            let mut g = c.0.lock().unwrap();
            g.push_str(&line);
            g.push('\n');
        }
    });
}

pub const OPS: [&str; 6] = ["+", "-", "*", "/", "%", "^"];
pub const BIT_RHS: u32 = 6;
pub const BIT_ASSIGN: u32 = 12;
pub const BIT_LESS: u32 = 18;
pub const BIT_EQUAL: u32 = 19;
pub const BIT_NEGATE: u32 = 20;
pub const BIT_INDEX: u32 = 21;
pub const BIT_CALL: u32 = 22;
pub const BIT_DISPLAY: u32 = 23;
/// overrides `less_or_equal` with an answer (always true) that differs from `less || equal`
pub const BIT_LESS_OR_EQUAL: u32 = 24;

#[derive(Clone, Debug, KotoCopy, KotoType)]
#[koto(runtime = koto_runtime)]
pub struct HostObj {
    tag: KString,
    mask: u32,
    val: i64,
}

#[koto_impl(runtime = koto_runtime)]
impl HostObj {
    #[koto_get]
    fn tag(&self) -> KValue {
        self.tag.clone().into()
    }

    #[koto_get]
    fn val(&self) -> KValue {
        self.val.into()
    }

    #[koto_method]
    fn describe(&self) -> KValue {
        format!("host {}", self.tag).into()
    }

    #[koto_method]
    fn bump(&mut self) -> KValue {
        self.val += 1;
        self.val.into()
    }
}

pub fn rp(v: &KValue) -> String {
    match v {
        KValue::Object(o) => match o.cast::<HostObj>() {
            Ok(h) => format!("'<{}>'", h.tag),
            Err(_) => "'<?>'".into(),
        },
        KValue::Map(m) => match m.get("tag") {
            Some(KValue::Str(s)) => format!("'<{s}>'"),
            _ => "'<map>'".into(),
        },
        KValue::Number(n) => format!("{n}"),
        KValue::Str(s) => format!("'{s}'"),
        KValue::List(_) => "'<list>'".into(),
        _ => "'<other>'".into(),
    }
}

impl HostObj {
    fn has(&self, bit: u32) -> bool {
        self.mask & (1 << bit) != 0
    }
    fn unimpl<T>(&self, name: &'static str) -> Result<T> {
        Err(koto_runtime::ErrorKind::Unimplemented { fn_name: name, object_type: self.type_string() }.into())
    }
    fn bin(&self, i: u32, other: &KValue, name: &'static str) -> Result<KValue> {
        if self.has(i) {
            out(format!("('host@{}', '{}', {})", OPS[i as usize], self.tag, rp(other)));
            Ok("hres-l".into())
        } else {
            self.unimpl(name)
        }
    }
    fn bin_rhs(&self, i: u32, other: &KValue, name: &'static str) -> Result<KValue> {
        if self.has(BIT_RHS + i) {
            out(format!("('host@r{}', '{}', {})", OPS[i as usize], self.tag, rp(other)));
            Ok("hres-r".into())
        } else {
            self.unimpl(name)
        }
    }
    fn assign(&mut self, i: u32, other: &KValue, name: &'static str) -> Result<()> {
        if self.has(BIT_ASSIGN + i) {
            out(format!("('host@{}=', '{}', {})", OPS[i as usize], self.tag, rp(other)));
            self.val += 10;
            Ok(())
        } else {
            self.unimpl(name)
        }
    }
}

impl KotoObject for HostObj {
    fn display(&self, ctx: &mut DisplayContext) -> Result<()> {
        if self.has(BIT_DISPLAY) {
            ctx.append(format!("HOST({})", self.tag));
        } else {
            ctx.append("HostObj");
        }
        Ok(())
    }
    fn negate(&self) -> Result<KValue> {
        if self.has(BIT_NEGATE) {
            out(format!("('host@negate', '{}')", self.tag));
            Ok("hnegated".into())
        } else {
            self.unimpl("@negate")
        }
    }
    fn index(&self, index: &KValue) -> Result<KValue> {
        if self.has(BIT_INDEX) {
            out(format!("('host@index', '{}', {})", self.tag, rp(index)));
            match index {
                KValue::Number(n) => Ok((i64::from(n) * 10).into()),
                _ => Ok(KValue::Null),
            }
        } else {
            self.unimpl("@index")
        }
    }
    fn size(&self) -> Option<usize> {
        if self.has(BIT_INDEX) { Some(2) } else { None }
    }
    fn is_callable(&self) -> bool {
        self.has(BIT_CALL)
    }
    fn call(&mut self, ctx: &mut CallContext) -> Result<KValue> {
        if self.has(BIT_CALL) {
            let a = ctx.args().first().map(rp).unwrap_or_default();
            out(format!("('host@call', '{}', {})", self.tag, a));
            Ok("hcalled".into())
        } else {
            self.unimpl("@call")
        }
    }
    fn add(&self, o: &KValue) -> Result<KValue> {
        self.bin(0, o, "@+")
    }
    fn subtract(&self, o: &KValue) -> Result<KValue> {
        self.bin(1, o, "@-")
    }
    fn multiply(&self, o: &KValue) -> Result<KValue> {
        self.bin(2, o, "@*")
    }
    fn divide(&self, o: &KValue) -> Result<KValue> {
        self.bin(3, o, "@/")
    }
    fn remainder(&self, o: &KValue) -> Result<KValue> {
        self.bin(4, o, "@%")
    }
    fn power(&self, o: &KValue) -> Result<KValue> {
        self.bin(5, o, "@^")
    }
    fn add_rhs(&self, o: &KValue) -> Result<KValue> {
        self.bin_rhs(0, o, "@r+")
    }
    fn subtract_rhs(&self, o: &KValue) -> Result<KValue> {
        self.bin_rhs(1, o, "@r-")
    }
    fn multiply_rhs(&self, o: &KValue) -> Result<KValue> {
        self.bin_rhs(2, o, "@r*")
    }
    fn divide_rhs(&self, o: &KValue) -> Result<KValue> {
        self.bin_rhs(3, o, "@r/")
    }
    fn remainder_rhs(&self, o: &KValue) -> Result<KValue> {
        self.bin_rhs(4, o, "@r%")
    }
    fn power_rhs(&self, o: &KValue) -> Result<KValue> {
        self.bin_rhs(5, o, "@r^")
    }
    fn add_assign(&mut self, o: &KValue) -> Result<()> {
        self.assign(0, o, "@+=")
    }
    fn subtract_assign(&mut self, o: &KValue) -> Result<()> {
        self.assign(1, o, "@-=")
    }
    fn multiply_assign(&mut self, o: &KValue) -> Result<()> {
        self.assign(2, o, "@*=")
    }
    fn divide_assign(&mut self, o: &KValue) -> Result<()> {
        self.assign(3, o, "@/=")
    }
    fn remainder_assign(&mut self, o: &KValue) -> Result<()> {
        self.assign(4, o, "@%=")
    }
    fn power_assign(&mut self, o: &KValue) -> Result<()> {
        self.assign(5, o, "@^=")
    }
    fn less(&self, o: &KValue) -> Result<bool> {
        if self.has(BIT_LESS) {
            out(format!("('host@<', '{}', {})", self.tag, rp(o)));
            Ok(false)
        } else {
            self.unimpl("@<")
        }
    }
    fn less_or_equal(&self, o: &KValue) -> Result<bool> {
        if self.has(BIT_LESS_OR_EQUAL) {
            out(format!("('host@<=', '{}', {})", self.tag, rp(o)));
            Ok(true)
        } else {
            // the documented default
            Ok(self.less(o)? || self.equal(o)?)
        }
    }
    fn equal(&self, o: &KValue) -> Result<bool> {
        if self.has(BIT_EQUAL) {
            out(format!("('host@==', '{}', {})", self.tag, rp(o)));
            Ok(false)
        } else {
            self.unimpl("@==")
        }
    }
}

pub fn install(prelude: &KMap) {
    prelude.add_fn("mkhost", |ctx| match ctx.args() {
        [KValue::Str(tag), KValue::Number(mask)] => Ok(KObject::from(HostObj {
            tag: tag.clone(),
            mask: i64::from(mask) as u32,
            val: 1,
        })
        .into()),
        unexpected => unexpected_args("|String, Number|", unexpected),
    });
}
