//! C16 family: hint positions x hint names x runtime values; every program runs with type checks
//! enabled and disabled.

use crate::common::Tier;
use crate::kast::*;
use crate::progmc::*;
use std::rc::Rc;

fn h(name: &str, optional: bool) -> Hint {
    Hint { name: name.into(), optional }
}

fn mm(entries: Vec<(MK, X)>) -> X {
    x(E::Map(entries.into_iter().map(|(k, v)| (k, Some(v))).collect()))
}

/// (name, definitions, expression, printable)
fn values() -> Vec<(&'static str, Vec<X>, X)> {
    let foo = || mm(vec![(MK::Meta("type".into(), None), s("Foo")), (MK::Id("data".into()), int(1))]);
    vec![
        ("null", vec![], null()),
        ("bool", vec![], boolean(true)),
        ("int", vec![], int(1)),
        ("float", vec![], float(1.5)),
        ("string", vec![], s("a")),
        ("list", vec![], list(vec![int(1)])),
        ("tuple", vec![], tuple(vec![int(1), int(2)])),
        ("map", vec![], map(vec![("a", int(1))])),
        ("range", vec![], x(E::Range(Some(int(0)), Some(int(2)), false))),
        ("range-from", vec![], x(E::Range(Some(int(1)), None, false))),
        ("range-to", vec![], x(E::Range(None, Some(int(3)), false))),
        ("function", vec![assign("fnv", func_inline(&["q"], id("q")))], id("fnv")),
        ("native-function", vec![], access(id("koto"), "type")),
        ("iterator", vec![assign("itv", method(tuple(vec![int(1), int(2)]), "each", vec![func_inline(&["q"], id("q"))]))], id("itv")),
        ("foo", vec![assign("foov", foo())], id("foov")),
        (
            "bar-base-foo",
            vec![assign("foov", foo()), assign("barv", mm(vec![(MK::Meta("base".into(), None), id("foov")), (MK::Meta("type".into(), None), s("Bar"))]))],
            id("barv"),
        ),
        (
            "baz-base-bar",
            vec![
                assign("foov", foo()),
                assign("barv", mm(vec![(MK::Meta("base".into(), None), id("foov")), (MK::Meta("type".into(), None), s("Bar"))])),
                assign("bazv", mm(vec![(MK::Meta("base".into(), None), id("barv")), (MK::Meta("type".into(), None), s("Baz"))])),
            ],
            id("bazv"),
        ),
        // @base chains with a layer that has no @type of its own
        (
            "untyped-over-bar",
            vec![
                assign("foov", foo()),
                assign("barv", mm(vec![(MK::Meta("base".into(), None), id("foov")), (MK::Meta("type".into(), None), s("Bar"))])),
                assign("untv", mm(vec![(MK::Meta("base".into(), None), id("barv")), (MK::Id("own".into()), int(3))])),
            ],
            id("untv"),
        ),
        (
            "baz-over-untyped-over-foo",
            vec![
                assign("foov", foo()),
                assign("midv", mm(vec![(MK::Meta("base".into(), None), id("foov")), (MK::Id("own".into()), int(3))])),
                assign("bazv", mm(vec![(MK::Meta("base".into(), None), id("midv")), (MK::Meta("type".into(), None), s("Baz"))])),
            ],
            id("bazv"),
        ),
        (
            "generator-fn",
            vec![assign("gfv", x(E::Func(Rc::new(FuncDef {
                args: vec![],
                variadic: false,
                body: blk(vec![x(E::Yield(int(1)))]),
                is_gen: true,
                out_hint: None,
                inline: false,
            }))))],
            id("gfv"),
        ),
        ("plain-object", vec![assign("pov", mm(vec![(MK::Meta("meta".into(), Some("hidden".into())), int(1)), (MK::Id("a".into()), int(2))]))], id("pov")),
        ("callable-obj", vec![assign("cov", mm(vec![(MK::Meta("call".into(), None), func_inline(&[], int(1)))]))], id("cov")),
    ]
}

fn hint_names() -> Vec<&'static str> {
    vec![
        "Number", "String", "Bool", "Null", "List", "Tuple", "Map", "Range", "Function", "Iterator", "Any", "Callable", "Indexable",
        "Iterable", "Foo", "Bar", "Baz", "Nope", "Object", "Generator",
    ]
}

/// undefined / undocumented combinations are not generated
fn excluded(hint: &str, value: &str) -> bool {
    match (hint, value) {
        // whether maps carrying a metamap count as iterable/indexable is not documented
        ("Iterable", "foo" | "bar-base-foo" | "baz-base-bar" | "callable-obj" | "plain-object" | "untyped-over-bar" | "baz-over-untyped-over-foo") => true,
        ("Indexable", "foo" | "bar-base-foo" | "baz-base-bar" | "callable-obj" | "plain-object" | "untyped-over-bar" | "baz-over-untyped-over-foo") => true,
        // unbounded ranges: the guide calls *bounded* ranges iterable; silent on the others
        ("Iterable", "range-from" | "range-to") => true,
        // a range without a start cannot be indexed: by the guide not Indexable
        _ => false,
    }
}

pub fn generate(tier: Tier, emit: Emit) {
    let vals = values();
    for hn in hint_names() {
        for optional in [false, true] {
            let hint = h(hn, optional);
            for (vn, defs, ve) in &vals {
                if excluded(hn, vn) {
                    continue;
                }
                let mk = |body: Vec<X>| -> Vec<X> {
                    let mut p = defs.clone();
                    p.push(print(s("start")));
                    p.extend(body);
                    p.push(print(s("end")));
                    p
                };
                let ok = || print(s("ok"));
                let shape: Vec<&'static str> = vec![];
                // 1. let
                emit(Case {
                    family: "let",
                    prog: mk(vec![x(E::Let(vec![(Tgt::Id("lx".into()), Some(hint.clone()))], vec![ve.clone()])), ok()]),
                    shape: shape.clone(),
                });
                // 2. let with several targets (hint on first / last), and a typed wildcard
                emit(Case {
                    family: "let-multi",
                    prog: mk(vec![
                        x(E::Let(
                            vec![(Tgt::Id("la".into()), Some(hint.clone())), (Tgt::Id("lb".into()), Some(h("Number", false)))],
                            vec![ve.clone(), int(1)],
                        )),
                        ok(),
                        print(id("lb")),
                    ]),
                    shape: shape.clone(),
                });
                emit(Case {
                    family: "let-wildcard",
                    prog: mk(vec![
                        assign("src", list(vec![int(7), ve.clone(), s("last")])),
                        x(E::Let(
                            vec![(Tgt::Id("la".into()), None), (Tgt::Wild(None), Some(hint.clone())), (Tgt::Id("lc".into()), None)],
                            vec![id("src")],
                        )),
                        print(tuple(vec![id("la"), id("lc")])),
                        // an iterator right-hand side: every target still receives its element
                        assign("gen", x(E::Func(Rc::new(FuncDef {
                            args: vec![ArgDef { pat: Pat::Id("gv".into(), None), default: None }],
                            variadic: false,
                            body: blk(vec![x(E::Yield(int(7))), x(E::Yield(id("gv"))), x(E::Yield(s("last")))]),
                            is_gen: true,
                            out_hint: None,
                            inline: false,
                        })))),
                        x(E::Let(
                            vec![(Tgt::Id("ga".into()), None), (Tgt::Wild(None), Some(hint.clone())), (Tgt::Id("gc".into()), None)],
                            vec![callf("gen", vec![ve.clone()])],
                        )),
                        print(tuple(vec![id("ga"), id("gc")])),
                    ]),
                    shape: shape.clone(),
                });
                // 3. for argument
                emit(Case {
                    family: "for-arg",
                    prog: mk(vec![
                        x(E::For(vec![Pat::Id("fx".into(), Some(hint.clone()))], list(vec![ve.clone(), ve.clone()]), blk(vec![print(s("iter"))]))),
                    ]),
                    shape: shape.clone(),
                });
                emit(Case {
                    family: "for-arg2",
                    prog: mk(vec![x(E::For(
                        vec![Pat::Id("fi".into(), Some(h("Number", false))), Pat::Id("fx".into(), Some(hint.clone()))],
                        list(vec![tuple(vec![int(0), ve.clone()])]),
                        blk(vec![print(tuple(vec![s("iter"), id("fi")]))]),
                    ))]),
                    shape: shape.clone(),
                });
                // a typed wildcard among several loop arguments: the later arguments still get their elements
                emit(Case {
                    family: "for-arg-wildcard",
                    prog: mk(vec![
                        x(E::For(
                            vec![Pat::Id("fa".into(), None), Pat::Wild(None, Some(hint.clone())), Pat::Id("fc".into(), None)],
                            list(vec![tuple(vec![int(7), ve.clone(), s("last")])]),
                            blk(vec![print(tuple(vec![s("iter"), id("fa"), id("fc")]))]),
                        )),
                        x(E::For(vec![Pat::Wild(None, Some(hint.clone()))], list(vec![ve.clone()]), blk(vec![print(s("iter1"))]))),
                    ]),
                    shape: shape.clone(),
                });
                let f_nested_wild = x(E::Func(Rc::new(FuncDef {
                    args: vec![ArgDef {
                        pat: Pat::Tuple(vec![Pat::Id("na".into(), None), Pat::Wild(None, Some(hint.clone())), Pat::Id("nc".into(), None)], None),
                        default: None,
                    }],
                    variadic: false,
                    body: blk(vec![print(tuple(vec![s("in f"), id("na"), id("nc")])), int(0)]),
                    is_gen: false,
                    out_hint: None,
                    inline: false,
                })));
                emit(Case {
                    family: "fn-arg-nested-wildcard",
                    prog: mk(vec![assign("tf", f_nested_wild), print(callf("tf", vec![tuple(vec![int(7), ve.clone(), s("last")])]))]),
                    shape: shape.clone(),
                });
                // 4. function argument (plain, nested, with default), all call paths
                let f_arg = x(E::Func(Rc::new(FuncDef {
                    args: vec![ArgDef { pat: Pat::Id("ax".into(), Some(hint.clone())), default: None }],
                    variadic: false,
                    body: blk(vec![print(s("in f")), int(0)]),
                    is_gen: false,
                    out_hint: None,
                    inline: false,
                })));
                emit(Case { family: "fn-arg", prog: mk(vec![assign("tf", f_arg), print(callf("tf", vec![ve.clone()]))]), shape: shape.clone() });
                let f_nested = x(E::Func(Rc::new(FuncDef {
                    args: vec![ArgDef {
                        pat: Pat::Tuple(vec![Pat::Id("na".into(), Some(hint.clone())), Pat::Id("nb".into(), None)], None),
                        default: None,
                    }],
                    variadic: false,
                    body: blk(vec![print(tuple(vec![s("in f"), id("nb")])), int(0)]),
                    is_gen: false,
                    out_hint: None,
                    inline: false,
                })));
                emit(Case {
                    family: "fn-arg-nested",
                    prog: mk(vec![assign("tf", f_nested), print(callf("tf", vec![tuple(vec![ve.clone(), int(5)])]))]),
                    shape: shape.clone(),
                });
                // 5. return type: implicit, explicit return, early return
                for variant in 0..3 {
                    let body = match variant {
                        0 => vec![print(s("in f")), id("rv")],
                        1 => vec![print(s("in f")), ret(Some(id("rv")))],
                        _ => vec![if_(boolean(true), vec![ret(Some(id("rv")))], None), s("not reached")],
                    };
                    let f_ret = x(E::Func(Rc::new(FuncDef {
                        args: vec![ArgDef { pat: Pat::Id("rv".into(), None), default: None }],
                        variadic: false,
                        body: blk(body),
                        is_gen: false,
                        out_hint: Some(hint.clone()),
                        inline: false,
                    })));
                    emit(Case {
                        family: "fn-return",
                        prog: mk(vec![assign("tf", f_ret), assign("res", callf("tf", vec![ve.clone()])), ok()]),
                        shape: shape.clone(),
                    });
                }
                // bare returns (the hint is checked against null), several of them, with a captured
                // variable read after them; the value decides which return is taken
                for n_returns in 1..=4usize {
                    let mut body = vec![print(s("in f"))];
                    for k in 0..n_returns {
                        body.push(if_(cmp(id("sel"), CmpOp::Eq, int(k as i64)), vec![ret(None)], None));
                    }
                    body.push(print(id("captured")));
                    body.push(id("rv"));
                    let f_ret = x(E::Func(Rc::new(FuncDef {
                        args: vec![ArgDef { pat: Pat::Id("rv".into(), None), default: None }, ArgDef { pat: Pat::Id("sel".into(), None), default: None }],
                        variadic: false,
                        body: blk(body),
                        is_gen: false,
                        out_hint: Some(hint.clone()),
                        inline: false,
                    })));
                    for sel in [0i64, (n_returns - 1) as i64, 9] {
                        emit(Case {
                            family: "fn-return-bare",
                            prog: mk(vec![assign("captured", s("cap")), assign("tf", f_ret.clone()), assign("res", callf("tf", vec![ve.clone(), int(sel)])), ok(), print(id("res"))]),
                            shape: shape.clone(),
                        });
                    }
                }
                // 6. generator yield type
                let g = x(E::Func(Rc::new(FuncDef {
                    args: vec![ArgDef { pat: Pat::Id("gv".into(), None), default: None }],
                    variadic: false,
                    body: blk(vec![print(s("gen start")), x(E::Yield(id("gv"))), print(s("gen mid")), x(E::Yield(id("gv")))]),
                    is_gen: true,
                    out_hint: Some(hint.clone()),
                    inline: false,
                })));
                emit(Case {
                    family: "gen-yield",
                    prog: mk(vec![
                        assign("tg", g),
                        x(E::For(vec![Pat::Id("gy".into(), None)], callf("tg", vec![ve.clone()]), blk(vec![print(s("got"))]))),
                    ]),
                    shape: shape.clone(),
                });
                // 7. match patterns: mismatches fall through, under both settings
                let arms = vec![
                    Arm {
                        alts: vec![vec![Pat::Id("mx".into(), Some(hint.clone()))]],
                        guard: None,
                        body: blk(vec![s("typed arm")]),
                        is_else: false,
                    },
                    Arm { alts: vec![], guard: None, body: blk(vec![s("else arm")]), is_else: true },
                ];
                emit(Case {
                    family: "match-typed",
                    prog: mk(vec![assign("mv", ve.clone()), assign("mr", x(E::Match(vec![id("mv")], arms))), print(id("mr"))]),
                    shape: shape.clone(),
                });
                let arms = vec![
                    Arm {
                        alts: vec![vec![Pat::Tuple(vec![Pat::Id("ma".into(), Some(hint.clone())), Pat::Id("mb".into(), None)], None)]],
                        guard: None,
                        body: blk(vec![tuple(vec![s("nested arm"), id("mb")])]),
                        is_else: false,
                    },
                    Arm {
                        alts: vec![vec![Pat::Map(vec![(MK::Id("k".into()), None, Some(hint.clone()))])]],
                        guard: None,
                        body: blk(vec![s("map arm")]),
                        is_else: false,
                    },
                    Arm { alts: vec![], guard: None, body: blk(vec![s("else arm")]), is_else: true },
                ];
                emit(Case {
                    family: "match-nested-typed",
                    prog: mk(vec![
                        assign("mv", tuple(vec![ve.clone(), int(2)])),
                        assign("mr", x(E::Match(vec![id("mv")], arms.clone()))),
                        print(id("mr")),
                        assign("mv2", x(E::Map(vec![(MK::Id("k".into()), Some(ve.clone()))]))),
                        assign("mr2", x(E::Match(vec![id("mv2")], arms))),
                        print(id("mr2")),
                    ]),
                    shape: shape.clone(),
                });
                // a map pattern with a hint for the whole value: selects by type under both settings
                let arms = vec![
                    Arm {
                        alts: vec![vec![Pat::TypedMap(Box::new(Pat::Map(vec![(MK::Id("data".into()), None, None)])), hint.clone())]],
                        guard: None,
                        body: blk(vec![tuple(vec![s("typed map arm"), id("data")])]),
                        is_else: false,
                    },
                    Arm {
                        alts: vec![vec![Pat::Map(vec![(MK::Id("data".into()), None, None)])]],
                        guard: None,
                        body: blk(vec![tuple(vec![s("keys-only arm"), id("data")])]),
                        is_else: false,
                    },
                    Arm { alts: vec![], guard: None, body: blk(vec![s("else arm")]), is_else: true },
                ];
                emit(Case {
                    family: "match-map-typed",
                    prog: mk(vec![
                        assign("mv", ve.clone()),
                        assign("mr", x(E::Match(vec![id("mv")], arms.clone()))),
                        print(id("mr")),
                        // and a plain map with the same key
                        assign("mr2", x(E::Match(vec![map(vec![("data", int(9))])], arms))),
                        print(id("mr2")),
                    ]),
                    shape: shape.clone(),
                });
                // 8. typed catch: only throwable values (strings and objects with @display)
                if matches!(*vn, "string") || tier == Tier::Thorough && matches!(*vn, "string") {
                    let t = x(E::Try(
                        blk(vec![throw(ve.clone())]),
                        vec![
                            CatchArm { pat: Pat::Id("ce".into(), Some(hint.clone())), body: blk(vec![print(s("typed catch"))]) },
                            CatchArm { pat: Pat::Id("ce".into(), None), body: blk(vec![print(s("untyped catch"))]) },
                        ],
                        None,
                    ));
                    emit(Case { family: "catch-typed", prog: mk(vec![t]), shape: shape.clone() });
                    // a runtime error binds a String
                    let t = x(E::Try(
                        blk(vec![assign("zz", bin(Op::Add, int(1), s("a")))]),
                        vec![
                            CatchArm { pat: Pat::Id("ce".into(), Some(hint.clone())), body: blk(vec![print(s("typed catch"))]) },
                            CatchArm { pat: Pat::Id("ce".into(), None), body: blk(vec![print(s("untyped catch"))]) },
                        ],
                        None,
                    ));
                    emit(Case { family: "catch-typed", prog: mk(vec![t]), shape: shape.clone() });
                }
            }
        }
    }
}

pub fn classify(_case: &Case, _v: &Verdict, _real: &crate::run::Obs, _rf: Option<&crate::kref::RefObs>) -> Option<String> {
    None
}
