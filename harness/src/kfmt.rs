//! Format-spec rendering for interpolated strings in kref (only what progmc families use;
//! the full format grid is C15's own oracle in strmc).

use crate::kref::*;
use crate::kval::*;
use std::rc::Rc;

pub fn format_value(_ip: &Rc<Interp>, _v: &V, spec: &str) -> Result<String, Ctl> {
    Err(Ctl::Unmodelled(format!("format spec {spec}")))
}
