//! C06 — host safety: no input makes compile, format, run or display panic.
//!
//! (1) source text: all strings / token sequences up to a bound + corpus prefixes, through
//!     compile, format and error rendering (in-process, catch_unwind);
//! (2) core-library calls: every function of every core module x every argument tuple from a
//!     boundary pool, plus operators, in memory-limited worker processes.

use crate::common::*;
use crate::run::*;
use koto::prelude::*;
use serde_json::json;
use std::collections::{BTreeMap, HashSet};

const TOKENS: &[&str] = &[
    "x", "1", "'s'", "'{", "}'", "\n", "\n  ", "\r\n", "#-", "-#", "#c", "(", ")", "[", "]", "{", "}", ",", ".", ":", "=", "+", "-", "*", "/", "%", "^", "==",
    "<", "->", "..", "..=", "...", "|", "||", "@", "_", "?", "if", "then", "else", "for", "in", "while", "loop", "match", "switch", "try",
    "catch", "finally", "throw", "return", "break", "continue", "yield", "and", "or", "not", "let", "export", "import", "from", "as", "debug",
    "self", "null", "true", "+=", "0x", "1e", "r'", "\"", "\\",
];

/// compile + format + render errors; returns Err(panic message)
pub fn text_pipeline(src: &str) -> Result<u8, String> {
    let r = std::panic::catch_unwind(|| {
        let mut outcome = 0u8;
        let mut koto = Koto::with_settings(KotoSettings::default());
        match koto.compile(CompileArgs::new(src)) {
            Ok(_) => outcome |= 1,
            Err(e) => {
                let _ = e.to_string();
                let _ = e.is_indentation_error();
            }
        }
        match koto_format::format(src, koto_format::FormatOptions::default()) {
            Ok(out) => {
                outcome |= 2;
                let _ = out.len();
            }
            Err(e) => {
                let _ = e.to_string();
            }
        }
        let opts = koto_format::FormatOptions { line_length: 20, indent_width: 1, chain_break_threshold: 1, always_indent_arms: true };
        if let Err(e) = koto_format::format(src, opts) {
            let _ = e.to_string();
        }
        outcome
    });
    r.map_err(|_| take_last_panic())
}

struct TextOut {
    n: u64,
    compiled: u64,
    formatted: u64,
    failures: Vec<(String, String)>,
    distinct: HashSet<u64>,
}

fn explore_text(alpha: &[&str], max_len: usize, sep: &str) -> Vec<TextOut> {
    let n = alpha.len();
    par_shards_big_stack(n, 256 << 20, |shard| {
        let mut out = TextOut { n: 0, compiled: 0, formatted: 0, failures: vec![], distinct: HashSet::new() };
        fn rec(alpha: &[&str], sep: &str, buf: &mut String, depth: usize, max_len: usize, out: &mut TextOut) {
            out.n += 1;
            match text_pipeline(buf) {
                Ok(o) => {
                    if o & 1 != 0 {
                        out.compiled += 1;
                    }
                    if o & 2 != 0 {
                        out.formatted += 1;
                    }
                    out.distinct.insert(hash_of(&(o, buf.len() % 7)));
                }
                Err(p) => {
                    if out.failures.len() < 30 {
                        out.failures.push((buf.clone(), p));
                    }
                }
            }
            if depth == max_len {
                return;
            }
            for a in alpha {
                let l = buf.len();
                if !buf.is_empty() {
                    buf.push_str(sep);
                }
                buf.push_str(a);
                rec(alpha, sep, buf, depth + 1, max_len, out);
                buf.truncate(l);
            }
        }
        let mut buf = String::from(alpha[shard]);
        rec(alpha, sep, &mut buf, 1, max_len, &mut out);
        if shard == 0 {
            let mut e = String::new();
            rec(&[], sep, &mut e, 0, 0, &mut out);
        }
        out
    })
}

// ---------------------------------------------------------------------------------------------
// core library calls

/// (name, setup statements, expression)
pub fn pool(tier: Tier) -> Vec<(&'static str, &'static str, &'static str)> {
    let mut v = vec![
        ("null", "", "null"),
        ("true", "", "true"),
        ("0", "", "0"),
        ("1", "", "1"),
        ("-1", "", "-1"),
        ("2", "", "2"),
        ("63", "", "63"),
        ("64", "", "64"),
        ("65", "", "65"),
        ("255", "", "255"),
        ("256", "", "256"),
        ("i64min", "", "(-9223372036854775807 - 1)"),
        ("i64max", "", "9223372036854775807"),
        ("0.5", "", "0.5"),
        ("-0.0", "", "-0.0"),
        ("nan", "", "(0.0 / 0.0)"),
        ("inf", "", "(1.0 / 0.0)"),
        ("1e300", "", "1e300"),
        ("str-empty", "", "''"),
        ("str-a", "", "'a'"),
        ("str-e-acute", "", "'é'"),
        ("str-crlf", "", "'a\\r\\nb'"),
        ("str-wide", "", "'字😀e\u{301}'"),
        ("tuple-empty", "", "()"),
        ("tuple-1", "", "(1,)"),
        ("list-empty", "", "[]"),
        ("list-12", "", "[1, 2]"),
        ("L", "", "lrecv"),
        ("map-empty", "", "{}"),
        ("map-a", "", "{a: 1}"),
        ("M", "", "mrecv"),
        ("range-00", "", "0..0"),
        ("range-03", "", "0..3"),
        ("range-30", "", "3..0"),
        ("range-to2", "", "..2"),
        ("range-from0", "", "0.."),
        ("range-extreme", "", "(-9223372036854775807 - 1)..9223372036854775807"),
        ("range-incl-max", "", "0..=9223372036854775807"),
        ("iter-exhausted", "itx = (1, 2).iter()\nitx.consume()\n", "itx"),
        ("iter-fresh", "itf = (1, 2, 3).iter()\n", "itf"),
        ("fn-id", "", "(|x| x)"),
        ("fn-throw", "", "(|x| throw 'e')"),
        ("fn-2", "", "(|a, b| a)"),
        ("fn-mutate", "", "(|x| lrecv.push(x))"),
        ("fn-clear", "", "(|x...| lrecv.clear())"),
        ("fn-pop-id", "fpop = |x, more...|\n  lrecv.pop()\n  mrecv.remove 'a'\n  x\n", "fpop"),
        ("fn-push-id", "fpush = |x, more...|\n  lrecv.push 0\n  mrecv.insert size(mrecv), 0\n  x\n", "fpush"),
        ("fn-pop-true", "fpopt = |x, more...|\n  lrecv.pop()\n  mrecv.remove 'a'\n  true\n", "fpopt"),
        ("obj-throwing", "", "othrow"),
        ("generator", "gen = || yield 1\n", "gen()"),
        ("str-slice", "", "sliced"),
        ("tuple-slice", "", "tsliced"),
    ];
    if tier == Tier::Thorough {
        v.push(("iter-endless", "ite = iterator.repeat(1)\n", "ite"));
        v.push(("2^40", "", "1099511627776"),);
        v.push(("list-nested", "", "[[1], [2, [3]]]"));
        v.push(("map-nested", "", "{a: {b: [1]}}"));
    }
    v
}

const PRELUDE: &str = "lrecv = [1, 2, 3]\nmrecv = {a: 1, b: 2, c: 3}\nsliced = 'xaéz'[1..4]\ntsliced = (0, 1, 2, 3)[1..3]\nothrow = {@display: || throw 'd', @+: |o| throw 'p', @==: |o| throw 'q', @<: |o| throw 'r', @index: |i| throw 'i', @size: || 2, @negate: || throw 'n', @iterator: || throw 'it', @call: |a...| throw 'c'}\n";

pub fn call_script(setup: &[&str], call: &str) -> String {
    let mut s = String::from(PRELUDE);
    for st in setup {
        s.push_str(st);
    }
    // the call, the display of its result, and the display of the receivers afterwards
    s.push_str(&format!(
        "try\n  r = {call}\n  d = '{{r}}'\n  d2 = '{{r:?}}'\n  if koto.type(r) == 'Iterator'\n    n = 0\n    for x in r\n      n += 1\n      if n > 20 then break\ncatch e\n  d = '{{e}}'\nz = '{{lrecv}}{{mrecv}}'\n"
    ));
    s
}

pub fn worker_call(src: &str) -> String {
    let cfg = RunCfg { budget_ticks: 200_000, ..RunCfg::default() };
    let obs = run_script(src, &cfg);
    match &obs.outcome {
        Outcome::Panic(m) => format!("panic:{m}"),
        o => format!("ok:{}", o.class()),
    }
}

/// Literal forms whose parsing accumulates a number digit by digit: each template with a run of
/// k = 0..=40 copies of one digit (overflow of the accumulator needs 9..=20 digits).
pub fn pumped_literals() -> Vec<String> {
    let templates = [
        "x = '\\u{@}'", "x = '\\x@'", "x = 0x@", "x = 0b@", "x = 0o@", "x = @", "x = -@", "x = @.5", "x = 1.@", "x = 1e@", "x = 1e-@", "x = 1.5e@", "x = @e2",
        "x = '{1:@}'", "x = '{1:.@}'", "x = '{1:<@}'", "x = '{1:@.@}'", "x = '{1:0@}'", "x = (1, 2)[@]", "x = (1, 2)[@..]", "x = @..@", "x = 0..=@", "x = [0][-@]",
        "x = 'a'[@..@]", "x = |a| a.@", "x = r#@'a'#@", "x = 1 << @", "x = '\\u{@'", "x = '\\u@}'", "x = @._", "x = @_@", "x = 0x_@", "x = @x@",
    ];
    let digits = ["0", "1", "7", "9", "f", "F"];
    let mut out = vec![];
    for t in templates {
        for d in digits {
            for k in 0..=40usize {
                out.push(t.replace('@', &d.repeat(k)));
            }
        }
    }
    out.sort();
    out.dedup();
    out
}

fn core_functions() -> Vec<(String, String)> {
    // read the module contents from a live runtime so the list follows the implementation
    let koto = Koto::with_settings(KotoSettings::default());
    let mut out = vec![];
    for module in ["list", "map", "string", "tuple", "range", "number", "iterator", "koto", "test"] {
        if let Some(KValue::Map(m)) = koto.prelude().get(module) {
            let mut names: Vec<String> = m
                .data()
                .iter()
                .filter(|(_, v)| matches!(v, KValue::NativeFunction(_)))
                .map(|(k, _)| format!("{}", k.value().type_as_string()).len().to_string() + "")
                .collect();
            names.clear();
            for (k, v) in m.data().iter() {
                if matches!(v, KValue::NativeFunction(_)) {
                    if let KValue::Str(s) = k.value() {
                        names.push(s.to_string());
                    }
                }
            }
            names.sort();
            for n in names {
                // host-touching / process-affecting functions are excluded
                if matches!((module, n.as_str()), ("koto", "load") | ("koto", "run") | ("koto", "exports") | ("koto", "args") | ("koto", "script_dir") | ("koto", "script_path")) {
                    continue;
                }
                out.push((module.to_string(), n));
            }
        }
    }
    out
}

pub fn run(args: &Args) -> i32 {
    if let Some(path) = &args.replay {
        install_quiet_panic_hook();
        let text = std::fs::read_to_string(path).unwrap_or_default();
        let src = match text.split_once("--- payload ---\n") {
            Some((_, p)) => p.to_string(),
            None => text,
        };
        let a = text_pipeline(&src);
        let b = worker_call(&src);
        println!("text pipeline: {a:?}\nrun: {b}");
        let bad = a.is_err() || b.starts_with("panic:");
        if bad {
            println!("VIOLATION property={} replay={}", args.property, path);
        }
        return if bad { 1 } else { 0 };
    }
    install_quiet_panic_hook();
    let mut report = Report::new(args, "exploration");
    let tier = args.tier;

    // (1) source text
    let mut text_n = 0u64;
    let mut compiled = 0u64;
    let mut formatted = 0u64;
    let mut distinct: HashSet<u64> = HashSet::new();
    let chars = tier.pick(4usize, 5usize);
    let toks = tier.pick(3usize, 4usize);
    let mut record_text = |outs: Vec<TextOut>, label: &str, report: &mut Report| {
        for o in outs {
            text_n += o.n;
            compiled += o.compiled;
            formatted += o.formatted;
            distinct.extend(o.distinct);
            for (s, p) in o.failures {
                report.fail(
                    text_key(&s, &p).as_deref(),
                    format!("[{label}] panic on source text {:?}: {}", s, crate::progmc::first_line(&p)),
                    format!("{label}\npanic: {p}\ninput (escaped): {s:?}\n--- payload ---\n{s}"),
                );
            }
        }
    };
    record_text(explore_text(crate::lexmc::ALPHA_MAIN, chars, ""), "chars", &mut report);
    let token_alpha: Vec<&str> = if tier == Tier::Quick { TOKENS.iter().cloned().take(73).collect() } else { TOKENS.to_vec() };
    record_text(explore_text(&token_alpha, toks, " "), "tokens", &mut report);
    // corpus prefixes: every line prefix, and every byte prefix of the first part
    let corpus = crate::lexmc::corpus_files();
    let limit = tier.pick(400usize, 4000usize);
    let res = par_shards_big_stack(corpus.len(), 256 << 20, |i| {
        let (_, text) = &corpus[i];
        let mut out = TextOut { n: 0, compiled: 0, formatted: 0, failures: vec![], distinct: HashSet::new() };
        for (b, _) in text.char_indices() {
            if b <= limit || text.as_bytes()[b - 1] == b'\n' {
              // each prefix as written, and (at line ends) with Windows line endings
              let crlf = if b > 0 && text.as_bytes()[b - 1] == b'\n' && !text[..b].contains('\r') { Some(text[..b].replace('\n', "\r\n")) } else { None };
              for input in std::iter::once(text[..b].to_string()).chain(crlf) {
                out.n += 1;
                match text_pipeline(&input) {
                    Ok(o) => {
                        if o & 1 != 0 {
                            out.compiled += 1;
                        }
                        if o & 2 != 0 {
                            out.formatted += 1;
                        }
                    }
                    Err(p) => {
                        if out.failures.len() < 5 {
                            out.failures.push((input.clone(), p));
                        }
                    }
                }
              }
            }
        }
        out
    });
    record_text(res, "corpus-prefix", &mut report);
    // the corpus' one-token neighbourhood through compile + format
    let stride = tier.pick(4, 1);
    let res = par_shards_big_stack(corpus.len(), 256 << 20, |i| {
        let (_, text) = &corpus[i];
        let mut out = TextOut { n: 0, compiled: 0, formatted: 0, failures: vec![], distinct: HashSet::new() };
        if text.len() < 8000 {
            for m in crate::codemc::token_neighbourhood(text, stride) {
                out.n += 1;
                match text_pipeline(&m) {
                    Ok(o) => {
                        if o & 1 != 0 {
                            out.compiled += 1;
                        }
                        if o & 2 != 0 {
                            out.formatted += 1;
                        }
                    }
                    Err(p) => {
                        if out.failures.len() < 5 {
                            out.failures.push((m, p));
                        }
                    }
                }
            }
        }
        out
    });
    record_text(res, "corpus-neighbourhood", &mut report);
    // literals with a pumped digit run: every template x digit x run length 0..=40
    let pumped = pumped_literals();
    let res = par_shards_big_stack(16, 64 << 20, |shard| {
        let mut out = TextOut { n: 0, compiled: 0, formatted: 0, failures: vec![], distinct: HashSet::new() };
        for (i, m) in pumped.iter().enumerate() {
            if i % 16 != shard {
                continue;
            }
            out.n += 1;
            match text_pipeline(m) {
                Ok(o) => {
                    if o & 1 != 0 {
                        out.compiled += 1;
                    }
                    if o & 2 != 0 {
                        out.formatted += 1;
                    }
                    out.distinct.insert(hash_of(&(o, m.len() / 8)));
                }
                Err(p) => {
                    if out.failures.len() < 5 {
                        out.failures.push((m.clone(), p));
                    }
                }
            }
        }
        out
    });
    record_text(res, "pumped-literals", &mut report);
    // every \u{...} escape: all code points up to 0x110010 (quick: the ranges around every
    // boundary of the encoding, the surrogate block, the upper limit, and every 257th code point)
    let thorough = tier == Tier::Thorough;
    let res = par_shards_big_stack(16, 64 << 20, |shard| {
        let mut out = TextOut { n: 0, compiled: 0, formatted: 0, failures: vec![], distinct: HashSet::new() };
        for cp in 0u32..=0x110010 {
            if cp as usize % 16 != shard {
                continue;
            }
            let near_boundary = cp < 0x900 || (0xd700..0xe100).contains(&cp) || (0xff00..0x10100).contains(&cp) || cp >= 0x10ff00;
            if !thorough && !near_boundary && cp % 257 != 0 {
                continue;
            }
            let m = format!("x = '\\u{{{cp:x}}}'");
            out.n += 1;
            match text_pipeline(&m) {
                Ok(o) => {
                    if o & 1 != 0 {
                        out.compiled += 1;
                    }
                    out.distinct.insert(hash_of(&(o, char::from_u32(cp).map(|c| c.len_utf8()))));
                }
                Err(p) => {
                    if out.failures.len() < 5 {
                        out.failures.push((m.clone(), p));
                    }
                }
            }
        }
        out
    });
    record_text(res, "unicode-escapes", &mut report);

    // (2) core library calls
    let fns = core_functions();
    let pool = pool(tier);
    let max_arity = tier.pick(2usize, 3usize);
    let mut scripts: Vec<String> = vec![];
    let mut labels: Vec<String> = vec![];
    let thorough_arity3_pool: Vec<usize> = (0..pool.len()).step_by(4).collect();
    for (module, f) in &fns {
        // arity 0
        scripts.push(call_script(&[], &format!("{module}.{f}()")));
        labels.push(format!("{module}.{f}()"));
        for (i, a) in pool.iter().enumerate() {
            scripts.push(call_script(&[a.1], &format!("{module}.{f}({})", a.2)));
            labels.push(format!("{module}.{f}({})", a.0));
            if max_arity >= 2 {
                for (j, b) in pool.iter().enumerate() {
                    scripts.push(call_script(&[a.1, b.1], &format!("{module}.{f}({}, {})", a.2, b.2)));
                    labels.push(format!("{module}.{f}({}, {})", a.0, b.0));
                    if max_arity >= 3 && thorough_arity3_pool.contains(&i) && thorough_arity3_pool.contains(&j) {
                        for k in &thorough_arity3_pool {
                            let c = &pool[*k];
                            scripts.push(call_script(&[a.1, b.1, c.1], &format!("{module}.{f}({}, {}, {})", a.2, b.2, c.2)));
                            labels.push(format!("{module}.{f}({}, {}, {})", a.0, b.0, c.0));
                        }
                    }
                }
            }
        }
    }
    // operators and instructions on pool pairs
    let bin_ops = ["+", "-", "*", "/", "%", "^", "==", "!=", "<", "<=", ">", ">=", "and", "or"];
    for a in &pool {
        for form in ["-{}", "not {}", "size {}", "'{}'", "{}[0]", "{}[-1]", "{}[0..]", "{}.foo", "{}()", "({})...", "[{}...]", "(|(ua, ub)| ua)({})", "(|(ufirst..., ub)| ub)({})", "(|(ua, urest...)| urest)({})"] {
            let call = form.replace("{}", a.2);
            let call = if form == "({})..." { format!("(|x...| x)({}...)", a.2) } else { call };
            scripts.push(call_script(&[a.1], &call));
            labels.push(format!("op {form} on {}", a.0));
        }
        // interpolation with format options (precision truncates non-numbers by graphemes)
        for spec in ["", "?", ".0", ".1", ".2", ".3", ".1?", ".2?", "3", "<3", ">4.1", "é^5.2", "03", "x", "e", ".2e", "#?", "_<", "*^", "*^.1", "0>", "é<", "~", "é", "🇯🇵", "_", "<", "^.2"] {
            let value = if a.2.contains('\'') { a.0.to_string() } else { a.2.to_string() };
            if a.2.contains('\'') {
                // string literals cannot be nested in the template: bind them first
                scripts.push(call_script(&[a.1, &format!("fv = {}\n", a.2)], &format!("'{{fv:{spec}}}'")));
            } else {
                scripts.push(call_script(&[a.1], &format!("'{{{value}:{spec}}}'")));
            }
            labels.push(format!("interpolation '{{{}:{spec}}}'", a.0));
        }
        for b in &pool {
            for op in bin_ops {
                scripts.push(call_script(&[a.1, b.1], &format!("{} {op} {}", a.2, b.2)));
                labels.push(format!("{} {op} {}", a.0, b.0));
            }
            for form in ["{a}[{b}]", "{a}[{b}..]", "{a}[..{b}]", "{a}..{b}", "{a}..={b}"] {
                let call = form.replace("{a}", a.2).replace("{b}", b.2);
                scripts.push(call_script(&[a.1, b.1], &call));
                labels.push(format!("{form} with {} {}", a.0, b.0));
            }
            // compound assignment and index assignment on a variable
            for op in ["+=", "-=", "*=", "/=", "%=", "^="] {
                let call = format!("(|| \n    v = {}\n    v {op} {}\n    v)()", a.2, b.2);
                scripts.push(call_script(&[a.1, b.1], &call));
                labels.push(format!("{} {op} {}", a.0, b.0));
            }
            let call = format!("(|| \n    v = {}\n    v[{}] = 0\n    v)()", a.2, b.2);
            scripts.push(call_script(&[a.1, b.1], &call));
            labels.push(format!("{}[{}] = 0", a.0, b.0));
            let call = format!("(|| \n    v = {}\n    v[0] = {}\n    v)()", a.2, b.2);
            scripts.push(call_script(&[a.1, b.1], &call));
            labels.push(format!("{}[0] = {}", a.0, b.0));
        }
    }
    // iterators over containers that are mutated after the iterator has advanced, then every
    // iterator function applied to the stale iterator
    let iter_fns: Vec<&(String, String)> = fns.iter().filter(|(m, _)| m == "iterator").collect();
    let containers: [(&str, &str, &[&str]); 3] = [
        ("list", "c = [1, 2, 3, 4]\n", &["c.pop()", "c.clear()", "c.resize 1", "c.push 9", "c.remove 0", "c.insert 0, 7", "c.resize 9, 0"]),
        ("map", "c = {a: 1, b: 2, c: 3, d: 4}\n", &["c.remove 'd'", "c.clear()", "c.insert 'z', 9", "c.remove 'a'"]),
        ("string-chars", "c = 'abcd'\n", &["c = ''"]),
    ];
    let makers = ["c.iter()", "c.iter().reversed()", "c.iter().skip(1)", "c.iter().peekable()", "c.iter().enumerate()", "c.iter().chunks(2)", "c.iter().windows(2)", "c.iter().cycle()"];
    for (cname, cdef, mutations) in containers.iter() {
        for maker in makers {
            for k in 0..=3usize {
                for mutation in mutations.iter() {
                    for (_, f) in &iter_fns {
                        let mut setup = String::from(*cdef);
                        setup.push_str(&format!("it = {maker}\n"));
                        for _ in 0..k {
                            setup.push_str("it.next()\n");
                        }
                        setup.push_str(mutation);
                        setup.push('\n');
                        for extra in ["", ", 2", ", |x| true"] {
                            scripts.push(call_script(&[&setup], &format!("iterator.{f}(it{extra})")));
                            labels.push(format!("{cname}: {maker} advanced {k}, then {mutation}, then iterator.{f}(it{extra})"));
                        }
                    }
                }
            }
        }
    }
    // callbacks / overloaded comparisons that read or mutate the container whose function runs them
    for prog in crate::schedmc::reentrant_programs() {
        let call = prog.lines().find(|l| l.starts_with("  r = ")).unwrap_or("").trim().to_string();
        let lines: Vec<&str> = prog.lines().collect();
        let eff = lines.iter().position(|l| l.starts_with("cb = |x|") || l.trim_start().starts_with("@<: |o|") || l.trim() == "@display: ||").and_then(|i| lines.get(i + 1)).map(|l| l.trim().to_string()).unwrap_or_default();
        labels.push(format!("re-entrant: `{call}` while its callback / comparison does `{eff}`"));
        scripts.push(prog.replace("print r\n", "d = '{r}'\n").replace("print l\n", "d = '{l}'\n").replace("print m\n", "d = '{m}'\n").replace("print 'error'\n", "d = '{err}'\n"));
    }
    // callbacks that advance / inspect / copy the iterator that is running them (reached through a map field)
    for source in ["(1..5)", "[1, 2, 3]", "'abc'", "{a: 1, b: 2}", "(1, 2, 3).iter().peekable()"] {
        for adaptor in ["each", "keep", "take", "flatten_each", "generate", "fold-consumer", "find-consumer"] {
            for op in ["next()", "next_back()", "count()", "to_list()", "size_hint()", "peekable().peek()", "reversed().next()", "skip(1).next()"] {
                let touch = if op == "size_hint()" { "koto.copy(m.it)".to_string() } else { format!("m.it.{op}") };
                let build = match adaptor {
                    "each" => format!("m.it = {source}.each |x| {touch}"),
                    "keep" => format!("m.it = {source}.keep |x|\n  {touch}\n  true"),
                    "take" => format!("m.it = {source}.take |x|\n  {touch}\n  true"),
                    "flatten_each" => format!("m.it = {source}.each(|x| ({touch}, x)).flatten()"),
                    "generate" => format!("m.it = iterator.generate 3, || {touch}"),
                    "fold-consumer" => format!("m.it = {source}.iter()\nm.r = m.it.fold 0, |a, x|\n  {touch}\n  a"),
                    _ => format!("m.it = {source}.iter()\nm.r = m.it.find |x|\n  {touch}\n  false"),
                };
                labels.push(format!("re-entrant iterator: {source} {adaptor} with a callback doing {touch}"));
                scripts.push(format!("m = {{}}\ntry\n  {}\n  a = m.it.next()\n  b = m.it.next()\n  d = '{{a}} {{b}} {{m.it.to_list()}}'\ncatch e\n  d = '{{e}}'\n", build.replace('\n', "\n  ")));
            }
        }
    }
    for m in pumped_literals() {
        labels.push(format!("pumped literal: {m}"));
        scripts.push(format!("try\n  {m}\n  d = '{{x}}'\ncatch e\n  d = '{{e}}'\n"));
    }
    let answers = crate::workers::run_pool("lib-call", &scripts, threads(), std::time::Duration::from_millis(tier.pick(700, 3000)), tier.pick(600_000, 1_500_000));
    let mut calls_ok = 0u64;
    let mut out_of_scope = 0u64;
    let mut out_of_scope_samples: Vec<String> = vec![];
    let mut per_class: BTreeMap<String, u64> = BTreeMap::new();
    for ((label, script), a) in labels.iter().zip(scripts.iter()).zip(answers.iter()) {
        match a {
            crate::workers::WorkerAnswer::Line(l) => {
                calls_ok += 1;
                *per_class.entry(l.split(':').next().unwrap_or("").to_string() + ":" + l.split(':').nth(1).unwrap_or("")).or_default() += 1;
                if l.starts_with("panic:") && (l.contains("capacity overflow") || l.contains("Hash table capacity overflow")) {
                    out_of_scope += 1;
                    if out_of_scope_samples.len() < 12 {
                        out_of_scope_samples.push(format!("{label} (capacity overflow)"));
                    }
                } else if let Some(m) = l.strip_prefix("panic:") {
                    report.fail(
                        call_key(label, m).as_deref(),
                        format!("[call] {label} panicked: {}", m.replace("\\n", " ")),
                        format!("{label}\npanic: {m}\n--- payload ---\n{script}"),
                    );
                }
            }
            _ => {
                out_of_scope += 1;
                if out_of_scope_samples.len() < 12 {
                    out_of_scope_samples.push(label.clone());
                }
            }
        }
    }
    let total = text_n + scripts.len() as u64;
    report.cov("evaluations", total);
    report.cov("distinct_nontrivial", distinct.len() as u64 + per_class.len() as u64);
    report.cov("source_texts", text_n);
    report.cov("source_texts_compiled_ok", compiled);
    report.cov("source_texts_formatted_ok", formatted);
    report.cov("core_functions", fns.len() as u64);
    report.cov("pool_values", pool.len() as u64);
    report.cov("library_and_operator_calls", scripts.len() as u64);
    report.cov("calls_answered", calls_ok);
    report.cov("calls_out_of_scope_resource_exhaustion", out_of_scope);
    report.cov("out_of_scope_samples", json!(out_of_scope_samples));
    report.cov("call_outcome_classes", json!(per_class));
    report.cov("exhaustive", true);
    report.cov("rule", format!("(1) every string of length <= {chars} over the 22-symbol lexer alphabet and every sequence of <= {toks} tokens over a {}-token alphabet, every line prefix (and byte prefix of the first {limit} bytes) of every corpus file, and the corpus' one-token neighbourhood, through compile + format (two option sets) + error rendering; (2) every native function of the core modules list/map/string/tuple/range/number/iterator/koto/test (enumerated from the live prelude) x every argument tuple of arity 0..{max_arity} from a {}-value boundary pool (incl. the receiver itself, callbacks that mutate the receiver, objects with throwing metakeys), plus every unary/binary/compound/index operator over pool pairs, each call followed by display and debug display of its result and iteration of a returned iterator; run in worker processes under an address-space limit (quick 0.6 GB, thorough 1.5 GB) and a wall limit (quick 0.7 s, thorough 3 s) (a hang or allocation failure there is out-of-scope resource exhaustion and is counted). distinct_nontrivial = distinct (outcome, size class) over texts + outcome classes over calls", token_alpha.len(), pool.len()));
    report.cov("samples", json!([scripts.get(1000).cloned().unwrap_or_default(), scripts.get(40_000).cloned().unwrap_or_default(), "'{x:\n}' y"]));
    report.assume("memory exhaustion / native hangs are outside the property: detected by the worker supervisor (abort or no answer within the wall limit) and counted, not judged");
    report.assume("panics of generated programs of the progmc profiles are reported by C01-C04/C16/C17 themselves");
    report.finish()
}

fn text_key(s: &str, p: &str) -> Option<String> {
    // the formatter slices the source with `line offset + column`, but columns count displayed
    // width, not bytes: any non-ASCII character earlier on a line shifts the slice
    if !s.is_ascii() && p.contains("crates/format/src/format.rs") && (p.contains("char boundary") || p.contains("byte index") || p.contains("out of range")) {
        return Some("formatter-column-as-byte-offset".into());
    }
    None
}

/// finding keys for core-lib calls: (function, argument classes) shapes
fn call_key(label: &str, m: &str) -> Option<String> {
    // shape: the program's callback touches the iterator that is running it; class: borrow panic
    if label.starts_with("re-entrant iterator:") && (m.contains("already borrowed") || m.contains("already mutably borrowed")) {
        return Some("reentrant-iterator-advance".into());
    }
    None
}
