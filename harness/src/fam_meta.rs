//! C17 families: operator / protocol dispatch to metamap entries.

use crate::common::Tier;
use crate::kast::*;
use crate::progmc::*;

fn mk(entries: Vec<(MK, X)>) -> X {
    x(E::Map(entries.into_iter().map(|(k, v)| (k, Some(v))).collect()))
}
fn meta(name: &str) -> MK {
    MK::Meta(name.into(), None)
}
fn datak(name: &str) -> MK {
    MK::Id(name.into())
}

/// rp: printable representation of an operand (objects print their tag)
fn prelude() -> Vec<X> {
    vec![assign(
        "rp",
        func(
            &["v"],
            vec![if_(
                bin(Op::Or, cmp(callf("type", vec![id("v")]), CmpOp::Eq, s("Obj")), cmp(callf("type", vec![id("v")]), CmpOp::Eq, s("HostObj"))),
                vec![interp(vec![lit("<"), hole(access(id("v"), "tag")), lit(">")])],
                Some(vec![id("v")]),
            )],
        ),
    )]
}

/// a metakey function that prints its name, self tag and operand, then returns `result`
fn mfn(name: &str, args: &[&str], result: X) -> X {
    let mut items = vec![s(name), access(id("self"), "tag")];
    for a in args {
        items.push(callf("rp", vec![id(a)]));
    }
    func(args, vec![print(tuple(items)), result])
}

fn guarded(stmt: Vec<X>) -> X {
    x(E::Try(
        blk(stmt),
        vec![CatchArm { pat: Pat::Id("err".into(), None), body: blk(vec![print(s("error"))]) }],
        None,
    ))
}

fn op_name(op: Op) -> &'static str {
    op.text()
}

pub fn generate(tier: Tier, emit: Emit) {
    gen_arith(tier, emit);
    gen_cmp(tier, emit);
    gen_protocols(tier, emit);
    gen_lookup(tier, emit);
    gen_host(tier, emit);
}

fn host(tag: &str, mask: u32) -> X {
    callf("mkhost", vec![s(tag), int(mask as i64)])
}

/// host objects (KotoObject trait + derive macros) obey the same dispatch rules
fn gen_host(_tier: Tier, emit: Emit) {
    let ops = [Op::Add, Op::Sub, Op::Mul, Op::Div, Op::Rem, Op::Pow];
    for (i, op) in ops.iter().enumerate() {
        let n = op_name(*op);
        let i = i as u32;
        let lefts: Vec<(&'static str, X)> = vec![
            ("host-impl", host("HL", 1 << i)),
            ("host-none", host("HL", 0)),
            ("obj-impl", mk(vec![(meta("type"), s("Obj")), (datak("tag"), s("L")), (meta(n), mfn(&format!("@{n}"), &["o"], s("res-l")))])),
            (
                "obj-unimpl",
                mk(vec![
                    (meta("type"), s("Obj")),
                    (datak("tag"), s("L")),
                    (meta(n), func(&["o"], vec![print(s("L unimplemented")), throw(access(id("koto"), "unimplemented"))])),
                ]),
            ),
            ("obj-none", mk(vec![(meta("type"), s("Obj")), (datak("tag"), s("L"))])),
            ("number", int(5)),
            ("string", s("str")),
        ];
        let rights: Vec<(&'static str, X)> = vec![
            ("host-rimpl", host("HR", 1 << (6 + i))),
            ("host-none", host("HR", 0)),
            ("host-lhs-only", host("HR", 1 << i)),
            ("obj-rimpl", mk(vec![(meta("type"), s("Obj")), (datak("tag"), s("R")), (meta(&format!("r{n}")), mfn(&format!("@r{n}"), &["o"], s("res-r")))])),
            ("obj-none", mk(vec![(meta("type"), s("Obj")), (datak("tag"), s("R"))])),
            ("number", int(3)),
        ];
        for (ln, l) in &lefts {
            for (rn, r) in &rights {
                if !ln.starts_with("host") && !rn.starts_with("host") {
                    continue;
                }
                let mut p = prelude();
                p.push(assign("a", l.clone()));
                p.push(assign("b", r.clone()));
                p.push(guarded(vec![assign("res", bin(*op, id("a"), id("b"))), print(callf("rp", vec![id("res")]))]));
                p.push(print(s("end")));
                emit(Case { family: "host-arith", prog: p, shape: vec![] });
            }
        }
        // compound assignment on a host object
        for assign_bit in [false, true] {
            for bin_bit in [false, true] {
                for (rn, r) in &rights {
                    let _ = rn;
                    let mask = (if assign_bit { 1 << (12 + i) } else { 0 }) | (if bin_bit { 1 << i } else { 0 });
                    let mut p = prelude();
                    p.push(assign("a", host("HL", mask)));
                    p.push(assign("alias", id("a")));
                    p.push(assign("b", r.clone()));
                    p.push(guarded(vec![x(E::OpAssign(*op, Tgt::Id("a".into()), id("b"))), print(callf("rp", vec![id("a")]))]));
                    p.push(guarded(vec![print(access(id("alias"), "val"))]));
                    emit(Case { family: "host-compound", prog: p, shape: vec![] });
                }
            }
        }
    }
    // comparisons
    let all_ops = [CmpOp::Eq, CmpOp::Ne, CmpOp::Lt, CmpOp::Le, CmpOp::Gt, CmpOp::Ge];
    for (less, equal, le) in [(false, false, false), (false, true, false), (true, false, false), (true, true, false), (true, true, true), (false, false, true), (true, false, true)] {
        {
            let mask = (if less { 1 << 18 } else { 0 }) | (if equal { 1 << 19 } else { 0 }) | (if le { 1 << 24 } else { 0 });
            for op in all_ops {
                for other in [int(3), host("HR", 0), s("x")] {
                    let mut p = prelude();
                    p.push(assign("a", host("HL", mask)));
                    p.push(assign("b", other));
                    p.push(guarded(vec![print(cmp(id("a"), op, id("b")))]));
                    p.push(guarded(vec![if_(cmp(id("a"), op, id("b")), vec![print(s("T"))], Some(vec![print(s("F"))]))]));
                    emit(Case { family: "host-cmp", prog: p, shape: vec![] });
                }
            }
        }
    }
    // unary / protocol operations x implemented or not
    let protos: Vec<(u32, Vec<X>)> = vec![
        (20, vec![print(x(E::Neg(id("o"))))]),
        (21, vec![print(index(id("o"), int(1)))]),
        (21, vec![print(callf("size", vec![id("o")]))]),
        (22, vec![print(callf("o", vec![int(4)]))]),
        (23, vec![print(interp(vec![lit("["), hole(id("o")), lit("]")]))]),
        (23, vec![print(list(vec![id("o")]))]),
        (0, vec![print(method(id("o"), "describe", vec![]))]),
        (0, vec![print(method(id("o"), "bump", vec![])), print(access(id("o"), "val"))]),
        (0, vec![print(access(id("o"), "tag"))]),
        (0, vec![print(method(id("o"), "no_such_method", vec![]))]),
        (0, vec![print(access(id("o"), "no_such_field"))]),
        (0, vec![print(callf("type", vec![id("o")]))]),
        (
            21,
            vec![
                assign(
                    "mr",
                    x(E::Match(
                        vec![id("o")],
                        vec![
                            Arm {
                                alts: vec![vec![Pat::Tuple(vec![Pat::Id("pa".into(), None), Pat::Id("pb".into(), None)], None)]],
                                guard: None,
                                body: blk(vec![tuple(vec![s("unpacked"), id("pa"), id("pb")])]),
                                is_else: false,
                            },
                            Arm { alts: vec![], guard: None, body: blk(vec![s("no match")]), is_else: true },
                        ],
                    )),
                ),
                print(id("mr")),
            ],
        ),
    ];
    for (bit, body) in &protos {
        for on in [false, true] {
            let mask = if on && *bit != 0 { 1u32 << bit } else { 0 };
            let mut p = prelude();
            p.push(assign("o", host("H", mask)));
            p.push(guarded(body.clone()));
            p.push(print(s("end")));
            emit(Case { family: "host-protocol", prog: p, shape: vec![] });
        }
    }
}

fn gen_arith(_tier: Tier, emit: Emit) {
    let ops = [Op::Add, Op::Sub, Op::Mul, Op::Div, Op::Rem, Op::Pow];
    for op in ops {
        let n = op_name(op);
        // left operand classes
        let lefts: Vec<(&'static str, X)> = vec![
            ("impl", mk(vec![(meta("type"), s("Obj")), (datak("tag"), s("L")), (meta(n), mfn(&format!("@{n}"), &["o"], s("res-l")))])),
            (
                "unimpl",
                mk(vec![
                    (meta("type"), s("Obj")),
                    (datak("tag"), s("L")),
                    (meta(n), func(&["o"], vec![print(s("L unimplemented")), throw(access(id("koto"), "unimplemented"))])),
                ]),
            ),
            (
                "throws",
                mk(vec![(meta("type"), s("Obj")), (datak("tag"), s("L")), (meta(n), func(&["o"], vec![print(s("L throws")), throw(s("nope"))]))]),
            ),
            ("none", mk(vec![(meta("type"), s("Obj")), (datak("tag"), s("L"))])),
            ("number", int(5)),
            ("string", s("str")),
            ("list", list(vec![int(1)])),
            ("plain-map", map(vec![("p", int(1))])),
        ];
        let rights: Vec<(&'static str, X)> = vec![
            ("rimpl", mk(vec![(meta("type"), s("Obj")), (datak("tag"), s("R")), (meta(&format!("r{n}")), mfn(&format!("@r{n}"), &["o"], s("res-r")))])),
            ("none", mk(vec![(meta("type"), s("Obj")), (datak("tag"), s("R"))])),
            ("number", int(3)),
            ("list", list(vec![int(2)])),
        ];
        for (ln, l) in &lefts {
            for (rn, r) in &rights {
                let _ = (ln, rn);
                // binary form
                let mut p = prelude();
                p.push(assign("a", l.clone()));
                p.push(assign("b", r.clone()));
                p.push(guarded(vec![assign("res", bin(op, id("a"), id("b"))), print(callf("rp", vec![id("res")]))]));
                p.push(print(s("end")));
                emit(Case { family: "arith", prog: p, shape: vec![] });
                // the same operation repeated in a loop in one frame (operator frames must not
                // accumulate)
                if (*ln == "impl" && *rn == "number") || (*ln == "number" && *rn == "rimpl") || (*ln == "unimpl" && *rn == "rimpl") {
                    // silent metakey functions that count their calls
                    let lq = match *ln {
                        "impl" => mk(vec![
                            (meta("type"), s("Obj")),
                            (datak("tag"), s("L")),
                            (datak("calls"), int(0)),
                            (meta(n), func(&["o"], vec![x(E::OpAssign(Op::Add, Tgt::Access(id("self"), "calls".into()), int(1))), s("res-l")])),
                        ]),
                        "unimpl" => mk(vec![
                            (meta("type"), s("Obj")),
                            (datak("tag"), s("L")),
                            (datak("calls"), int(0)),
                            (meta(n), func(&["o"], vec![x(E::OpAssign(Op::Add, Tgt::Access(id("self"), "calls".into()), int(1))), throw(access(id("koto"), "unimplemented"))])),
                        ]),
                        _ => l.clone(),
                    };
                    let rq = match *rn {
                        "rimpl" => mk(vec![
                            (meta("type"), s("Obj")),
                            (datak("tag"), s("R")),
                            (datak("calls"), int(0)),
                            (meta(&format!("r{n}")), func(&["o"], vec![x(E::OpAssign(Op::Add, Tgt::Access(id("self"), "calls".into()), int(1))), s("res-r")])),
                        ]),
                        _ => r.clone(),
                    };
                    let mut p = prelude();
                    p.push(assign("a", lq));
                    p.push(assign("b", rq));
                    p.push(assign("count", int(0)));
                    p.push(guarded(vec![x(E::For(
                        vec![Pat::Id("i".into(), None)],
                        x(E::Range(Some(int(0)), Some(int(300)), false)),
                        blk(vec![assign("res", bin(op, id("a"), id("b"))), x(E::OpAssign(Op::Add, Tgt::Id("count".into()), int(1)))]),
                    ))]));
                    p.push(print(tuple(vec![id("count"), callf("rp", vec![id("res")])])));
                    emit(Case { family: "arith-loop", prog: p, shape: vec!["overloaded-op-in-loop"] });
                }
            }
        }
        // compound assignment: with and without @op=
        for has_compound in [false, true] {
            for has_binary in [false, true] {
                for (rn, r) in &rights {
                    let _ = rn;
                    let mut entries = vec![(meta("type"), s("Obj")), (datak("tag"), s("L")), (datak("val"), int(1))];
                    if has_compound {
                        entries.push((
                            meta(&format!("{n}=")),
                            func(&["o"], vec![print(tuple(vec![s("compound"), callf("rp", vec![id("o")])])), x(E::OpAssign(Op::Add, Tgt::Access(id("self"), "val".into()), int(10))), id("self")]),
                        ));
                    }
                    if has_binary {
                        entries.push((meta(n), mfn(&format!("@{n}"), &["o"], s("res-l"))));
                    }
                    let mut p = prelude();
                    p.push(assign("a", mk(entries)));
                    p.push(assign("b", r.clone()));
                    p.push(guarded(vec![x(E::OpAssign(op, Tgt::Id("a".into()), id("b"))), print(callf("rp", vec![id("a")]))]));
                    p.push(guarded(vec![print(access(id("a"), "val"))]));
                    emit(Case { family: "compound", prog: p, shape: vec![] });
                }
            }
        }
    }
}

fn gen_cmp(_tier: Tier, emit: Emit) {
    let keys = ["==", "!=", "<", "<=", ">", ">="];
    let results: [bool; 6] = [true, false, false, true, true, false];
    let all_ops = [CmpOp::Eq, CmpOp::Ne, CmpOp::Lt, CmpOp::Le, CmpOp::Gt, CmpOp::Ge];
    for subset in 0..64u32 {
        let mut entries = vec![(meta("type"), s("Obj")), (datak("tag"), s("L"))];
        for (i, k) in keys.iter().enumerate() {
            if subset & (1 << i) != 0 {
                entries.push((meta(k), mfn(&format!("@{k}"), &["o"], boolean(results[i]))));
            }
        }
        let obj = mk(entries);
        for op in all_ops {
            for other in [0usize, 1, 2] {
                let o: X = match other {
                    0 => mk(vec![(meta("type"), s("Obj")), (datak("tag"), s("R"))]),
                    1 => int(3),
                    _ => s("x"),
                };
                let mut p = prelude();
                p.push(assign("a", obj.clone()));
                p.push(assign("b", o));
                p.push(guarded(vec![assign("res", cmp(id("a"), op, id("b"))), print(id("res"))]));
                // in a condition and in a chain
                p.push(guarded(vec![if_(cmp(id("a"), op, id("b")), vec![print(s("T"))], Some(vec![print(s("F"))]))]));
                emit(Case { family: "cmp", prog: p, shape: vec![] });
            }
        }
    }
    // derived comparisons repeated in a loop in one frame
    for op in all_ops {
        let obj = mk(vec![
            (meta("type"), s("Obj")),
            (datak("tag"), s("L")),
            (meta("<"), func_inline(&["o"], boolean(false))),
            (meta("=="), func_inline(&["o"], boolean(false))),
        ]);
        let mut p = prelude();
        p.push(assign("a", obj));
        p.push(assign("count", int(0)));
        p.push(guarded(vec![x(E::For(
            vec![Pat::Id("i".into(), None)],
            x(E::Range(Some(int(0)), Some(int(300)), false)),
            blk(vec![assign("res", cmp(id("a"), op, int(1))), x(E::OpAssign(Op::Add, Tgt::Id("count".into()), int(1)))]),
        ))]));
        p.push(print(tuple(vec![id("count"), id("res")])));
        emit(Case { family: "cmp-loop", prog: p, shape: vec!["overloaded-op-in-loop"] });
    }
    // the other derivation: @< returns true / @== returns true variations
    for lt in [false, true] {
        for eq in [false, true] {
            let obj = mk(vec![
                (meta("type"), s("Obj")),
                (datak("tag"), s("L")),
                (meta("<"), mfn("@<", &["o"], boolean(lt))),
                (meta("=="), mfn("@==", &["o"], boolean(eq))),
            ]);
            for op in all_ops {
                let mut p = prelude();
                p.push(assign("a", obj.clone()));
                p.push(guarded(vec![print(cmp(id("a"), op, int(1)))]));
                // objects inside containers are compared through their @==
                p.push(guarded(vec![print(cmp(list(vec![id("a")]), CmpOp::Eq, list(vec![id("a")])))]));
                emit(Case { family: "cmp-derived", prog: p, shape: vec![] });
            }
        }
    }
}

fn gen_protocols(tier: Tier, emit: Emit) {
    // candidate metakeys with printing implementations
    let cands: Vec<(&'static str, X)> = vec![
        ("negate", mfn("@negate", &[], s("negated"))),
        ("size", mfn("@size", &[], int(2))),
        ("index", mfn("@index", &["i"], bin(Op::Mul, id("i"), int(10)))),
        ("index_assign", mfn("@index_assign", &["i", "v"], null())),
        ("access", func(&["k"], vec![print(tuple(vec![s("@access"), id("k")])), s("accessed")])),
        ("access_assign", mfn("@access_assign", &["k", "v"], null())),
        ("call", mfn("@call", &["p"], s("called"))),
        ("iterator", func(&[], vec![print(s("@iterator")), tuple(vec![int(7), int(8)])])),
        (
            "next",
            func(
                &[],
                vec![
                    print(s("@next")),
                    x(E::OpAssign(Op::Add, Tgt::Access(id("self"), "n".into()), int(1))),
                    if_(cmp(access(id("self"), "n"), CmpOp::Le, int(2)), vec![access(id("self"), "n")], Some(vec![null()])),
                ],
            ),
        ),
        ("display", func(&[], vec![s("DISPLAYED")])),
        ("type", s("Obj")),
    ];
    let ops: Vec<(&'static str, Vec<X>)> = vec![
        ("neg", vec![print(x(E::Neg(id("o"))))]),
        ("size", vec![print(callf("size", vec![id("o")]))]),
        ("index", vec![print(index(id("o"), int(1)))]),
        ("index-assign", vec![x(E::Assign(Tgt::Index(id("o"), int(1)), int(5))), print(s("assigned"))]),
        ("access", vec![print(access(id("o"), "tag"))]),
        ("access-missing", vec![print(access(id("o"), "missing"))]),
        ("access-assign", vec![x(E::Assign(Tgt::Access(id("o"), "fresh".into()), int(5))), print(s("assigned"))]),
        ("call", vec![print(callf("o", vec![int(4)]))]),
        ("for", vec![x(E::For(vec![Pat::Id("it".into(), None)], id("o"), blk(vec![print(tuple(vec![s("item"), id("it")]))])))]),
        ("to-tuple", vec![print(method(id("o"), "to_tuple", vec![]))]),
        ("display", vec![print(interp(vec![lit("["), hole(id("o")), lit("]")]))]),
        ("print", vec![print(id("o"))]),
        ("in-list", vec![print(list(vec![id("o")]))]),
        ("type", vec![print(callf("type", vec![id("o")]))]),
        (
            "match-tuple",
            vec![
                assign(
                    "mr",
                    x(E::Match(
                        vec![id("o")],
                        vec![
                            Arm {
                                alts: vec![vec![Pat::Tuple(vec![Pat::Id("pa".into(), None), Pat::Id("pb".into(), None)], None)]],
                                guard: None,
                                body: blk(vec![tuple(vec![s("unpacked"), id("pa"), id("pb")])]),
                                is_else: false,
                            },
                            Arm { alts: vec![], guard: None, body: blk(vec![s("no match")]), is_else: true },
                        ],
                    )),
                ),
                print(id("mr")),
            ],
        ),
    ];
    let n = cands.len();
    let mut subsets: Vec<Vec<usize>> = vec![vec![]];
    for i in 0..n {
        subsets.push(vec![i]);
        for j in (i + 1)..n {
            subsets.push(vec![i, j]);
            if tier == Tier::Thorough {
                for k in (j + 1)..n {
                    subsets.push(vec![i, j, k]);
                }
            }
        }
    }
    for sub in &subsets {
        // @access intercepts every '.' access, including the ones the other metakey functions
        // make on self (the guide warns about this): combine @access only with itself
        let names: Vec<&str> = sub.iter().map(|i| cands[*i].0).collect();
        if names.contains(&"access") && names.iter().any(|n| !matches!(*n, "access" | "type" | "display" | "iterator")) {
            continue;
        }
        let mut entries = vec![(datak("tag"), s("O")), (datak("n"), int(0))];
        for i in sub {
            entries.push((meta(cands[*i].0), cands[*i].1.clone()));
        }
        if sub.is_empty() {
            // a plain map (no metamap at all) as the control
        }
        for (on, body) in &ops {
            let _ = on;
            let mut p = prelude();
            p.push(assign("o", mk(entries.clone())));
            p.push(guarded(body.clone()));
            p.push(print(s("end")));
            let mut shape = vec![];
            if names.contains(&"access") {
                shape.push("has-access-metakey");
            }
            emit(Case { family: "protocol", prog: p, shape });
        }
    }
}

fn gen_lookup(_tier: Tier, emit: Emit) {
    // where the key `k` is defined
    let places = ["own-data", "own-meta", "base-data", "base-meta", "base2-data", "base2-meta", "nowhere"];
    for (pi, place) in places.iter().enumerate() {
        for (qi, place2) in places.iter().enumerate() {
            if qi < pi {
                continue;
            }
            let define = |at: &str, entries: &mut Vec<(MK, X)>, level: &str, val: &str| {
                if at == format!("{level}-data") {
                    entries.push((datak("k"), s(val)));
                    entries.push((datak("f"), func_inline(&[], tuple(vec![s(val), access(id("self"), "tag")]))));
                } else if at == format!("{level}-meta") {
                    entries.push((MK::Meta("meta".into(), Some("k".into())), s(val)));
                    entries.push((MK::Meta("meta".into(), Some("f".into())), func_inline(&[], tuple(vec![s(val), access(id("self"), "tag")]))));
                }
            };
            let mut base2 = vec![(meta("type"), s("Base2")), (datak("tag"), s("B2"))];
            let mut base = vec![(meta("type"), s("Base")), (datak("tag"), s("B1")), (meta("base"), id("base2"))];
            let mut own = vec![(meta("type"), s("Obj")), (datak("tag"), s("O")), (meta("base"), id("base1"))];
            for (which, val) in [(place, "first"), (place2, "second")] {
                if *which == "nowhere" {
                    continue;
                }
                if pi == qi && val == "second" {
                    continue;
                }
                define(which, &mut own, "own", val);
                define(which, &mut base, "base", val);
                define(which, &mut base2, "base2", val);
            }
            let p = vec![
                assign("base2", mk(base2)),
                assign("base1", mk(base)),
                assign("o", mk(own)),
                guarded(vec![print(access(id("o"), "k"))]),
                guarded(vec![print(method(id("o"), "f", vec![]))]),
                guarded(vec![print(callf("type", vec![id("o")]))]),
                // a metamap shared through with_meta behaves like an own one
                assign("shared", method(map(vec![("tag", s("S"))]), "with_meta", vec![id("o")])),
                guarded(vec![print(access(id("shared"), "k"))]),
                guarded(vec![print(method(id("shared"), "f", vec![]))]),
                guarded(vec![print(callf("type", vec![id("shared")]))]),
            ];
            emit(Case { family: "lookup", prog: p, shape: vec![] });
        }
    }
}

pub fn classify(_case: &Case, _v: &Verdict, _real: &crate::run::Obs, _rf: Option<&crate::kref::RefObs>) -> Option<String> {
    None
}
