//! C14 — value model: sharing, copying, equality, ordering and map keys.
//!
//! (1) Histories: BFS over the state graph of the abstract heap model (kref's heap of shared
//!     lists/maps), states canonicalised by values + sharing matrix; every transition is replayed
//!     on the real runtime as one script and the complete output compared.
//! (2) Laws: equality / ordering / key / sort laws over all pairs and triples of a boundary pool,
//!     evaluated on the real runtime (model-free).

use crate::common::*;
use crate::kast::*;
use crate::kref::{RefOutcome, run_reference};
use crate::run::*;
use serde_json::json;
use std::collections::HashSet;
use std::rc::Rc;

fn guarded_stmt(st: X) -> X {
    x(E::Try(
        blk(vec![st]),
        vec![CatchArm { pat: Pat::Id("err".into(), None), body: blk(vec![print(s("err"))]) }],
        None,
    ))
}

fn alphabet() -> Vec<(&'static str, Vec<X>)> {
    let rng = |a: i64, b: i64| x(E::Range(Some(int(a)), Some(int(b)), false));
    let m = |e: X, name: &str, args: Vec<X>| method(e, name, args);
    vec![
        ("a=list", vec![assign("a", list(vec![int(1), int(2)]))]),
        ("a=map", vec![assign("a", map(vec![("x", int(1)), ("y", int(2))]))]),
        ("a=tuple-with-list", vec![assign("a", tuple(vec![int(1), list(vec![int(2)])]))]),
        ("a=nested-list", vec![assign("a", list(vec![list(vec![int(1)]), list(vec![int(2)])]))]),
        ("a=nested-tuple", vec![assign("a", tuple(vec![tuple(vec![int(1), list(vec![int(2)])]), int(3)]))]),
        ("a=list-tuple-tuple-map", vec![assign("a", list(vec![tuple(vec![tuple(vec![s("k"), map(vec![("x", int(1))])]), int(0)])]))]),
        ("a=wrap-b-in-tuples", vec![assign("a", tuple(vec![tuple(vec![id("b"), int(0)]), int(1)]))]),
        ("c=deep-copy-b", vec![assign("c", call(access(id("koto"), "deep_copy"), vec![id("b")]))]),
        ("c=copy-a", vec![assign("c", call(access(id("koto"), "copy"), vec![id("a")]))]),
        ("b[0][1].push", vec![m(index(index(id("b"), int(0)), int(1)), "push", vec![int(5)])]),
        ("a[0][0].push", vec![m(index(index(id("a"), int(0)), int(0)), "push", vec![int(6)])]),
        ("b[0][0].push", vec![m(index(index(id("b"), int(0)), int(0)), "push", vec![int(6)])]),
        ("b[0][0][1].x=42", vec![x(E::Assign(Tgt::Access(index(index(index(id("b"), int(0)), int(0)), int(1)), "x".into()), int(42)))]),
        ("b=a", vec![assign("b", id("a"))]),
        ("c=b", vec![assign("c", id("b"))]),
        ("a=b", vec![assign("a", id("b"))]),
        ("b=copy-a", vec![assign("b", call(access(id("koto"), "copy"), vec![id("a")]))]),
        ("b=deep-copy-a", vec![assign("b", call(access(id("koto"), "deep_copy"), vec![id("a")]))]),
        ("a.push", vec![m(id("a"), "push", vec![int(7)])]),
        ("b.push", vec![m(id("b"), "push", vec![int(8)])]),
        ("a.pop", vec![m(id("a"), "pop", vec![])]),
        ("a[0]=9", vec![x(E::Assign(Tgt::Index(id("a"), int(0)), int(9)))]),
        ("a.insert-front", vec![m(id("a"), "insert", vec![int(0), int(5)])]),
        ("a.remove0", vec![m(id("a"), "remove", vec![int(0)])]),
        ("a.sort", vec![m(id("a"), "sort", vec![])]),
        ("a.reverse", vec![m(id("a"), "reverse", vec![])]),
        ("a.extend-b", vec![m(id("a"), "extend", vec![id("b")])]),
        ("a=a+b", vec![assign("a", bin(Op::Add, id("a"), id("b")))]),
        ("b=a-slice", vec![assign("b", index(id("a"), rng(0, 1)))]),
        ("a.push-b", vec![m(id("a"), "push", vec![id("b")])]),
        ("a[0].push", vec![m(index(id("a"), int(0)), "push", vec![int(3)])]),
        ("a[1].push", vec![m(index(id("a"), int(1)), "push", vec![int(4)])]),
        ("b=a[1]", vec![assign("b", index(id("a"), int(1)))]),
        ("a.insert-z", vec![m(id("a"), "insert", vec![s("z"), int(5)])]),
        ("a.insert-x", vec![m(id("a"), "insert", vec![s("x"), int(6)])]),
        ("a.insert-int-key", vec![m(id("a"), "insert", vec![int(1), s("i")])]),
        ("a.insert-tuple-key", vec![m(id("a"), "insert", vec![tuple(vec![int(1), s("t")]), s("tk")])]),
        ("a.remove-x", vec![m(id("a"), "remove", vec![s("x")])]),
        ("a.x=5", vec![x(E::Assign(Tgt::Access(id("a"), "x".into()), int(5)))]),
        ("a.w=[]", vec![x(E::Assign(Tgt::Access(id("a"), "w".into()), list(vec![])))]),
        ("a.w.push", vec![m(access(id("a"), "w"), "push", vec![int(1)])]),
        ("a[0]=entry-new", vec![x(E::Assign(Tgt::Index(id("a"), int(0)), tuple(vec![s("k"), int(9)])))]),
        ("a[1]=entry-new", vec![x(E::Assign(Tgt::Index(id("a"), int(1)), tuple(vec![s("k2"), int(8)])))]),
        // index assignment with a key that already exists at another position
        ("a[2]=entry-x", vec![x(E::Assign(Tgt::Index(id("a"), int(2)), tuple(vec![s("x"), int(70)])))]),
        ("a[1]=entry-z", vec![x(E::Assign(Tgt::Index(id("a"), int(1)), tuple(vec![s("z"), int(71)])))]),
        ("a[0]=entry-g3", vec![x(E::Assign(Tgt::Index(id("a"), int(0)), tuple(vec![s("g3"), int(72)])))]),
        ("a[3]=entry-g0", vec![x(E::Assign(Tgt::Index(id("a"), int(3)), tuple(vec![s("g0"), int(73)])))]),
        ("a.update-x", vec![m(id("a"), "update", vec![s("x"), func_inline(&["v"], bin(Op::Add, id("v"), int(1)))])]),
        ("a.update-new", vec![m(id("a"), "update", vec![s("n"), int(10), func_inline(&["v"], bin(Op::Mul, id("v"), int(2)))])]),
        ("a.map-extend-b", vec![m(id("a"), "extend", vec![id("b")])]),
        ("a.map-sort", vec![m(id("a"), "sort", vec![])]),
        ("a.clear", vec![m(id("a"), "clear", vec![])]),
        ("grow-a-by-9", (0..9).map(|i| guarded_stmt(m(id("a"), "push", vec![int(20 + i)]))).collect()),
        ("grow-map-a-by-9", (0..9).map(|i| guarded_stmt(m(id("a"), "insert", vec![s(&format!("g{i}")), int(i)]))).collect()),
        ("mutate-through-function", vec![callf("mutator", vec![id("a")])]),
        ("mutate-through-closure", vec![assign("clo", func(&[], vec![m(id("a"), "push", vec![int(6)])])), callf("clo", vec![])]),
        ("capture-then-rebind", vec![assign("clo2", func(&[], vec![id("a")])), assign("a", list(vec![int(0)])), assign("c", callf("clo2", vec![]))]),
    ]
}

fn prelude() -> Vec<X> {
    vec![
        assign("a", null()),
        assign("b", null()),
        assign("c", null()),
        assign("mutator", func(&["q"], vec![method(id("q"), "push", vec![int(8)])])),
        // sharing probe: mutate through one alias, observe through the other, undo
        assign(
            "sh",
            func(
                &["p", "q"],
                vec![x(E::If(
                    vec![
                        (
                            bin(Op::And, cmp(callf("type", vec![id("p")]), CmpOp::Eq, s("List")), cmp(callf("type", vec![id("q")]), CmpOp::Eq, s("List"))),
                            blk(vec![
                                method(id("p"), "push", vec![s("S!")]),
                                assign("res", cmp(method(id("q"), "last", vec![]), CmpOp::Eq, s("S!"))),
                                method(id("p"), "pop", vec![]),
                                id("res"),
                            ]),
                        ),
                        (
                            bin(Op::And, cmp(callf("type", vec![id("p")]), CmpOp::Eq, s("Map")), cmp(callf("type", vec![id("q")]), CmpOp::Eq, s("Map"))),
                            blk(vec![
                                method(id("p"), "insert", vec![s("S!"), int(0)]),
                                assign("res", method(id("q"), "contains_key", vec![s("S!")])),
                                method(id("p"), "remove", vec![s("S!")]),
                                id("res"),
                            ]),
                        ),
                    ],
                    Some(blk(vec![boolean(false)])),
                ))],
            ),
        ),
    ]
}

fn probe() -> Vec<X> {
    let pair = |p: X, q: X| guarded_stmt(print(callf("sh", vec![p, q])));
    vec![
        print(tuple(vec![id("a"), id("b"), id("c")])),
        pair(id("a"), id("b")),
        pair(id("a"), id("c")),
        pair(id("b"), id("c")),
        pair(index(id("a"), int(1)), index(id("b"), int(1))),
        pair(index(id("a"), int(0)), index(id("b"), int(0))),
        pair(index(id("a"), int(0)), id("b")),
        pair(index(id("a"), int(1)), id("b")),
        pair(access(id("a"), "w"), access(id("b"), "w")),
        pair(index(index(id("a"), int(0)), int(1)), index(index(id("b"), int(0)), int(1))),
        pair(index(index(id("a"), int(0)), int(0)), index(index(id("b"), int(0)), int(0))),
        pair(index(index(index(id("a"), int(0)), int(0)), int(1)), index(index(index(id("b"), int(0)), int(0)), int(1))),
        pair(index(index(id("a"), int(0)), int(0)), index(index(id("c"), int(0)), int(0))),
        // hidden capacity classes are part of the key
        guarded_stmt(print(tuple(vec![
            cmp(callf("size", vec![id("a")]), CmpOp::Gt, int(4)),
            cmp(callf("size", vec![id("a")]), CmpOp::Gt, int(8)),
        ]))),
        print(s("probe-end")),
    ]
}

fn program(hist: &[usize], alpha: &[(&'static str, Vec<X>)]) -> Vec<X> {
    let mut p = prelude();
    for i in hist {
        for st in &alpha[*i].1 {
            p.push(guarded_stmt(st.clone()));
        }
        p.push(print(tuple(vec![id("a"), id("b"), id("c")])));
    }
    p.extend(probe());
    p
}

pub fn run(args: &Args) -> i32 {
    install_quiet_panic_hook();
    let tier = args.tier;
    if let Some(path) = &args.replay {
        let text = std::fs::read_to_string(path).unwrap_or_default();
        let src = match text.split_once("--- program ---\n") {
            Some((_, p)) => p.to_string(),
            None => text,
        };
        let a = run_script(&src, &RunCfg::default());
        println!("stdout:\n{}outcome: {:?}", a.stdout, a.outcome);
        return 0;
    }
    if let Ok(h) = std::env::var("KV_HIST") {
        let hist: Vec<usize> = h.split(',').map(|t| t.trim().parse().unwrap()).collect();
        let alpha = alphabet();
        let prog = program(&hist, &alpha);
        println!("{}", render_program(&prog));
        let which = std::env::var("KV_WHICH").unwrap_or_default();
        if which != "koto" {
            let rf = run_reference(&prog, true, 400_000);
            println!("ref: {:?}\n{}", rf.outcome, rf.stdout);
        }
        if which != "ref" {
            let real = run_script(&render_program(&prog), &RunCfg::default());
            println!("koto: {:?}\n{}", real.outcome, real.stdout);
        }
        return 0;
    }
    let mut report = Report::new(args, "model_checking");
    let alpha_names: Vec<&'static str> = alphabet().iter().map(|(n, _)| *n).collect();
    let n_ops = alpha_names.len();
    let max_depth = tier.pick(4usize, 5usize);
    let mut seen: HashSet<u64> = HashSet::new();
    let mut frontier: Vec<Vec<usize>> = vec![vec![]];
    let mut states = 1u64;
    let mut transitions = 0u64;
    let mut validated = 0u64;
    let mut unmodelled = 0u64;
    let mut per_depth = vec![];
    let mut samples = vec![];
    let started = std::time::Instant::now();
    let wall_cap = tier.pick(45.0, 900.0);
    let mut depth_completed = 0;
    let mut capped = false;
    for depth in 1..=max_depth {
        let mut candidates: Vec<Vec<usize>> = vec![];
        for h in &frontier {
            for i in 0..n_ops {
                let mut n = h.clone();
                n.push(i);
                candidates.push(n);
            }
        }
        let nshards = threads() * 4;
        let results = par_shards_big_stack(nshards, 64 << 20, |shard| {
            let alpha = alphabet();
            let mut out = vec![];
            for (ci, hist) in candidates.iter().enumerate() {
                if ci % nshards != shard {
                    continue;
                }
                let prog = program(hist, &alpha);
                if std::env::var("KV_TRACE").is_ok() {
                    eprintln!("TRACE {:?} {:?}", std::thread::current().id(), hist);
                }
                let rf = run_reference(&prog, true, 400_000);
                let key = match &rf.outcome {
                    RefOutcome::Ok(_) => {
                        // canonical key: the final probe block of the model's output
                        let tail = rf.stdout.rsplit_once("probe-end").map(|(a, _)| a).unwrap_or(&rf.stdout);
                        let lines: Vec<&str> = tail.lines().collect();
                        let k = lines[lines.len().saturating_sub(probe().len() - 1)..].join("|");
                        Some(k)
                    }
                    _ => None,
                };
                let Some(key) = key else {
                    if std::env::var("KV_DEBUG").is_ok() {
                        eprintln!("UNMODELLED {:?} {:?}", hist, rf.outcome);
                    }
                    out.push((ci, None, None));
                    continue;
                };
                let src = render_program(&prog);
                let real = run_script(&src, &RunCfg::default());
                let mismatch = if real.stdout != rf.stdout || !matches!(real.outcome, Outcome::Ok(_)) {
                    Some((src, real.stdout.clone(), format!("{:?}", real.outcome), rf.stdout.clone()))
                } else {
                    None
                };
                out.push((ci, Some(key), mismatch));
            }
            out
        });
        let mut flat: Vec<(usize, Option<String>, Option<(String, String, String, String)>)> = results.into_iter().flatten().collect();
        flat.sort_by_key(|(ci, _, _)| *ci);
        let mut next = vec![];
        for (ci, key, mismatch) in flat {
            transitions += 1;
            let hist = &candidates[ci];
            let names: Vec<&str> = hist.iter().map(|i| alpha_names[*i]).collect();
            let Some(key) = key else {
                unmodelled += 1;
                continue;
            };
            validated += 1;
            if let Some((src, real_out, real_outcome, ref_out)) = mismatch {
                let (line_real, line_ref) = first_diff(&real_out, &ref_out);
                report.fail(
                    classify(&names, &line_real, &line_ref).as_deref(),
                    format!("[history] after {}: koto prints {:?} where the heap model prints {:?} ({})", names.join(" ; "), line_real, line_ref, real_outcome),
                    format!(
                        "history: {}\nfirst differing line: koto {:?} vs model {:?}\nkoto outcome: {}\n--- model output ---\n{}--- koto output ---\n{}--- program ---\n{}",
                        names.join(" ; "),
                        line_real,
                        line_ref,
                        real_outcome,
                        ref_out,
                        real_out,
                        src
                    ),
                );
                continue; // do not expand states the implementation disagrees on
            }
            if seen.insert(hash_of(&key)) {
                states += 1;
                if samples.len() < 5 && states % 97 == 5 {
                    samples.push(format!("{} => {}", names.join(" ; "), key));
                }
                next.push(hist.clone());
            }
        }
        per_depth.push(next.len() as u64);
        frontier = next;
        depth_completed = depth;
        if started.elapsed().as_secs_f64() > wall_cap {
            capped = depth < max_depth;
            break;
        }
    }
    // (2) laws
    let law_stats = run_laws(tier, &mut report);
    report.cov("states", states);
    report.cov("transitions", transitions);
    report.cov("traces_validated_against_impl", validated);
    report.cov("evaluations", transitions + law_stats.0);
    report.cov("distinct_nontrivial", states + law_stats.1);
    report.cov("alphabet", json!(alpha_names));
    report.cov("depth_completed", depth_completed as u64);
    report.cov("new_states_per_depth", json!(per_depth));
    report.cov("transitions_skipped_unmodelled", unmodelled);
    report.cov("law_checks", law_stats.0);
    report.cov("exhaustive", !capped);
    if capped {
        report.cov("cap_hit", format!("wall cap {wall_cap} s reached after depth {depth_completed}"));
    }
    report.cov("rule", format!("(1) BFS over the abstract heap model's state graph: {n_ops}-operation alphabet over variables a, b, c (construction, aliasing, copy / deep_copy, list and map mutation incl. index assignment, update, extend, sort, slices, nesting, growth across capacity thresholds, mutation through functions and closures), depth <= {max_depth}; canonical key = final values + pairwise sharing matrix (mutate-through-one / observe-through-other probes) + capacity classes; every transition is replayed on the real runtime as one script whose complete output (all variables after every step + the sharing probes) must equal the model's. (2) laws over all pairs/triples of a boundary pool on the real runtime: == reflexive/symmetric, != its negation, < a strict total order on numbers and strings consistent with <= > >=, keys address the same entry iff equal (map sizes 1/3/9/20), sort yields an ordered permutation, tuples/strings/ranges never change"));
    if samples.is_empty() {
        samples.push("a=list".into());
    }
    report.cov("samples", json!(samples));
    report.assume("merging states by abstract heap is sound only if the implementation has no hidden state: the known hidden parameters (capacity classes len <= 4 / > 4, <= 8 / > 8) are part of the key");
    report.finish()
}

fn first_diff(a: &str, b: &str) -> (String, String) {
    let mut ia = a.lines();
    let mut ib = b.lines();
    loop {
        match (ia.next(), ib.next()) {
            (Some(x), Some(y)) if x == y => continue,
            (x, y) => return (x.unwrap_or("<end>").to_string(), y.unwrap_or("<end>").to_string()),
        }
    }
}

fn classify(_names: &[&str], _real: &str, _model: &str) -> Option<String> {
    None
}

// ---------------------------------------------------------------------------------------------
// laws

fn law_pool() -> Vec<&'static str> {
    vec![
        "null", "true", "false", "0", "1", "-1", "1.0", "1.5", "-0.0", "9007199254740992", "9007199254740993", "9007199254740992.0",
        "(-9223372036854775807 - 1)", "9223372036854775807", "9223372036854775807.0", "1e300", "''", "'a'", "'A'", "'é'", "'ab'", "'b'", "()", "(1,)", "(1, 2)",
        "(1.0, 2)", "[]", "[1]", "[[1]]", "[1.0]", "{}", "{a: 1}", "{a: 1.0}", "{b: 1}", "0..1", "0..=0", "0..2", "(1, 'a')", "('a', 1)",
    ]
}

fn hashable(v: &str) -> bool {
    !(v.starts_with('[') || v.starts_with('{'))
}

fn run_laws(tier: Tier, report: &mut Report) -> (u64, u64) {
    let pool = law_pool();
    let mut scripts: Vec<(String, String, String)> = vec![]; // (label, script, expected stdout)
    // pair laws
    for a in &pool {
        for b in &pool {
            let mut sc = format!("x = {a}\ny = {b}\n");
            let mut exp = String::new();
            // reflexive / symmetric / negation
            sc.push_str("print x == x\nprint (x == y) == (y == x)\nprint (x != y) == (not (x == y))\n");
            exp.push_str("true\ntrue\ntrue\n");
            // equal values print identically unless they are numbers of different kinds
            let num = |v: &str| v.parse::<f64>().is_ok() || v.starts_with("(-9223");
            let strv = |v: &str| v.starts_with('\'');
            if (num(a) && num(b)) || (strv(a) && strv(b)) {
                // strict total order
                sc.push_str("lt = x < y\ngt = x > y\neq = x == y\nprint (if lt then 1 else 0) + (if gt then 1 else 0) + (if eq then 1 else 0)\nprint (x <= y) == (lt or eq)\nprint (x >= y) == (gt or eq)\nprint (x > y) == (y < x)\n");
                exp.push_str("1\ntrue\ntrue\ntrue\n");
            }
            if hashable(a) && hashable(b) {
                for n in [1usize, 3, 9, 20] {
                    sc.push_str(&format!("m = {{}}\nfor i in 0..{}\n  m.insert 'pad{{i}}', i\nm.insert x, 'v'\nprint (m.get(y) == 'v') == (x == y)\nprint m.contains_key(y) == (x == y)\nm.insert y, 'w'\nprint (size m) == {} + (if x == y then 1 else 2)\n", n - 1, n - 1));
                    exp.push_str("true\ntrue\ntrue\n");
                }
            }
            scripts.push((format!("pair {a} / {b}"), sc, exp));
        }
    }
    // transitivity over triples of numbers and of strings
    let nums: Vec<&&str> = pool.iter().filter(|v| v.parse::<f64>().is_ok() || v.starts_with("(-9223")).collect();
    let strs: Vec<&&str> = pool.iter().filter(|v| v.starts_with('\'')).collect();
    for set in [&nums, &strs] {
        for a in set.iter() {
            for b in set.iter() {
                for c in set.iter() {
                    let sc = format!("x = {a}\ny = {b}\nz = {c}\nprint (not (x < y and y < z)) or (x < z)\n");
                    scripts.push((format!("triple {a} / {b} / {c}"), sc, "true\n".into()));
                }
            }
        }
    }
    // sort: every list of length <= 4 over a 6-value sub-pool is an ordered permutation
    let sub = ["0", "1", "-1", "1.5", "2", "9007199254740993"];
    let ssub = ["'a'", "'b'", "'A'", "'ab'", "''", "'é'"];
    for set in [&sub, &ssub] {
        let maxlen = tier.pick(3usize, 4usize);
        let mut idx = vec![0usize; 0];
        fn rec(set: &[&str; 6], idx: &mut Vec<usize>, maxlen: usize, out: &mut Vec<(String, String, String)>) {
            if !idx.is_empty() {
                let items: Vec<&str> = idx.iter().map(|i| set[*i]).collect();
                let l = format!("[{}]", items.join(", "));
                let sc = format!(
                    "l = {l}\norig = koto.copy l\nr = l.sort()\nordered = true\nfor i in 1..(size l)\n  if l[i - 1] > l[i] then ordered = false\nprint ordered\nperm = (size l) == (size orig)\nfor v in orig\n  if l.to_tuple().keep(|q| q == v).count() != orig.to_tuple().keep(|q| q == v).count() then perm = false\nprint perm\nm = {{}}\nfor i, v in orig.enumerate()\n  m.insert v, i\nks = m.sort().keys().to_list()\nko = true\nfor i in 1..(size ks)\n  if ks[i - 1] > ks[i] then ko = false\nprint ko\nt = orig.to_tuple()\nst = t.sort_copy()\nprint st.to_list() == l\nprint t == orig.to_tuple()\n"
                );
                out.push((format!("sort {l}"), sc, "true\ntrue\ntrue\ntrue\ntrue\n".into()));
            }
            if idx.len() == maxlen {
                return;
            }
            for i in 0..6 {
                idx.push(i);
                rec(set, idx, maxlen, out);
                idx.pop();
            }
        }
        rec(set, &mut idx, maxlen, &mut scripts);
    }
    // immutability of tuples / strings / ranges: earlier aliases keep printing the same
    for (v, ops) in [
        ("(1, 2, 3)", vec!["y = x + (4,)", "y = x[0..1]", "y = x.sort_copy()", "y = x.to_list()\ny.push 9", "y = x\ny = y + (0,)"]),
        ("'abc'", vec!["y = x + 'd'", "y = x[0..1]", "y = x.to_uppercase()", "y = x.replace('a', 'z')", "y = x\ny = y + '!'"]),
        ("0..5", vec!["y = x.expanded 2", "y = x.union 9", "y = x.to_list()\ny.push 9", "for i in x\n  z = i"]),
    ] {
        for op in ops {
            let sc = format!("x = {v}\nbefore = '{{x}}'\nalias = x\n{op}\nprint '{{x}}' == before\nprint '{{alias}}' == before\n");
            scripts.push((format!("immutable {v}: {op}"), sc, "true\ntrue\n".into()));
        }
    }
    let results = par_shards_big_stack(scripts.len(), 64 << 20, |i| {
        let (_, sc, _) = &scripts[i];
        let obs = run_script(sc, &RunCfg { budget_ticks: 500_000, ..RunCfg::default() });
        (obs.stdout, obs.outcome)
    });
    let mut distinct: HashSet<u64> = HashSet::new();
    for ((label, sc, exp), (out, outcome)) in scripts.iter().zip(results.iter()) {
        distinct.insert(hash_of(&(out, label.split(' ').next())));
        if out != exp || !matches!(outcome, Outcome::Ok(_)) {
            let (lr, le) = first_diff(out, exp);
            report.fail(
                law_key(label, out, exp).as_deref(),
                format!("[law] {label}: prints {lr:?} where the law requires {le:?} ({:?})", outcome.class()),
                format!("law check: {label}\nstdout {out:?}\nexpected {exp:?}\noutcome {outcome:?}\n--- program ---\n{sc}"),
            );
        }
    }
    (scripts.len() as u64, distinct.len() as u64)
}

fn law_key(_label: &str, _out: &str, _exp: &str) -> Option<String> {
    None
}

#[allow(dead_code)]
fn unused(_: Rc<()>) {}
