//! KAST: the harness's own syntax tree for the modelled Koto subset, plus the renderer to source.
//!
//! The renderer's precedence table is written out independently of the parser's.

use std::rc::Rc;

pub type X = Rc<E>;
pub type Blk = Rc<Vec<X>>;
pub type Name = Rc<str>;

#[derive(Clone, Copy, Debug, PartialEq, Eq, Hash)]
pub enum Op {
    Add,
    Sub,
    Mul,
    Div,
    Rem,
    Pow,
    And,
    Or,
}

#[derive(Clone, Copy, Debug, PartialEq, Eq, Hash)]
pub enum CmpOp {
    Lt,
    Le,
    Gt,
    Ge,
    Eq,
    Ne,
}

impl CmpOp {
    pub fn text(&self) -> &'static str {
        match self {
            CmpOp::Lt => "<",
            CmpOp::Le => "<=",
            CmpOp::Gt => ">",
            CmpOp::Ge => ">=",
            CmpOp::Eq => "==",
            CmpOp::Ne => "!=",
        }
    }
    pub fn is_equality(&self) -> bool {
        matches!(self, CmpOp::Eq | CmpOp::Ne)
    }
}

impl Op {
    pub fn text(&self) -> &'static str {
        match self {
            Op::Add => "+",
            Op::Sub => "-",
            Op::Mul => "*",
            Op::Div => "/",
            Op::Rem => "%",
            Op::Pow => "^",
            Op::And => "and",
            Op::Or => "or",
        }
    }
    /// binding power (higher binds tighter); written from the guide / parser doc comments
    pub fn prec(&self) -> u8 {
        match self {
            Op::Or => 1,
            Op::And => 2,
            Op::Add | Op::Sub => 5,
            Op::Mul | Op::Div | Op::Rem => 6,
            Op::Pow => 7,
        }
    }
}

pub const PREC_EQ: u8 = 3;
pub const PREC_CMP: u8 = 4;
pub const PREC_UNARY: u8 = 8;
pub const PREC_POSTFIX: u8 = 9;
pub const PREC_ATOM: u8 = 10;

#[derive(Clone, Debug, PartialEq)]
pub struct Hint {
    pub name: Name,
    pub optional: bool,
}

#[derive(Clone, Debug, PartialEq)]
pub struct FmtSpec {
    pub text: String, // already rendered format spec, e.g. "_>8.3"
}

#[derive(Clone, Debug, PartialEq)]
pub enum SP {
    Lit(String),
    Hole(X, Option<FmtSpec>),
}

#[derive(Clone, Debug, PartialEq)]
pub enum MK {
    Id(Name),
    Str(String),
    /// @meta key, e.g. ("+", None) or ("meta", Some("name")) / ("test", Some("x"))
    Meta(Name, Option<Name>),
}

#[derive(Clone, Debug, PartialEq)]
pub enum Tgt {
    Id(Name),
    Wild(Option<Name>),
    Index(X, X),
    Access(X, Name),
}

#[derive(Clone, Debug, PartialEq)]
pub enum Pat {
    Id(Name, Option<Hint>),
    Wild(Option<Name>, Option<Hint>),
    /// literal value pattern (match only)
    Lit(X),
    /// nested tuple/list pattern `(a, b...)`
    Tuple(Vec<Pat>, Option<Hint>),
    /// `...` or `name...`
    Ellipsis(Option<Name>),
    /// `{x, y as z}`; key, optional rebind
    Map(Vec<(MK, Option<Name>, Option<Hint>)>),
    /// a map pattern with a hint for the whole value: `{x, y}: Foo`
    TypedMap(Box<Pat>, Hint),
}

#[derive(Clone, Debug, PartialEq)]
pub struct ArgDef {
    pub pat: Pat,
    pub default: Option<X>,
}

#[derive(Clone, Debug, PartialEq)]
pub struct FuncDef {
    pub args: Vec<ArgDef>,
    pub variadic: bool, // last arg is variadic (`args...`)
    pub body: Blk,
    pub is_gen: bool,
    pub out_hint: Option<Hint>,
    /// render the body inline when it is a single inline-able expression
    pub inline: bool,
}

#[derive(Clone, Debug, PartialEq)]
pub enum Arg {
    E(X),
    Spread(X),
}

#[derive(Clone, Copy, Debug, PartialEq, Eq)]
pub enum CallStyle {
    Parens,
    /// `f a, b` — only valid in statement-like positions
    Free,
}

#[derive(Clone, Debug, PartialEq)]
pub struct Arm {
    /// alternatives; each alternative has one pattern per subject
    pub alts: Vec<Vec<Pat>>,
    pub guard: Option<X>,
    pub body: Blk,
    pub is_else: bool,
}

#[derive(Clone, Debug, PartialEq)]
pub struct CatchArm {
    pub pat: Pat, // Id or Wild, with optional hint
    pub body: Blk,
}

#[derive(Clone, Debug, PartialEq)]
pub enum E {
    Null,
    Bool(bool),
    Int(i64),
    Float(f64),
    Str(Vec<SP>),
    Id(Name),
    List(Vec<X>),
    Tuple(Vec<X>),
    Map(Vec<(MK, Option<X>)>),
    Range(Option<X>, Option<X>, bool),
    Neg(X),
    Not(X),
    Bin(Op, X, X),
    Cmp(Vec<X>, Vec<CmpOp>),
    Assign(Tgt, X),
    OpAssign(Op, Tgt, X),
    MultiAssign(Vec<Tgt>, Vec<X>),
    Let(Vec<(Tgt, Option<Hint>)>, Vec<X>),
    Index(X, X),
    Access(X, Name),
    /// optional chaining check `e?` (only as part of a chain)
    Call(X, Vec<Arg>, CallStyle),
    Pipe(X, X),
    If(Vec<(X, Blk)>, Option<Blk>),
    Switch(Vec<(Option<X>, Blk)>),
    Match(Vec<X>, Vec<Arm>),
    While(X, Blk),
    Until(X, Blk),
    Loop(Blk),
    For(Vec<Pat>, X, Blk),
    Break(Option<X>),
    Continue,
    Return(Option<X>),
    Func(Rc<FuncDef>),
    Yield(X),
    Try(Blk, Vec<CatchArm>, Option<Blk>),
    Throw(X),
    Export(X),
    /// raw source text (escape hatch for constructs that only koto sees and kref treats via a
    /// registered native): rendered verbatim. kref evaluates `RawExpr.1`.
    Raw(String, X),
}

// ---------------------------------------------------------------------------------------------
// Constructors (terse, for the family generators)

pub fn x(e: E) -> X {
    Rc::new(e)
}
pub fn null() -> X {
    x(E::Null)
}
pub fn boolean(b: bool) -> X {
    x(E::Bool(b))
}
pub fn int(i: i64) -> X {
    x(E::Int(i))
}
pub fn float(f: f64) -> X {
    x(E::Float(f))
}
pub fn s(t: &str) -> X {
    x(E::Str(vec![SP::Lit(t.to_string())]))
}
pub fn id(n: &str) -> X {
    x(E::Id(n.into()))
}
pub fn list(v: Vec<X>) -> X {
    x(E::List(v))
}
pub fn tuple(v: Vec<X>) -> X {
    x(E::Tuple(v))
}
pub fn map(v: Vec<(&str, X)>) -> X {
    x(E::Map(v.into_iter().map(|(k, v)| (MK::Id(k.into()), Some(v))).collect()))
}
pub fn bin(op: Op, a: X, b: X) -> X {
    x(E::Bin(op, a, b))
}
pub fn cmp(a: X, op: CmpOp, b: X) -> X {
    x(E::Cmp(vec![a, b], vec![op]))
}
pub fn assign(n: &str, v: X) -> X {
    x(E::Assign(Tgt::Id(n.into()), v))
}
pub fn call(f: X, args: Vec<X>) -> X {
    x(E::Call(f, args.into_iter().map(Arg::E).collect(), CallStyle::Parens))
}
pub fn callf(f: &str, args: Vec<X>) -> X {
    call(id(f), args)
}
pub fn access(e: X, k: &str) -> X {
    x(E::Access(e, k.into()))
}
pub fn method(e: X, k: &str, args: Vec<X>) -> X {
    call(access(e, k), args)
}
pub fn index(e: X, i: X) -> X {
    x(E::Index(e, i))
}
pub fn print(e: X) -> X {
    x(E::Call(id("print"), vec![Arg::E(e)], CallStyle::Free))
}
pub fn interp(parts: Vec<SP>) -> X {
    x(E::Str(parts))
}
pub fn lit(t: &str) -> SP {
    SP::Lit(t.to_string())
}
pub fn hole(e: X) -> SP {
    SP::Hole(e, None)
}
pub fn blk(v: Vec<X>) -> Blk {
    Rc::new(v)
}
pub fn func(args: &[&str], body: Vec<X>) -> X {
    x(E::Func(Rc::new(FuncDef {
        args: args
            .iter()
            .map(|a| ArgDef {
                pat: Pat::Id((*a).into(), None),
                default: None,
            })
            .collect(),
        variadic: false,
        body: blk(body),
        is_gen: false,
        out_hint: None,
        inline: false,
    })))
}
pub fn func_inline(args: &[&str], body: X) -> X {
    x(E::Func(Rc::new(FuncDef {
        args: args
            .iter()
            .map(|a| ArgDef {
                pat: Pat::Id((*a).into(), None),
                default: None,
            })
            .collect(),
        variadic: false,
        body: blk(vec![body]),
        is_gen: false,
        out_hint: None,
        inline: true,
    })))
}
pub fn if_(c: X, t: Vec<X>, e: Option<Vec<X>>) -> X {
    x(E::If(vec![(c, blk(t))], e.map(blk)))
}
pub fn ret(v: Option<X>) -> X {
    x(E::Return(v))
}
pub fn throw(v: X) -> X {
    x(E::Throw(v))
}

// ---------------------------------------------------------------------------------------------
// Analysis helpers

impl E {
    /// Constructs that need the indented block form when they have a non-trivial body.
    pub fn is_blocky(&self) -> bool {
        match self {
            E::If(arms, els) => {
                arms.len() > 1
                    || arms.iter().any(|(_, b)| !blk_is_inline(b))
                    || els.as_ref().map(|b| !blk_is_inline(b)).unwrap_or(false)
            }
            E::Switch(_) | E::Match(..) | E::While(..) | E::Until(..) | E::Loop(_) | E::For(..) | E::Try(..) => true,
            E::Func(f) => !(f.inline && blk_is_inline(&f.body)),
            E::Map(entries) => entries.iter().any(|(_, v)| v.as_ref().map(|v| v.is_blocky()).unwrap_or(false)),
            E::Assign(_, v) | E::OpAssign(_, _, v) => v.is_blocky(),
            E::Return(Some(v)) | E::Export(v) => v.is_blocky(),
            E::Raw(t, _) => t.contains('\n'),
            _ => false,
        }
    }
}

fn blk_is_inline(b: &Blk) -> bool {
    b.len() == 1 && !b[0].is_blocky() && !matches!(&*b[0], E::MultiAssign(..) | E::Let(..))
}

// ---------------------------------------------------------------------------------------------
// Renderer

/// Layout freedoms (C10): every combination renders the same program.
#[derive(Clone, Copy, Debug, Default, PartialEq, Eq)]
pub struct Layout {
    /// indented-block form for if/else, function bodies and match/switch arms wherever a block is
    /// allowed, even when the inline form would do
    pub prefer_block: bool,
    /// parentheses around every operand, argument and element that does not need them
    pub redundant_parens: bool,
    /// statement-level binary expressions, parenthesised argument lists and call chains broken
    /// across indented continuation lines
    pub break_lines: bool,
    /// with `break_lines`: binary operators end the first line instead of starting the second
    pub operator_at_line_end: bool,
    /// the value of an assignment / return on its own indented line after `=` / `return`
    pub rhs_own_line: bool,
}

pub struct Renderer {
    pub indent_width: usize,
    pub layout: Layout,
}

impl Default for Renderer {
    fn default() -> Self {
        Renderer { indent_width: 2, layout: Layout::default() }
    }
}

pub fn render_program_with(stmts: &[X], indent_width: usize, layout: Layout) -> String {
    let r = Renderer { indent_width, layout };
    let mut out = String::new();
    r.block(stmts, 0, &mut out);
    out
}

pub fn render_program(stmts: &[X]) -> String {
    let r = Renderer::default();
    let mut out = String::new();
    r.block(stmts, 0, &mut out);
    out
}

pub fn escape_str(t: &str, quote: char) -> String {
    let mut o = String::new();
    for c in t.chars() {
        match c {
            '\n' => o.push_str("\\n"),
            '\r' => o.push_str("\\r"),
            '\t' => o.push_str("\\t"),
            '\\' => o.push_str("\\\\"),
            '{' => o.push_str("\\{"),
            c if c == quote => {
                o.push('\\');
                o.push(c)
            }
            c => o.push(c),
        }
    }
    o
}

pub fn hint_text(h: &Hint) -> String {
    format!("{}{}", h.name, if h.optional { "?" } else { "" })
}

impl Renderer {
    fn pad(&self, level: usize) -> String {
        " ".repeat(level * self.indent_width)
    }

    pub fn block(&self, stmts: &[X], level: usize, out: &mut String) {
        for st in stmts {
            out.push_str(&self.pad(level));
            match self.broken_stmt(st, level) {
                Some(t) => out.push_str(&t),
                None => out.push_str(&self.stmt(st, level)),
            }
            out.push('\n');
        }
    }

    /// `break_lines`: the statement with its root expression continued on indented lines
    fn broken_stmt(&self, st: &X, level: usize) -> Option<String> {
        if !self.layout.break_lines && !self.layout.rhs_own_line {
            return None;
        }
        let (head, v): (Option<String>, &X) = match &**st {
            E::Assign(t, v) if !v.is_blocky() => (Some(format!("{} =", self.tgt(t, level))), v),
            E::Return(Some(v)) if !v.is_blocky() => (Some("return".to_string()), v),
            E::Call(..) | E::Bin(..) => (None, st),
            _ => return None,
        };
        // the value on its own line: everything moves one level deeper
        let own = self.layout.rhs_own_line && head.is_some() && !matches!(&**v, E::Pipe(..));
        let level = if own { level + 1 } else { level };
        let prefix = match (&head, own) {
            (Some(h), true) => format!("{h}\n{}", self.pad(level)),
            (Some(h), false) => format!("{h} "),
            (None, _) => String::new(),
        };
        if !self.layout.break_lines {
            let t = self.expr(v, 1, level);
            return if own && !t.contains('\n') { Some(format!("{prefix}{t}")) } else { None };
        }
        let cont = self.pad(level + 1);
        match &**v {
            E::Bin(op, a, b) => {
                let p = op.prec();
                let l = self.expr(a, p, level);
                let r = self.expr(b, p + 1, level);
                if l.contains('\n') || r.contains('\n') {
                    return None;
                }
                if self.layout.operator_at_line_end {
                    Some(format!("{prefix}{l} {}\n{cont}{r}", op.text()))
                } else {
                    Some(format!("{prefix}{l}\n{cont}{} {r}", op.text()))
                }
            }
            E::Call(f, args, CallStyle::Parens) => {
                // a chain of at least two calls is broken before each `.`; otherwise the arguments
                let mut segs: Vec<String> = vec![];
                let mut cur: &X = v;
                loop {
                    match &**cur {
                        E::Call(g, a, CallStyle::Parens) => {
                            if let E::Access(base, name) = &**g {
                                let at: Vec<String> = a.iter().map(|x| self.arg(x, level)).collect();
                                segs.push(format!(".{}({})", name, at.join(", ")));
                                cur = base;
                                continue;
                            }
                            break;
                        }
                        _ => break,
                    }
                }
                if segs.len() >= 2 {
                    let root = self.expr(cur, PREC_POSTFIX, level);
                    if root.contains('\n') || segs.iter().any(|s| s.contains('\n')) {
                        return None;
                    }
                    segs.reverse();
                    let mut o = format!("{prefix}{root}");
                    for sgm in segs {
                        o.push('\n');
                        o.push_str(&cont);
                        o.push_str(&sgm);
                    }
                    return Some(o);
                }
                if args.is_empty() {
                    let t = self.expr(v, 1, level);
                    return if own && !t.contains('\n') { Some(format!("{prefix}{t}")) } else { None };
                }
                let callee = self.expr(f, PREC_POSTFIX, level);
                let at: Vec<String> = args.iter().map(|x| self.arg(x, level)).collect();
                if callee.contains('\n') || at.iter().any(|s| s.contains('\n')) {
                    return None;
                }
                let mut o = format!("{prefix}{callee}(");
                for (i, a) in at.iter().enumerate() {
                    o.push('\n');
                    o.push_str(&cont);
                    o.push_str(a);
                    if i + 1 < at.len() {
                        o.push(',');
                    }
                }
                o.push('\n');
                o.push_str(&self.pad(level));
                o.push(')');
                Some(o)
            }
            _ => {
                if own {
                    let t = self.expr(v, 1, level);
                    if !t.contains('\n') {
                        return Some(format!("{prefix}{t}"));
                    }
                }
                None
            }
        }
    }

    /// A statement (or a value in a position that allows the block form: assignment RHS,
    /// return value, last expression). Continuation lines are indented relative to `level`.
    pub fn stmt(&self, e: &X, level: usize) -> String {
        match &**e {
            E::If(arms, els) if e.is_blocky() || self.layout.prefer_block => {
                let mut o = String::new();
                for (i, (c, b)) in arms.iter().enumerate() {
                    if i > 0 {
                        o.push_str(&self.pad(level));
                        o.push_str("else ");
                    }
                    o.push_str("if ");
                    o.push_str(&self.expr(c, 0, level));
                    o.push('\n');
                    self.block(b, level + 1, &mut o);
                }
                if let Some(b) = els {
                    o.push_str(&self.pad(level));
                    o.push_str("else\n");
                    self.block(b, level + 1, &mut o);
                }
                trim_nl(o)
            }
            E::Switch(arms) => {
                let mut o = String::from("switch\n");
                for (c, b) in arms {
                    o.push_str(&self.pad(level + 1));
                    match c {
                        Some(c) => {
                            o.push_str(&self.expr(c, 0, level + 1));
                            o.push_str(" then");
                        }
                        None => o.push_str("else"),
                    }
                    self.arm_body(b, level + 1, &mut o);
                }
                trim_nl(o)
            }
            E::Match(subjects, arms) => {
                let mut o = String::from("match ");
                o.push_str(
                    &subjects
                        .iter()
                        .map(|s| self.expr(s, 0, level))
                        .collect::<Vec<_>>()
                        .join(", "),
                );
                o.push('\n');
                for arm in arms {
                    o.push_str(&self.pad(level + 1));
                    if arm.is_else {
                        o.push_str("else");
                    } else {
                        let alts: Vec<String> = arm
                            .alts
                            .iter()
                            .map(|ps| ps.iter().map(|p| self.pat(p, level + 1, true)).collect::<Vec<_>>().join(", "))
                            .collect();
                        o.push_str(&alts.join(" or "));
                        if let Some(g) = &arm.guard {
                            o.push_str(" if ");
                            o.push_str(&self.expr(g, 0, level + 1));
                        }
                        o.push_str(" then");
                    }
                    self.arm_body(&arm.body, level + 1, &mut o);
                }
                trim_nl(o)
            }
            E::While(c, b) => {
                let mut o = format!("while {}\n", self.expr(c, 0, level));
                self.block(b, level + 1, &mut o);
                trim_nl(o)
            }
            E::Until(c, b) => {
                let mut o = format!("until {}\n", self.expr(c, 0, level));
                self.block(b, level + 1, &mut o);
                trim_nl(o)
            }
            E::Loop(b) => {
                let mut o = String::from("loop\n");
                self.block(b, level + 1, &mut o);
                trim_nl(o)
            }
            E::For(args, it, b) => {
                let a: Vec<String> = args.iter().map(|p| self.pat(p, level, false)).collect();
                let mut o = format!("for {} in {}\n", a.join(", "), self.expr(it, 0, level));
                self.block(b, level + 1, &mut o);
                trim_nl(o)
            }
            E::Try(body, catches, fin) => {
                let mut o = String::from("try\n");
                self.block(body, level + 1, &mut o);
                for c in catches {
                    o.push_str(&self.pad(level));
                    o.push_str("catch ");
                    o.push_str(&self.pat(&c.pat, level, false));
                    o.push('\n');
                    self.block(&c.body, level + 1, &mut o);
                }
                if let Some(f) = fin {
                    o.push_str(&self.pad(level));
                    o.push_str("finally\n");
                    self.block(f, level + 1, &mut o);
                }
                trim_nl(o)
            }
            E::Map(entries) if e.is_blocky() => {
                // map block: only valid as an assignment right-hand side / return value
                let mut o = String::new();
                for (k, v) in entries {
                    o.push('\n');
                    o.push_str(&self.pad(level + 1));
                    o.push_str(&self.map_key(k));
                    o.push_str(": ");
                    match v {
                        Some(v) => o.push_str(&self.stmt(v, level + 1)),
                        None => {}
                    }
                }
                o
            }
            E::Func(f) if e.is_blocky() || self.layout.prefer_block => {
                let mut o = self.func_head(f, level);
                o.push('\n');
                self.block(&f.body, level + 1, &mut o);
                trim_nl(o)
            }
            E::Assign(t, v) if v.is_blocky() || (self.layout.prefer_block && matches!(&**v, E::If(..) | E::Func(_))) => {
                if matches!(&**v, E::Map(_)) {
                    format!("{} ={}", self.tgt(t, level), self.stmt(v, level))
                } else {
                    format!("{} = {}", self.tgt(t, level), self.stmt(v, level))
                }
            }
            E::OpAssign(op, t, v) if v.is_blocky() => {
                format!("{} {}= {}", self.tgt(t, level), op.text(), self.stmt(v, level))
            }
            E::Return(Some(v)) if v.is_blocky() || (self.layout.prefer_block && matches!(&**v, E::If(..) | E::Func(_))) => format!("return {}", self.stmt(v, level)),
            E::Export(v) => format!("export {}", self.stmt(v, level)),
            E::MultiAssign(ts, vs) => {
                let t: Vec<String> = ts.iter().map(|t| self.tgt(t, level)).collect();
                let v: Vec<String> = vs.iter().map(|v| self.expr(v, 1, level)).collect();
                format!("{} = {}", t.join(", "), v.join(", "))
            }
            E::Let(ts, vs) => {
                let t: Vec<String> = ts
                    .iter()
                    .map(|(t, h)| match h {
                        Some(h) => format!("{}: {}", self.tgt(t, level), hint_text(h)),
                        None => self.tgt(t, level),
                    })
                    .collect();
                let v: Vec<String> = vs.iter().map(|v| self.expr(v, 1, level)).collect();
                format!("let {} = {}", t.join(", "), v.join(", "))
            }
            E::Call(f, args, CallStyle::Free) if !args.is_empty() => {
                let a: Vec<String> = args.iter().map(|a| self.arg(a, level)).collect();
                format!("{} {}", self.expr(f, PREC_POSTFIX, level), a.join(", "))
            }
            E::Raw(t, _) => {
                // indent continuation lines
                let pad = self.pad(level);
                let mut o = String::new();
                for (i, l) in t.lines().enumerate() {
                    if i > 0 {
                        o.push('\n');
                        o.push_str(&pad);
                    }
                    o.push_str(l);
                }
                o
            }
            _ => self.expr(e, 0, level),
        }
    }

    fn arm_body(&self, b: &Blk, level: usize, out: &mut String) {
        if blk_is_inline(b) && !matches!(&*b[0], E::Call(_, _, CallStyle::Free)) && !self.layout.prefer_block {
            out.push(' ');
            out.push_str(&self.expr(&b[0], 0, level));
            out.push('\n');
        } else {
            out.push('\n');
            self.block(b, level + 1, out);
        }
    }

    fn func_head(&self, f: &FuncDef, level: usize) -> String {
        let mut parts = vec![];
        for (i, a) in f.args.iter().enumerate() {
            let mut t = self.pat(&a.pat, level, false);
            if f.variadic && i + 1 == f.args.len() {
                t.push_str("...");
            }
            if let Some(d) = &a.default {
                t.push_str(" = ");
                t.push_str(&self.expr(d, 1, level));
            }
            parts.push(t);
        }
        let mut o = format!("|{}|", parts.join(", "));
        if let Some(h) = &f.out_hint {
            o.push_str(" -> ");
            o.push_str(&hint_text(h));
        }
        o
    }

    pub fn pat(&self, p: &Pat, level: usize, in_match: bool) -> String {
        let with_hint = |base: String, h: &Option<Hint>| match h {
            Some(h) => format!("{}: {}", base, hint_text(h)),
            None => base,
        };
        match p {
            Pat::Id(n, h) => with_hint(n.to_string(), h),
            Pat::Wild(n, h) => with_hint(format!("_{}", n.as_deref().unwrap_or("")), h),
            Pat::Lit(e) => match &**e {
                E::Int(i) if *i < 0 && *i != i64::MIN => format!("{i}"),
                E::Float(f) if *f < 0.0 => float_literal(*f),
                _ => self.expr_plain(e, PREC_UNARY, level),
            },
            Pat::Tuple(ps, h) => {
                let inner: Vec<String> = ps.iter().map(|p| self.pat(p, level, in_match)).collect();
                let mut t = format!("({})", inner.join(", "));
                if ps.len() == 1 && !matches!(ps[0], Pat::Ellipsis(_)) {
                    t = format!("({},)", inner[0]);
                }
                with_hint(t, h)
            }
            Pat::Ellipsis(n) => format!("{}...", n.as_deref().unwrap_or("")),
            Pat::TypedMap(inner, h) => format!("{}: {}", self.pat(inner, level, in_match), hint_text(h)),
            Pat::Map(entries) => {
                let inner: Vec<String> = entries
                    .iter()
                    .map(|(k, rebind, h)| {
                        let mut t = self.map_key(k);
                        if let Some(r) = rebind {
                            t.push_str(" as ");
                            t.push_str(r);
                        }
                        if let Some(h) = h {
                            t.push_str(": ");
                            t.push_str(&hint_text(h));
                        }
                        t
                    })
                    .collect();
                format!("{{{}}}", inner.join(", "))
            }
        }
    }

    fn map_key(&self, k: &MK) -> String {
        match k {
            MK::Id(n) => n.to_string(),
            MK::Str(t) => format!("'{}'", escape_str(t, '\'')),
            MK::Meta(n, None) => format!("@{n}"),
            MK::Meta(n, Some(a)) => format!("@{n} {a}"),
        }
    }

    fn tgt(&self, t: &Tgt, level: usize) -> String {
        match t {
            Tgt::Id(n) => n.to_string(),
            Tgt::Wild(n) => format!("_{}", n.as_deref().unwrap_or("")),
            Tgt::Index(e, i) => format!("{}[{}]", self.expr(e, PREC_POSTFIX, level), self.expr(i, 0, level)),
            Tgt::Access(e, k) => format!("{}.{}", self.expr(e, PREC_POSTFIX, level), k),
        }
    }

    fn arg(&self, a: &Arg, level: usize) -> String {
        match a {
            Arg::E(e) => self.expr(e, 1, level),
            Arg::Spread(e) => format!("{}...", self.expr(e, PREC_POSTFIX, level)),
        }
    }

    /// Renders an expression; `min` is the minimum binding power the context requires
    /// (parentheses are added when the node binds more loosely). `min == 0`: anything goes
    /// inline; `min == 1`: comma-separated context (tuples without parens not allowed).
    pub fn expr(&self, e: &X, min: u8, level: usize) -> String {
        let (text, prec) = self.expr_prec(e, level);
        if prec < min {
            format!("({text})")
        } else if self.layout.redundant_parens && (1..PREC_POSTFIX).contains(&min) && !text.contains('\n') && !text.ends_with("...") && !matches!(&**e, E::Pipe(..)) {
            // redundant parentheses (not around callees / access bases, where they would change
            // how `self` is bound, and not around block forms)
            format!("({text})")
        } else {
            text
        }
    }

    fn expr_plain(&self, e: &X, min: u8, level: usize) -> String {
        let (text, prec) = self.expr_prec(e, level);
        if prec < min { format!("({text})") } else { text }
    }

    fn expr_prec(&self, e: &X, level: usize) -> (String, u8) {
        match &**e {
            E::Null => ("null".into(), PREC_ATOM),
            E::Bool(b) => (b.to_string(), PREC_ATOM),
            E::Int(i) => {
                if *i < 0 {
                    if *i == i64::MIN {
                        // no literal for i64::MIN: written as an expression
                        ("(-9223372036854775807 - 1)".into(), PREC_ATOM)
                    } else {
                        (format!("{i}"), 0) // negative literal: always parenthesised as operand
                    }
                } else {
                    (format!("{i}"), PREC_ATOM)
                }
            }
            E::Float(f) => {
                let t = float_literal(*f);
                if *f < 0.0 || (f.to_bits() >> 63) == 1 {
                    (t, 0)
                } else {
                    (t, PREC_ATOM)
                }
            }
            E::Str(parts) => {
                let mut o = String::from("'");
                for p in parts {
                    match p {
                        SP::Lit(t) => o.push_str(&escape_str(t, '\'')),
                        SP::Hole(e, spec) => {
                            o.push('{');
                            o.push_str(&self.expr(e, 2, level));
                            if let Some(s) = spec {
                                o.push(':');
                                o.push_str(&s.text);
                            }
                            o.push('}');
                        }
                    }
                }
                o.push('\'');
                (o, PREC_ATOM)
            }
            E::Id(n) => (n.to_string(), PREC_ATOM),
            E::List(v) => {
                let inner: Vec<String> = v.iter().map(|e| self.expr(e, 1, level)).collect();
                (format!("[{}]", inner.join(", ")), PREC_ATOM)
            }
            E::Tuple(v) => {
                let inner: Vec<String> = v.iter().map(|e| self.expr(e, 1, level)).collect();
                let t = match v.len() {
                    0 => "()".to_string(),
                    1 => format!("({},)", inner[0]),
                    _ => format!("({})", inner.join(", ")),
                };
                (t, PREC_ATOM)
            }
            E::Map(entries) => {
                let inner: Vec<String> = entries
                    .iter()
                    .map(|(k, v)| match v {
                        Some(v) => format!("{}: {}", self.map_key(k), self.expr(v, 1, level)),
                        None => self.map_key(k),
                    })
                    .collect();
                (format!("{{{}}}", inner.join(", ")), PREC_ATOM)
            }
            E::Range(a, b, incl) => {
                let a = a.as_ref().map(|e| self.expr(e, 6, level)).unwrap_or_default();
                let b = b.as_ref().map(|e| self.expr(e, 6, level)).unwrap_or_default();
                // ranges are always parenthesised when used as operands
                (format!("{}{}{}", a, if *incl { "..=" } else { ".." }, b), 1)
            }
            E::Neg(a) => (format!("-{}", self.expr(a, PREC_POSTFIX, level)), 0),
            E::Not(a) => (format!("not {}", self.expr(a, PREC_POSTFIX, level)), 0),
            E::Bin(op, a, b) => {
                let p = op.prec();
                // left-associative: the right operand needs strictly higher binding power
                let l = self.expr(a, p, level);
                let r = self.expr(b, p + 1, level);
                (format!("{} {} {}", l, op.text(), r), p)
            }
            E::Cmp(operands, ops) => {
                let all_eq = ops.iter().all(|o| o.is_equality());
                let p = if all_eq { PREC_EQ } else { PREC_CMP };
                let mut o = self.expr(&operands[0], PREC_CMP + 1, level);
                for (i, op) in ops.iter().enumerate() {
                    o.push(' ');
                    o.push_str(op.text());
                    o.push(' ');
                    o.push_str(&self.expr(&operands[i + 1], PREC_CMP + 1, level));
                }
                (o, p)
            }
            E::Assign(t, v) => {
                if v.is_blocky() {
                    (self.stmt(e, level), 0)
                } else {
                    (format!("{} = {}", self.tgt(t, level), self.expr(v, 1, level)), 0)
                }
            }
            E::OpAssign(op, t, v) => (
                format!("{} {}= {}", self.tgt(t, level), op.text(), self.expr(v, 1, level)),
                0,
            ),
            E::Index(a, i) => (
                format!("{}[{}]", self.expr(a, PREC_POSTFIX, level), self.expr(i, 0, level)),
                PREC_POSTFIX,
            ),
            E::Access(a, k) => (format!("{}.{}", self.expr(a, PREC_POSTFIX, level), k), PREC_POSTFIX),
            E::Call(f, args, _) => {
                let a: Vec<String> = args.iter().map(|a| self.arg(a, level)).collect();
                (
                    format!("{}({})", self.expr(f, PREC_POSTFIX, level), a.join(", ")),
                    PREC_POSTFIX,
                )
            }
            E::Pipe(a, f) => (
                // only generated as an assignment right-hand side / statement (inside parentheses
                // `a -> f b, c` would read as a tuple)
                format!("{} -> {}", self.expr(a, 2, level), self.stmt_callfree(f, level)),
                1,
            ),
            E::If(arms, els) if !e.is_blocky() => {
                let (c, b) = &arms[0];
                let mut o = format!("if {} then {}", self.expr(c, 1, level), self.expr(&b[0], 1, level));
                if let Some(b) = els {
                    o.push_str(" else ");
                    o.push_str(&self.expr(&b[0], 1, level));
                }
                (o, 0)
            }
            E::Func(f) if !e.is_blocky() => {
                let mut o = self.func_head(f, level);
                o.push(' ');
                o.push_str(&self.expr(&f.body[0], 1, level));
                (o, 0)
            }
            E::Break(v) => match v {
                Some(v) => (format!("break {}", self.expr(v, 1, level)), 0),
                None => ("break".into(), 0),
            },
            E::Continue => ("continue".into(), 0),
            E::Return(v) => match v {
                Some(v) => (format!("return {}", self.expr(v, 1, level)), 0),
                None => ("return".into(), 0),
            },
            E::Yield(v) => (format!("yield {}", self.expr(v, 1, level)), 0),
            E::Throw(v) => (format!("throw {}", self.expr(v, 1, level)), 0),
            // block forms in expression position: rendered through stmt (caller guarantees the
            // position allows a block: only RHS / statement contexts produce these)
            _ => (self.stmt(e, level), 0),
        }
    }

    fn stmt_callfree(&self, f: &X, level: usize) -> String {
        match &**f {
            E::Call(g, args, _) if !args.is_empty() => {
                let a: Vec<String> = args.iter().map(|a| self.arg(a, level)).collect();
                format!("{} {}", self.expr(g, PREC_POSTFIX, level), a.join(", "))
            }
            // redundant parentheses around the piped-into function
            E::Id(_) | E::Access(..) if self.layout.redundant_parens => format!("({})", self.expr(f, PREC_POSTFIX, level)),
            _ => self.expr(f, PREC_POSTFIX, level),
        }
    }
}

pub fn float_literal(f: f64) -> String {
    if f.is_nan() || f.is_infinite() {
        // no literals; generators do not produce these
        return "(0.0 / 0.0)".into();
    }
    let t = format!("{f:?}");
    // Rust prints 1e21 as "1e21": koto accepts exponent form; ensure a '.' or 'e' is present
    if t.contains('.') || t.contains('e') { t } else { format!("{t}.0") }
}

fn trim_nl(mut s: String) -> String {
    while s.ends_with('\n') {
        s.pop();
    }
    s
}
