#!/usr/bin/env python3
"""Regenerates the generated parts of DESIGN.md (between <!-- GEN:x --> ... <!-- /GEN:x --> markers)
from KNOWN_FINDINGS.txt and seeded/*/meta.json. Run after recording a fix / finding / seed."""
import json, re, glob, os, subprocess
V = '/verif'
fixed, findings = {}, {}
for l in open(f'{V}/KNOWN_FINDINGS.txt'):
    l = l.rstrip('\n')
    m = re.match(r'fixed:\s+property=(C\d\d) (\w+) (.*)', l)
    if m:
        fixed.setdefault(m.group(1), []).append((m.group(2), m.group(3)))
        continue
    m = re.match(r'finding: property=(C\d\d) key=(\S+) :: (.*)', l)
    if m:
        findings.setdefault(m.group(1), []).append((m.group(2), m.group(3)))
commits = sorted({c for v in fixed.values() for c, _ in v})
n_fixed_lines = sum(len(v) for v in fixed.values())
n_findings = sum(len(v) for v in findings.values())

def esc(s):
    return s.replace('|', '\\|').replace('\n', ' ')

gen = {}
out = [f"{n_fixed_lines} repaired defects in {len(commits)} `fix:` commits in /repo (a commit that repairs the same root cause for two properties is listed under both); the 1099-test suite passed, unedited, after each.\n"]
for p in sorted(fixed):
    out.append(f"**{p}**\n")
    for c, t in fixed[p]:
        out.append(f"* `{c}` {t}")
    out.append("")
gen['fixed'] = '\n'.join(out)
out = [f"{n_findings} keys.\n"]
for p in sorted(findings):
    for k, t in findings[p]:
        out.append(f"* **{p} `{k}`** — {t}")
gen['findings'] = '\n'.join(out)

seeds = []
for d in sorted(glob.glob(f'{V}/seeded/C*-*')):
    mj = os.path.join(d, 'meta.json')
    if os.path.exists(mj):
        seeds.append(json.load(open(mj)))
def key(s):
    a, b = s['seed'].split('-')
    return (a, int(b))
seeds.sort(key=key)
rows = ["| seed | round | needs, to manifest | what was run / result |", "|---|---|---|---|"]
missed = neutral = undetected = 0
for s in seeds:
    w = s['what_was_run']
    if 'initially missed' in w or 'first missed' in w or 'first run aborted' in w or 'invisible to plain' in w:
        missed += 1
    if w.startswith('neutralised'):
        neutral += 1
    if 'Recorded as not' in w:
        undetected += 1
    rows.append(f"| {s['seed']} | {s.get('round', 1)} | {esc(s['needs_to_manifest'])} | {esc(w)} |")
gen['seeds'] = '\n'.join(rows)
gen['seedcount'] = (f"**{len(seeds)} seeded changes** are kept ({sum(1 for s in seeds if s.get('round',1)==1)} from round 1 on the pinned tree, "
                    f"{sum(1 for s in seeds if s.get('round',1)>=2)} from rounds 2-5 on the repaired tree). **{len(seeds)-neutral-undetected} are reported by the quick tier of their "
                    f"property's check; {missed} of those were missed at first** and led to a stronger check (the last column says what was added); "
                    f"{neutral} are neutralised: after a repair the seeded change is behaviour-preserving on the current tree and the check correctly stays silent; "
                    f"{undetected} (from rounds 4 and 5) are **not detected by the check of their own property** and are recorded as such in the table "
                    "(three are reported by another property's check instead, one aborts the engine instead of producing a verdict, one needs a continuous virtual clock that the harness does not have). "
                    "No check was loosened at any point.")
gen['status'] = (f"{len(seeds)} independently seeded property-breaking changes are kept under `/verif/seeded/` ({len(seeds)-neutral-undetected} detected, {neutral} neutralised by a repair, {undetected} not detected by their own check, see §11). "
                 f"While building, the checks found **{n_fixed_lines} genuine defects that were repaired** in {len(commits)} separate unguarded `fix:` commits in /repo (the 1099-test suite passes, unedited, after each) "
                 f"and **{n_findings} that are recorded as known findings** (`/verif/KNOWN_FINDINGS.txt`; §10).")

# measured cost + rules from the per-tier evidence copies
def ev(pid, tier):
    f = f'{V}/evidence-by-tier/{pid}.{tier}.json'
    return json.load(open(f)) if os.path.exists(f) else None
def num(c):
    for k in ('evaluations', 'transitions', 'states'):
        if isinstance(c.get(k), (int, float)):
            return c[k]
    return 0
rows = ["| id | engine level | quick: cases evaluated -> engine time | thorough: cases evaluated -> engine time | distinct outcomes (thorough) |", "|---|---|---|---|---|"]
rules = []
for i in range(1, 21):
    pid = f'C{i:02d}'
    q, t = ev(pid, 'quick'), ev(pid, 'thorough')
    def cell(e):
        if not e:
            return 'n/a'
        return f"{num(e['coverage']):,} -> {e.get('process_wall_s', e['wall_s']):.0f} s"
    rows.append(f"| {pid} | {(t or q or {}).get('level','')} | {cell(q)} | {cell(t)} | {(t or q or {'coverage':{}})['coverage'].get('distinct_nontrivial','')} |")
    e = t or q
    if e:
        rules.append(f"* **{pid}** ({e['tier']} tier) — {e['coverage'].get('rule','')}")
gen['cost'] = '\n'.join(rows)
gen['rules'] = '\n'.join(rules)

text = open(f'{V}/DESIGN.md').read()
for k, body in gen.items():
    pat = re.compile(r'(<!-- GEN:%s -->\n).*?(\n<!-- /GEN:%s -->)' % (k, k), re.S)
    if not pat.search(text):
        print('marker missing:', k)
        continue
    text = pat.sub(lambda m: m.group(1) + body + m.group(2), text)
open(f'{V}/DESIGN.md', 'w').write(text)
print(f"fixed lines={n_fixed_lines} commits={len(commits)} findings={n_findings} seeds={len(seeds)} missed-first={missed} neutralised={neutral}")
