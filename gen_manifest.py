#!/usr/bin/env python3
"""Generates /verif/MANIFEST.json. Edit CHECKS below; properties without a check are listed under not_applicable."""
import json
ALL=[json.loads(l)['id'] for l in open('/verif/properties.jsonl')]
ENGINES={
 "libmc":("harness/src/libmc.rs (+ workers.rs)","bounded-exhaustive enumeration of source texts through compile/format/error rendering and of core-library calls over a boundary-value pool in memory-limited worker processes"),
 "codemc":("harness/src/codemc.rs","explicit-state exploration of the abstract machine of every function body of every compiled chunk; determinism by re-compilation in and across processes; size ladders across every encoding limit; dynamic corollary in memory-limited worker processes"),
 "progmc":("harness/src/progmc.rs (+ kast.rs renderer, kref.rs reference interpreter, fam_*.rs families)","bounded-exhaustive enumeration of program families; each program runs on the real koto and on the reference interpreter kref; observations compared"),
 "lexmc":("harness/src/lexmc.rs","exhaustive prefix-tree exploration of all strings up to a length bound through the real lexer"),
}
CHECKS={
 "C06":dict(engine="libmc",category="exploration",
   text="Exhaustive within bounds, oracle 'returns, never panics': (1) every string of length <= 4 (thorough 5) over the 22-symbol lexer alphabet, every sequence of <= 3 (thorough 4) tokens over a 70-token alphabet, every line prefix and leading byte prefix of every corpus file and the corpus' one-token neighbourhood, each through compile, format (two option sets) and error rendering; (2) every native function of the core modules (enumerated from the live prelude, 158 functions) x every argument tuple of arity 0..2 (thorough: a reduced arity-3 product) from a 49-value boundary pool that includes the receiver itself, callbacks that mutate the receiver, objects with throwing metakeys, extreme numbers/ranges and string/tuple slices; every unary/binary/compound/index operator over pool pairs; and iterators that went stale (advanced, then the container mutated) x every iterator function; each call is followed by display and debug display of its result and iteration of a returned iterator. Calls run in worker processes under address-space and wall limits: allocation failure, capacity overflow and native hangs are out-of-scope resource exhaustion and are counted.",
   note="Panics of the generated programs of the progmc profiles are reported by C01-C04/C16/C17. Memory exhaustion and native-stack exhaustion are outside the property.",
   technique="bounded-exhaustive input and call enumeration on the real code in supervised worker processes, no-panic oracle"),
 "C05":dict(engine="codemc",category="model_checking",
   text="For every chunk the real compiler emits for (1) the generated programs of the six progmc profiles, (2) the repository's scripts and documentation examples, (3) their complete single-token delete/duplicate/swap neighbourhood and (4) size ladders that cross each encoding limit (locals, parameters, call arguments, literal sizes, nesting depth, forward and backward jump distances around 65535 bytes for every control construct), each under three compiler settings, every function body is explored exhaustively as a transition system over (ip, sequence-builder depth, string-builder depth, try stack) with all branch, loop-exit and exception edges; in every reachable state the instruction must decode, jump targets must be instruction boundaries inside the same body, register and constant operands must be in range and of the right kind, and builders/tries must balance (equal on all paths, empty at Return). Chunks are recompiled in the same and in a second process (byte-identical), size-ladder programs are run and must either be rejected at compile time or compute the arithmetically known result, and mutated programs are run in memory-limited workers (no internal faults).",
   note="The exception edge assumes unwinding restores builder depths (checked dynamically by C04/C07). Register operands are required to be < NewFrame.register_count. Programs that could touch the host (io/os/import) are compiled and explored but not executed.",
   technique="explicit-state exploration of emitted code (abstract machine per function), exhaustive over control-flow successors; bounded-exhaustive input families"),
 "C17":dict(engine="progmc",category="exploration",
   text="Complete enumeration of operator/protocol dispatch: 6 arithmetic operators x 8 left operand classes (object implementing, throwing koto.unimplemented, throwing something else, lacking the metakey; number, string, list, plain map) x 4 right operand classes, in binary form, repeated 300 times in one frame, and in compound form with/without @op= and @op; every subset of the 6 comparison metakeys x 6 operators x 3 other operands plus derived results for every @</@== outcome; every subset of size <= 2 (thorough 3) of 11 protocol metakeys x 15 operations; key lookup through own data / @meta / @base chains of depth 2 and metamaps shared through with_meta; and the same for a host-defined object (declared with the repository's derive macros, implemented-operation set given by a bitmask) on either side. Every metakey function prints its name and operands. Differential against the reference interpreter (whose host-object model is a map object with the equivalent metakeys), plus the internal-stack invariant (hook H1).",
   note="Trusted: kref's dispatch table (written from the guide's sections on operators and metakeys) and the renderer. Undocumented corners (<=/> derived without @==, tuple patterns against objects without @size/@index, map+map with metamaps) are skipped, counted in the evidence.",
   technique="bounded-exhaustive program enumeration + differential against a reference model (every case replayed on the implementation)"),
 "C16":dict(engine="progmc",category="exploration",
   text="Complete product of 13 hint positions (let, multi-let, typed wildcard over list and iterator sources, for arguments, function arguments incl. nested, return types on implicit/explicit/early return, generator yield types, match arms incl. nested and map patterns, typed catch) x 20 hint names x optional/non-optional x 21 runtime values (every value kind, generator functions, objects with @type, @base chains of depth 1 and 2, callable and plain objects). Every program is compiled and run with enable_type_checks on and off; the reference interpreter (type rules written from the guide) runs in the same mode and all observations must agree, which decides both 'errors exactly when documented' and 'disabling changes nothing else'.",
   note="Trusted: kref's type rules and the renderer. Combinations the guide leaves open (Iterable/Indexable on maps with metamaps, Iterable on unbounded ranges, Callable on generator functions) are not generated or not compared.",
   technique="exhaustive position x hint x value product + differential against a reference model under both compiler settings"),
 "C04":dict(engine="progmc",category="fault_enumeration",
   text="Fault enumeration: 9 fault kinds (thrown string/object, bad index, type mismatch, failed assert, too few/many arguments, unknown identifier, calling null) planted at 15 sites (inline, call depth 1 and 3, method, each/fold callbacks driven by native adaptors, generator body, @+ / derived and direct comparison metakeys, list/string/call/map construction) under 7 handler structures (catch, finally, typed catch chains in all orders, nested handlers that match or rethrow) x 4 result uses; plus every combination of try/catch/finally block exits (fall-through, return, break, continue, throw) inside a loop inside a function with a later error in the same frame; plus errors caught inside open string/list/tuple/map/call constructions. Differential against the reference interpreter, and after every run the VM's internal stacks must be empty (hook H1).",
   note="Trusted: kref and the renderer. Runtime error message texts are not compared (only thrown values are). A throwing finally block is not generated (unspecified).",
   technique="exhaustive fault-site x handler enumeration + differential against a reference model + internal-state invariant"),
 "C03":dict(engine="progmc",category="exploration",
   text="Complete enumeration of match expressions: 23 subject values x every single arm over 47 patterns (literals, ids, wildcards, nested tuple patterns with leading/trailing ellipsis, map patterns with as, typed patterns, patterns that rebind the subject variable) x else/no else x 4 result uses; guards incl. failing guards on the last arm; all two-arm lists over a 16-pattern core; or-alternatives x guards with side effects; multi-subject rows; plus multi-assignment over 5 target kinds x 17 right-hand sides and for-argument lists x 10 sequences. Each arm prints its index and bindings. Differential against the reference interpreter.",
   note="Trusted: kref and the renderer; bounded sizes. Constructs the guide leaves open (named ellipsis over maps/strings/ranges, `()` pattern, parenthesised for arguments) are not generated or not compared.",
   technique="bounded-exhaustive program enumeration + differential against a reference model (every case replayed on the implementation)"),
 "C02":dict(engine="progmc",category="exploration",
   text="Complete enumeration of function-binding programs (every signature of 0-2 required, 0-2 optional, variadic, captured and method arguments x every argument count 0..n+2 x six call spellings incl. paren-free, piped and packed; generator functions with the same signatures; structured/unpacking arguments x 14 argument shapes), of all statement sequences up to length 3 (thorough 4) over a 14-statement closure/capture alphabet both at top level and inside a function, and of generator bodies x consumers (next, for+break, to_tuple, interleaved instances) with printing that makes laziness observable. Differential against the reference interpreter.",
   note="Trusted: kref and the renderer; bounded sizes. Scoping is only generated where static (compile-order) and dynamic capture coincide.",
   technique="bounded-exhaustive program enumeration + differential against a reference model (every case replayed on the implementation)"),
 "C01":dict(engine="progmc",category="exploration",
   text="Complete enumeration of small program families (all one-operator trees over a 16-leaf alphabet in 16 surrounding contexts x top-level/function body; two-operator trees over a reduced alphabet; comparison chains of 3-4 operands; i64/f64 boundary leaves; assignment statement sequences; every range form; every index/slice of small containers; if/switch/loop shapes with 0..3 iterations and break/continue values). Each program is compiled and run on the real koto and evaluated by an independent reference interpreter written from the language guide; stdout, result and error class must agree.",
   note="Trusted: kref (the reference interpreter) and the renderer; bounded depth (small-scope hypothesis). Runtime error messages are not compared, only classes.",
   technique="bounded-exhaustive program enumeration + differential against a reference model (every case replayed on the implementation)"),
 "C09":dict(engine="lexmc",category="model_checking",
   text="Every string up to length 5 (thorough 6) over a 22-symbol alphabet that reaches every lexer mode, and up to length 6 (thorough 8) over a 12-symbol string-mode alphabet, plus every char-boundary prefix of the corpus, is lexed by the real lexer and checked against an oracle taken directly from the statement (contiguity, char boundaries, lines = line breaks before, columns restart, indentation, termination, no panic). Exhaustive within the bound; no model in between.",
   note="Bounded: strings longer than the bound or using other symbols are only covered through the corpus prefixes. Column unit is not fixed by the property, only its resets/monotonicity.",
   technique="bounded-exhaustive enumeration of the input prefix tree (explicit-state), oracle on every state, real code"),
}
NOT_YET="check not built yet in this round (work in progress; see DESIGN.md §12 build order) — not claimed"
NA={}
m={"version":1,
 "setup_cmd":"cd /verif && ./setup.sh",
 "hooks":{"guard":"--cfg koto_verif (RUSTFLAGS)",
  "enable":"RUSTFLAGS=\"--cfg koto_verif\" cargo build --release --offline (harness in /verif/harness depends on /repo crates by path)",
  "baseline_off_cmd":"cd /repo && cargo nextest run --workspace --no-fail-fast --offline",
  "source_commits":["eef0adf","54d55b2","b367d49"],"add_only":True},
 "engines":[], "checks":[], "not_applicable":[]}
for name,(path,kind) in ENGINES.items():
    m["engines"].append({"name":name,"path":path,"serves_properties":[p for p,c in CHECKS.items() if c["engine"]==name],"kind_free_text":kind})
for p in ALL:
    if p in CHECKS:
        c=CHECKS[p]
        m["checks"].append({"property_id":p,"quick_cmd":f"./check {p} --tier quick","thorough_cmd":f"./check {p} --tier thorough",
          "evidence_file":f"/verif/evidence/{p}.json","replay_cmd_template":f"./check {p} --replay {{path}}","engine":c["engine"],
          "level_claimed":{"category":c["category"],"text":c["text"],"design_ref":f"DESIGN.md §4 {p}"},
          "level_note":c["note"],"technique":c["technique"]})
    else:
        m["not_applicable"].append({"property_id":p,"reason":NA.get(p,NOT_YET)})
json.dump(m,open('/verif/MANIFEST.json','w'),indent=1)
print("checks:",len(m["checks"]),"not_applicable:",len(m["not_applicable"]))
